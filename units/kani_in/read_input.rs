//# unit read_input kind=kani_in crate=rusty_basic inject=rusty_basic/src/interpreter/read_input.rs
//# assume "file contents: every byte string of length <= 2 over the alphabet {a, comma, blank, CR, LF} (N=1 for LINE INPUT symbolic, the rest ENUMERATED concretely: CBMC does not finish on two symbolic bytes, see the report), plus four concrete files of 4 bytes"
//# assume "the underlying reader is a stub over a byte array that hands out one byte per read call and Ok(0) at the end and never fails (std::fs::File behind BufReader in production)"
// C18 -- the one-byte look-ahead reader behind INPUT #, LINE INPUT # and EOF().  The reader is specified over the
// LOGICAL position p = (bytes taken from the underlying reader) - (bytes waiting in the look-ahead buffer):
//   eof():        Ok(p == N) and p unchanged                     ("EOF(n) being true exactly when nothing is left")
//   line_input(): p == N  ->  Err of kind UnexpectedEof (mapped to Input past end of file (62) by error.rs), p unchanged
//                 p <  N  ->  Ok(the bytes from p up to the first CR or LF, or to the end), and p moves past them and
//                             past that ONE terminator: CR LF counts as one, a lone CR or a lone LF as one
//                                                                 ("fields end at comma/CR/LF, lines at CR/LF/CRLF")
//   input():      p == N  ->  Err of kind UnexpectedEof, p unchanged
//                 p <  N  ->  leading blanks skipped, Ok(the bytes up to the first comma, CR or LF, or to the end, without
//                             trailing blanks), p moves past the field and its ONE terminator (comma, CR LF, CR or LF)
// Every harness runs a SEQUENCE of calls from a fresh reader (eof before and after every read), so that a terminator
// byte left behind by one call (e.g. the LF of a CR LF pair) shows up both as a wrong position and as a spurious
// empty line / a wrong EOF in the next call.  The expected values come from a scan of the byte array that shares no
// code with ReadInputSource.

const CAP: usize = 4;

struct Stub {
    data: [u8; CAP],
    len: usize,
    pos: usize,
}

impl Read for Stub {
    fn read(&mut self, buf: &mut [u8]) -> std::io::Result<usize> {
        if buf.is_empty() || self.pos >= self.len {
            Ok(0)
        } else {
            buf[0] = self.data[self.pos];
            self.pos += 1;
            Ok(1)
        }
    }
}

fn any_byte() -> u8 {
    match vs::choice(5) {
        0 => b'a',
        1 => b',',
        2 => b' ',
        3 => b'\r',
        _ => b'\n',
    }
}

fn fresh(data: [u8; CAP], len: usize) -> ReadInputSource<Stub> {
    ReadInputSource::new(Stub { data, len, pos: 0 })
}

/// the logical position
fn position(src: &ReadInputSource<Stub>) -> usize {
    assert!(src.buffer.len() <= src.read.pos, "look-ahead buffer holds bytes that were never read");
    src.read.pos - src.buffer.len()
}

fn check_eof(src: &mut ReadInputSource<Stub>, p: usize) {
    let n = src.read.len;
    let r = src.eof();
    let ok = matches!(r, Ok(b) if b == (p == n));
    std::mem::forget(r);
    assert!(ok, "EOF is true exactly when nothing is left");
    assert!(position(src) == p, "EOF consumes nothing");
}

fn is_unexpected_eof(r: &std::io::Result<String>) -> bool {
    match r {
        Err(e) => e.kind() == ErrorKind::UnexpectedEof,
        Ok(_) => false,
    }
}

/// r must be Ok(the bytes data[from..to])
fn check_text(r: &std::io::Result<String>, data: &[u8; CAP], from: usize, to: usize) -> bool {
    match r {
        Ok(s) => {
            let g = s.as_bytes();
            if g.len() != to - from {
                return false;
            }
            let mut same = true;
            let mut i = 0;
            while i < CAP {
                if i < g.len() && g[i] != data[from + i] {
                    same = false;
                }
                i += 1;
            }
            same
        }
        Err(_) => false,
    }
}

/// position after the one terminator that starts at q (q < n, data[q] is a terminator)
fn after_terminator(data: &[u8; CAP], n: usize, q: usize) -> usize {
    if data[q] == b'\r' && q + 1 < n && data[q + 1] == b'\n' { q + 2 } else { q + 1 }
}

/// one LINE INPUT at logical position p; returns the new logical position
fn step_line_input(src: &mut ReadInputSource<Stub>, p: usize) -> usize {
    let data = src.read.data;
    let n = src.read.len;
    check_eof(src, p);
    let r = src.line_input();
    if p == n {
        let ok = is_unexpected_eof(&r);
        std::mem::forget(r);
        assert!(ok, "LINE INPUT at the end of the file: Input past end of file");
        assert!(position(src) == p, "a failed LINE INPUT consumes nothing");
        return p;
    }
    // specification: the line ends at the first CR / LF at or after p, or at the end of the file
    let mut q = p;
    let mut k = 0;
    while k < CAP {
        if q < n && data[q] != b'\r' && data[q] != b'\n' {
            q += 1;
        }
        k += 1;
    }
    let next = if q < n { after_terminator(&data, n, q) } else { n };
    let ok = check_text(&r, &data, p, q);
    std::mem::forget(r);
    assert!(ok, "LINE INPUT returns the bytes up to the first CR / LF / end of file");
    assert!(position(src) == next, "LINE INPUT consumes the line and exactly one terminator (CR LF counts as one)");
    check_eof(src, next);
    next
}

/// one INPUT (one field) at logical position p; returns the new logical position
fn step_input(src: &mut ReadInputSource<Stub>, p: usize) -> usize {
    let data = src.read.data;
    let n = src.read.len;
    check_eof(src, p);
    let r = src.input();
    if p == n {
        let ok = is_unexpected_eof(&r);
        std::mem::forget(r);
        assert!(ok, "INPUT at the end of the file: Input past end of file");
        assert!(position(src) == p, "a failed INPUT consumes nothing");
        return p;
    }
    // specification: skip blanks, the field ends at the first comma / CR / LF or at the end of the file
    let mut b = p;
    let mut k = 0;
    while k < CAP {
        if b < n && data[b] == b' ' {
            b += 1;
        }
        k += 1;
    }
    let mut q = b;
    let mut k = 0;
    while k < CAP {
        if q < n && data[q] != b',' && data[q] != b'\r' && data[q] != b'\n' {
            q += 1;
        }
        k += 1;
    }
    let next = if q < n { after_terminator(&data, n, q) } else { n };
    // without trailing blanks
    let mut e = q;
    let mut k = 0;
    while k < CAP {
        if e > b && data[e - 1] == b' ' {
            e -= 1;
        }
        k += 1;
    }
    let ok = check_text(&r, &data, b, e);
    std::mem::forget(r);
    assert!(ok, "INPUT returns the field between the leading blanks and the first comma / CR / LF, without trailing blanks");
    assert!(position(src) == next, "INPUT consumes the field and exactly one terminator (comma, CR LF, CR or LF)");
    check_eof(src, next);
    next
}


const ALPHABET: [u8; 5] = [b'a', b',', b' ', b'\r', b'\n'];

/// three LINE INPUTs (with EOF before and after each) on every 2-byte file that starts with `first`
fn line_inputs_on_all_second_bytes(first: u8) {
    let mut k = 0;
    while k < 5 {
        let mut src = fresh([first, ALPHABET[k], 0, 0], 2);
        let p1 = step_line_input(&mut src, 0);
        let p2 = step_line_input(&mut src, p1);
        let p3 = step_line_input(&mut src, p2);
        assert!(p3 == 2, "two bytes are at most two lines");
        std::mem::forget(src);
        k += 1;
    }
}

/// three INPUTs (with EOF before and after each) on every 2-byte file that starts with `first`
fn inputs_on_all_second_bytes(first: u8) {
    let mut k = 0;
    while k < 5 {
        let mut src = fresh([first, ALPHABET[k], 0, 0], 2);
        let p1 = step_input(&mut src, 0);
        let p2 = step_input(&mut src, p1);
        let p3 = step_input(&mut src, p2);
        assert!(p3 == 2, "two bytes are at most two fields");
        std::mem::forget(src);
        k += 1;
    }
}

//# harness empty_file tier=quick label=bounded(N=0) props=C18 fn=rusty_basic/src/interpreter/read_input.rs::ReadInputSource::line_input
harness!(empty_file, 6, {
    let mut src = fresh([0; CAP], 0);
    let p = step_line_input(&mut src, 0);
    let p = step_input(&mut src, p);
    assert!(p == 0);
    std::mem::forget(src);
});

//# harness line_input_n1 tier=quick label=bounded(N=1,alphabet5,enumerated) props=C18 fn=rusty_basic/src/interpreter/read_input.rs::ReadInputSource::line_input
harness!(line_input_n1, 6, {
    let mut k = 0;
    while k < 5 {
        let mut src = fresh([ALPHABET[k], 0, 0, 0], 1);
        let p1 = step_line_input(&mut src, 0);
        let p2 = step_line_input(&mut src, p1);
        assert!(p1 == 1 && p2 == 1);
        std::mem::forget(src);
        k += 1;
    }
});

//# harness input_n1 tier=quick label=bounded(N=1,alphabet5,enumerated) props=C18 fn=rusty_basic/src/interpreter/read_input.rs::ReadInputSource::input
harness!(input_n1, 6, {
    let mut k = 0;
    while k < 5 {
        let mut src = fresh([ALPHABET[k], 0, 0, 0], 1);
        let p1 = step_input(&mut src, 0);
        let p2 = step_input(&mut src, p1);
        assert!(p1 == 1 && p2 == 1);
        std::mem::forget(src);
        k += 1;
    }
});

//# harness line_input_n2_a tier=quick label=bounded(N=2,first_byte_a,alphabet5,enumerated) props=C18 fn=rusty_basic/src/interpreter/read_input.rs::ReadInputSource::line_input
harness!(line_input_n2_a, 6, {
    line_inputs_on_all_second_bytes(b'a');
});

//# harness line_input_n2_comma tier=quick label=bounded(N=2,first_byte_comma,alphabet5,enumerated) props=C18 fn=rusty_basic/src/interpreter/read_input.rs::ReadInputSource::line_input
harness!(line_input_n2_comma, 6, {
    line_inputs_on_all_second_bytes(b',');
});

//# harness line_input_n2_blank tier=quick label=bounded(N=2,first_byte_blank,alphabet5,enumerated) props=C18 fn=rusty_basic/src/interpreter/read_input.rs::ReadInputSource::line_input
harness!(line_input_n2_blank, 6, {
    line_inputs_on_all_second_bytes(b' ');
});

//# harness line_input_n2_cr tier=quick label=bounded(N=2,first_byte_cr,alphabet5,enumerated) props=C18 fn=rusty_basic/src/interpreter/read_input.rs::ReadInputSource::line_input
harness!(line_input_n2_cr, 6, {
    line_inputs_on_all_second_bytes(b'\r');
});

//# harness line_input_n2_lf tier=quick label=bounded(N=2,first_byte_lf,alphabet5,enumerated) props=C18 fn=rusty_basic/src/interpreter/read_input.rs::ReadInputSource::line_input
harness!(line_input_n2_lf, 6, {
    line_inputs_on_all_second_bytes(b'\n');
});

//# harness input_n2_a tier=quick label=bounded(N=2,first_byte_a,alphabet5,enumerated) props=C18 fn=rusty_basic/src/interpreter/read_input.rs::ReadInputSource::input
harness!(input_n2_a, 6, {
    inputs_on_all_second_bytes(b'a');
});

//# harness input_n2_comma tier=quick label=bounded(N=2,first_byte_comma,alphabet5,enumerated) props=C18 fn=rusty_basic/src/interpreter/read_input.rs::ReadInputSource::input
harness!(input_n2_comma, 6, {
    inputs_on_all_second_bytes(b',');
});

//# harness input_n2_blank tier=quick label=bounded(N=2,first_byte_blank,alphabet5,enumerated) props=C18 fn=rusty_basic/src/interpreter/read_input.rs::ReadInputSource::input
harness!(input_n2_blank, 6, {
    inputs_on_all_second_bytes(b' ');
});

//# harness input_n2_cr tier=quick label=bounded(N=2,first_byte_cr,alphabet5,enumerated) props=C18 fn=rusty_basic/src/interpreter/read_input.rs::ReadInputSource::input
harness!(input_n2_cr, 6, {
    inputs_on_all_second_bytes(b'\r');
});

//# harness input_n2_lf tier=quick label=bounded(N=2,first_byte_lf,alphabet5,enumerated) props=C18 fn=rusty_basic/src/interpreter/read_input.rs::ReadInputSource::input
harness!(input_n2_lf, 6, {
    inputs_on_all_second_bytes(b'\n');
});

//# harness concrete_crlf_lines tier=quick label=bounded(file="a\\r\\nb",concrete) props=C18 fn=rusty_basic/src/interpreter/read_input.rs::ReadInputSource::line_input
harness!(concrete_crlf_lines, 6, {
    let mut src = fresh([b'a', b'\r', b'\n', b'b'], 4);
    let p1 = step_line_input(&mut src, 0);
    let p2 = step_line_input(&mut src, p1);
    let p3 = step_line_input(&mut src, p2);
    assert!(p1 == 3 && p2 == 4 && p3 == 4, "a CR LF b is the two lines a and b, then end of file");
    std::mem::forget(src);
});

//# harness concrete_two_crlf tier=quick label=bounded(file="\\r\\n\\r\\n",concrete) props=C18 fn=rusty_basic/src/interpreter/read_input.rs::ReadInputSource::line_input
harness!(concrete_two_crlf, 6, {
    let mut src = fresh([b'\r', b'\n', b'\r', b'\n'], 4);
    let p1 = step_line_input(&mut src, 0);
    let p2 = step_line_input(&mut src, p1);
    let p3 = step_line_input(&mut src, p2);
    assert!(p1 == 2 && p2 == 4 && p3 == 4, "CR LF CR LF is two empty lines, then end of file");
    std::mem::forget(src);
});

//# harness concrete_fields tier=quick label=bounded(file="a_,b",concrete) props=C18 fn=rusty_basic/src/interpreter/read_input.rs::ReadInputSource::input
harness!(concrete_fields, 6, {
    let mut src = fresh([b'a', b' ', b',', b'b'], 4);
    let p1 = step_input(&mut src, 0);
    let p2 = step_input(&mut src, p1);
    let p3 = step_input(&mut src, p2);
    assert!(p1 == 3 && p2 == 4 && p3 == 4, "a blank comma b is the two fields a and b, then end of file");
    std::mem::forget(src);
});

//# harness concrete_field_crlf_field tier=quick label=bounded(file="a\\r\\nb",concrete) props=C18 fn=rusty_basic/src/interpreter/read_input.rs::ReadInputSource::input
harness!(concrete_field_crlf_field, 6, {
    let mut src = fresh([b'a', b'\r', b'\n', b'b'], 4);
    let p1 = step_input(&mut src, 0);
    let p2 = step_input(&mut src, p1);
    let p3 = step_input(&mut src, p2);
    assert!(p1 == 3 && p2 == 4 && p3 == 4, "a CR LF b is the two fields a and b, then end of file");
    std::mem::forget(src);
});

// C08 -- "for any console input ... never ends in an internal failure such as a panic": a byte of ANY value (not only ASCII)
// arriving on the reader must give a BASIC-level outcome -- a string or an error -- never a panic.
// one concrete file per byte value, one value per UTF-8 class (ASCII, continuation byte, 2-/3-/4-byte leader, never-valid): a symbolic
// byte sends CBMC through the UTF-8 encoder of String and out of memory, all 256 values unrolled do not finish in 15 minutes
const BYTE_CLASSES: [u8; 9] = [0x00, 0x61, 0x7f, 0x80, 0xbf, 0xc3, 0xe2, 0xf0, 0xff];

//# harness line_input_any_byte_total tier=quick label=bounded(N=1,9-byte-values-one-per-UTF-8-class,enumerated) props=C08,C18 fn=rusty_basic/src/interpreter/read_input.rs::ReadInputSource::line_input timeout=900
harness!(line_input_any_byte_total, 11, {
    let mut k = 0;
    while k < 9 {
        let mut src = fresh([BYTE_CLASSES[k], 0, 0, 0], 1);
        let r = src.line_input();
        std::mem::forget(r);
        std::mem::forget(src);
        k += 1;
    }
});

//# harness input_any_byte_total tier=quick label=bounded(N=1,9-byte-values-one-per-UTF-8-class,enumerated) props=C08,C18 fn=rusty_basic/src/interpreter/read_input.rs::ReadInputSource::input timeout=900
harness!(input_any_byte_total, 11, {
    let mut k = 0;
    while k < 9 {
        let mut src = fresh([BYTE_CLASSES[k], 0, 0, 0], 1);
        let r = src.input();
        std::mem::forget(r);
        std::mem::forget(src);
        k += 1;
    }
});
