//# unit pc_loopfree kind=kani_ext
//! C20 — every loop-free combinator of `rusty_pc` (the unmodified crate) against the parser
//! contract.  Sub-parsers are `Stub`s: each call chooses *nondeterministically* between
//!   Ok(v)    – any value, position advanced by any k >= 0 (within the input),
//!   soft Err – position untouched if the stub is `backtracking` (the contract of a backtracking
//!              parser), otherwise moved anywhere forward (a documented non-rewinding parser such
//!              as `and_then`),
//!   fatal Err – position anywhere forward,
//! and logs (who, start, end, outcome, value/tag) in ghost fields of the input.  The combinator
//! under test therefore sees only the *contract* of its sub-parsers, never a body.
#![allow(dead_code, unused_imports, clippy::all)]

include!("verif_support.rs");

use rusty_pc::*;

#[derive(Clone, Copy, Default, PartialEq, Eq, Debug)]
pub struct E {
    pub fatal: bool,
    pub tag: u8,
}
impl ParserErrorTrait for E {
    fn is_fatal(&self) -> bool {
        self.fatal
    }
    fn to_fatal(self) -> Self {
        E { fatal: true, tag: self.tag }
    }
}
impl From<u8> for E {
    fn from(tag: u8) -> E {
        E { fatal: false, tag }
    }
}

pub const OK: u8 = 0;
pub const SOFT: u8 = 1;
pub const FATAL: u8 = 2;
pub const MAXLOG: usize = 8;

#[derive(Clone, Copy, Default)]
pub struct Call {
    pub who: u8,
    pub start: usize,
    pub end: usize,
    pub out: u8,
    pub val: u8,
    /// context most recently given to the stub through `set_context` (0 = never)
    pub ctx: u8,
}

/// The input: a position in `0..=len` and the ghost call log.
pub struct In {
    pub pos: usize,
    pub len: usize,
    pub log: [Call; MAXLOG],
    pub n: usize,
    pub reads: usize,
    pub fatal_seen: bool,
    /// bounded harnesses only: paths with more sub-parser calls than this are cut off (assume)
    pub cap: usize,
}
impl In {
    pub fn any() -> In {
        let len = vs::usize();
        vs::assume(len <= 1000);
        let pos = vs::usize();
        vs::assume(pos <= len);
        In { pos, len, log: [Call::default(); MAXLOG], n: 0, reads: 0, fatal_seen: false, cap: MAXLOG }
    }
    fn push(&mut self, c: Call) {
        if self.cap < MAXLOG {
            vs::assume(self.n < self.cap);
        }
        assert!(self.n < MAXLOG, "harness log too small");
        self.log[self.n] = c;
        if c.out == FATAL {
            self.fatal_seen = true;
        }
        self.n += 1;
    }
    pub fn any_fatal(&self) -> bool {
        self.fatal_seen
    }
}
impl InputTrait for In {
    type Output = u8;
    fn peek(&self) -> u8 {
        assert!(self.pos < self.len, "peek at eof");
        (self.pos % 251) as u8
    }
    fn read(&mut self) -> u8 {
        assert!(self.pos < self.len, "read at eof");
        let r = (self.pos % 251) as u8;
        self.pos += 1;
        self.reads += 1;
        r
    }
    fn get_position(&self) -> usize {
        self.pos
    }
    fn is_eof(&self) -> bool {
        self.pos >= self.len
    }
    fn set_position(&mut self, position: usize) {
        self.pos = position;
    }
}

/// A sub-parser known only by its contract.
pub struct Stub {
    pub id: u8,
    pub backtracking: bool,
    pub ctx: u8,
}
impl Stub {
    pub fn new(id: u8) -> Stub {
        Stub { id, backtracking: true, ctx: 0 }
    }
    pub fn any_bt(id: u8) -> Stub {
        Stub { id, backtracking: vs::bool(), ctx: 0 }
    }
    fn run(&mut self, input: &mut In) -> Result<u8, E> {
        let start = input.pos;
        let out = vs::choice(3);
        let val = vs::u8();
        let adv = vs::usize();
        vs::assume(adv <= input.len - start);
        let end = if out == SOFT && self.backtracking { start } else { start + adv };
        input.pos = end;
        input.push(Call { who: self.id, start, end, out, val, ctx: self.ctx });
        match out {
            OK => Ok(val),
            SOFT => Err(E { fatal: false, tag: val }),
            _ => Err(E { fatal: true, tag: val }),
        }
    }
}
impl Parser<In, u8> for Stub {
    type Output = u8;
    type Error = E;
    fn parse(&mut self, input: &mut In) -> Result<u8, E> {
        self.run(input)
    }
    fn set_context(&mut self, ctx: &u8) {
        self.ctx = *ctx;
    }
}
pub fn stub(id: u8, backtracking: bool) -> Stub {
    Stub { id, backtracking, ctx: 0 }
}
/// Same stub for parsers without context (`C = ()`).
pub struct Stub0(pub Stub);
impl Parser<In, ()> for Stub0 {
    type Output = u8;
    type Error = E;
    fn parse(&mut self, input: &mut In) -> Result<u8, E> {
        self.0.run(input)
    }
    fn set_context(&mut self, _ctx: &()) {}
}

fn is_soft<T>(r: &Result<T, E>) -> bool {
    matches!(r, Err(e) if !e.fatal)
}
fn is_fatal<T>(r: &Result<T, E>) -> bool {
    matches!(r, Err(e) if e.fatal)
}

/// The clauses every combinator must satisfy whatever it is (property statement):
///  * a fatal sub-result is never swallowed or downgraded,
///  * a successful parse never moves the position backwards.
fn common<T>(input: &In, p0: usize, r: &Result<T, E>) {
    if input.any_fatal() {
        assert!(is_fatal(r), "fatal sub-result swallowed or downgraded");
    }
    if r.is_ok() {
        assert!(input.pos >= p0, "successful parse moved the position backwards");
    }
    assert!(input.pos <= input.len);
}

// ---------------------------------------------------------------------------------------------
// and (sequence with undo)
// ---------------------------------------------------------------------------------------------
//# harness and_tuple tier=quick label=complete props=C20 fn=rusty_pc/src/and.rs::AndParser::parse
harness!(and_tuple, 2, {
    let mut input = In::any();
    let p0 = input.pos;
    let lbt = vs::bool();
    let mut p = Stub { id: 1, backtracking: lbt, ctx: 0 }.and_tuple(Stub::any_bt(2));
    let r = p.parse(&mut input);
    common(&input, p0, &r);
    let l = input.log[0];
    assert!(input.n >= 1 && l.who == 1 && l.start == p0, "left runs first, from the start");
    if l.out != OK {
        // left failed: its error is the result, right never runs
        assert!(input.n == 1);
        assert!(r == Err(E { fatal: l.out == FATAL, tag: l.val }));
        if l.out == SOFT && lbt {
            assert!(input.pos == p0);
        }
    } else {
        let rr = input.log[1];
        assert!(input.n == 2 && rr.who == 2 && rr.start == l.end, "right runs where left ended");
        match rr.out {
            OK => {
                assert!(r == Ok((l.val, rr.val)));
                assert!(input.pos == rr.end);
            }
            SOFT => {
                // sequence-with-undo: soft failure of the right side undoes the left side
                assert!(r == Err(E { fatal: false, tag: rr.val }));
                assert!(input.pos == p0, "soft failure under and must restore the position");
            }
            _ => assert!(r == Err(E { fatal: true, tag: rr.val })),
        }
    }
    reach!(r.is_ok());
    reach!(is_soft(&r) && input.n == 2);
    reach!(is_fatal(&r));
});

//# harness and_keep tier=quick label=complete props=C20 fn=rusty_pc/src/and.rs::AndParser::parse
harness!(and_keep, 2, {
    let mut input = In::any();
    let p0 = input.pos;
    let left = vs::bool();
    let r = if left {
        Stub::new(1).and_keep_left(Stub::any_bt(2)).parse(&mut input)
    } else {
        Stub::new(1).and_keep_right(Stub::any_bt(2)).parse(&mut input)
    };
    common(&input, p0, &r);
    if is_soft(&r) {
        assert!(input.pos == p0);
    }
    if let Ok(v) = r {
        assert!(input.n == 2);
        assert!(v == if left { input.log[0].val } else { input.log[1].val });
        assert!(input.pos == input.log[1].end);
    }
    reach!(r.is_ok());
    reach!(is_soft(&r));
});

// ---------------------------------------------------------------------------------------------
// or
// ---------------------------------------------------------------------------------------------
//# harness or_two tier=quick label=complete props=C20 fn=rusty_pc/src/or.rs::OrParserNoBox::parse
harness!(or_two, 2, {
    let mut input = In::any();
    let p0 = input.pos;
    // "choice returns the first alternative that succeeds FROM THE ORIGINAL POSITION": also a left alternative that does not
    // undo its own soft failure (and_then is documented not to backtrack) is undone by `or` itself, as OrParser does
    // (defect 60: OrParserNoBox started the second alternative wherever the first one had stopped)
    let rbt = vs::bool();
    let lbt = vs::bool();
    let mut p = stub(1, lbt).or(stub(2, rbt));
    let r = p.parse(&mut input);
    common(&input, p0, &r);
    let l = input.log[0];
    assert!(l.who == 1 && l.start == p0);
    match l.out {
        OK => {
            assert!(input.n == 1 && r == Ok(l.val) && input.pos == l.end);
        }
        SOFT => {
            let rr = input.log[1];
            assert!(input.n == 2 && rr.who == 2 && rr.start == p0, "second alternative starts at the original position");
            match rr.out {
                OK => assert!(r == Ok(rr.val) && input.pos == rr.end),
                SOFT => {
                    assert!(r == Err(E { fatal: false, tag: rr.val }));
                    if rbt {
                        assert!(input.pos == p0);
                    }
                }
                _ => assert!(r == Err(E { fatal: true, tag: rr.val })),
            }
        }
        _ => assert!(input.n == 1 && r == Err(E { fatal: true, tag: l.val })),
    }
    reach!(r.is_ok() && input.n == 2);
    reach!(is_soft(&r));
    reach!(!lbt && input.n == 2 && input.log[0].end > p0 && r.is_ok());
});

//# harness or_boxed tier=quick label=bounded(alternatives<=4) props=C20 fn=rusty_pc/src/or.rs::OrParser::parse
harness!(or_boxed, 10, {
    // OrParser undoes each failed alternative itself, so alternatives 1..n-1 may be non-backtracking
    let mut input = In::any();
    let p0 = input.pos;
    let n = 2 + vs::choice(3) as usize; // 2..=4 alternatives
    let bt = [vs::bool(), vs::bool(), vs::bool(), vs::bool()];
    let mut v: Vec<Box<dyn Parser<In, u8, Output = u8, Error = E>>> = Vec::new();
    let mut i = 0;
    while i < n {
        v.push(Box::new(stub(i as u8 + 1, bt[i])));
        i += 1;
    }
    let mut p = OrParser::new(v);
    let r = p.parse(&mut input);
    common(&input, p0, &r);
    // every alternative that ran started from the original position, in order, and all but the
    // last one failed softly
    assert!(input.n >= 1 && input.n <= n);
    let mut k = 0;
    while k < MAXLOG {
        if k < input.n {
            let c = input.log[k];
            assert!(c.who == k as u8 + 1, "alternatives are tried in order");
            assert!(c.start == p0, "every alternative starts from the original position");
            if k + 1 < input.n {
                assert!(c.out == SOFT, "a later alternative is tried only after a soft failure");
            }
        }
        k += 1;
    }
    let last = input.log[input.n - 1];
    match last.out {
        OK => assert!(r == Ok(last.val) && input.pos == last.end, "choice returns the first success"),
        SOFT => {
            assert!(input.n == n, "soft failure only after every alternative failed softly");
            assert!(r == Err(E { fatal: false, tag: last.val }));
            if bt[n - 1] {
                assert!(input.pos == p0, "soft failure of choice leaves the input where it started");
            }
        }
        _ => assert!(r == Err(E { fatal: true, tag: last.val })),
    }
    reach!(r.is_ok() && input.n == 3);
    reach!(is_soft(&r) && n == 4);
    reach!(is_fatal(&r) && input.n == 2);
});

// ---------------------------------------------------------------------------------------------
// filter / filter_map / peek
// ---------------------------------------------------------------------------------------------
//# harness filter_contract tier=quick label=complete props=C20 fn=rusty_pc/src/filter.rs::FilterParser::parse
harness!(filter_contract, 2, {
    let mut input = In::any();
    let p0 = input.pos;
    let bt = vs::bool();
    let threshold = vs::u8();
    let mut p = stub(1, bt).filter(move |v: &u8| *v >= threshold);
    let r = p.parse(&mut input);
    common(&input, p0, &r);
    let c = input.log[0];
    assert!(input.n == 1 && c.start == p0);
    match c.out {
        OK => {
            if c.val >= threshold {
                assert!(r == Ok(c.val) && input.pos == c.end);
            } else {
                assert!(r == Err(E::default()), "rejected value gives the default (soft) error");
                assert!(input.pos == p0, "soft failure under filter leaves the input where it started");
            }
        }
        SOFT => {
            assert!(r == Err(E { fatal: false, tag: c.val }));
            // also under a child that does not undo its own soft failure (defect 65)
            assert!(input.pos == p0, "soft failure under filter leaves the input where it started");
        }
        _ => assert!(r == Err(E { fatal: true, tag: c.val })),
    }
    reach!(r.is_ok());
    reach!(c.out == OK && is_soft(&r));
    reach!(!bt && c.out == SOFT && c.end > p0);
});

//# harness filter_map_contract tier=quick label=complete props=C20 fn=rusty_pc/src/filter_map.rs::FilterMapParser::parse
harness!(filter_map_contract, 2, {
    let mut input = In::any();
    let p0 = input.pos;
    let threshold = vs::u8();
    let mut p = Stub::new(1).filter_map(move |v: &u8| if *v >= threshold { Some(*v as u16 + 1000) } else { None });
    let r = p.parse(&mut input);
    common(&input, p0, &r);
    let c = input.log[0];
    assert!(input.n == 1 && c.start == p0);
    match c.out {
        OK => {
            if c.val >= threshold {
                assert!(r == Ok(c.val as u16 + 1000) && input.pos == c.end);
            } else {
                assert!(r == Err(E::default()));
                assert!(input.pos == p0, "soft failure under filter_map leaves the input where it started");
            }
        }
        SOFT => assert!(r == Err(E { fatal: false, tag: c.val }) && input.pos == p0),
        _ => assert!(r == Err(E { fatal: true, tag: c.val })),
    }
    reach!(r.is_ok());
    reach!(c.out == OK && is_soft(&r));
});

//# harness peek_contract tier=quick label=complete props=C20 fn=rusty_pc/src/peek.rs::PeekParser::parse
harness!(peek_contract, 2, {
    let mut input = In::any();
    let p0 = input.pos;
    let bt = vs::bool();
    let mut p = stub(1, bt).peek();
    let r = p.parse(&mut input);
    common(&input, p0, &r);
    let c = input.log[0];
    assert!(input.n == 1 && c.start == p0);
    match c.out {
        OK => assert!(r == Ok(c.val) && input.pos == p0, "peek never consumes"),
        SOFT => {
            assert!(r == Err(E { fatal: false, tag: c.val }));
            // also under a child that does not undo its own soft failure (defect 65)
            assert!(input.pos == p0, "soft failure under peek leaves the input where it started");
        }
        _ => assert!(r == Err(E { fatal: true, tag: c.val })),
    }
    reach!(r.is_ok() && c.end > p0);
});

// ---------------------------------------------------------------------------------------------
// optional / default
// ---------------------------------------------------------------------------------------------
//# harness to_option_contract tier=quick label=complete props=C20 fn=rusty_pc/src/to_option.rs::ToOptionParser
harness!(to_option_contract, 2, {
    let mut input = In::any();
    let p0 = input.pos;
    let bt = vs::bool();
    let mut p = stub(1, bt).to_option();
    let r = p.parse(&mut input);
    common(&input, p0, &r);
    let c = input.log[0];
    assert!(input.n == 1 && c.start == p0);
    assert!(!is_soft(&r), "optional never fails softly");
    match c.out {
        OK => assert!(r == Ok(Some(c.val)) && input.pos == c.end),
        SOFT => {
            assert!(r == Ok(None));
            // also under a child that does not undo its own soft failure (defect 65)
            assert!(input.pos == p0, "soft failure under optional leaves the input where it started");
        }
        _ => assert!(r == Err(E { fatal: true, tag: c.val })),
    }
    reach!(r == Ok(None));
});

//# harness or_default_contract tier=quick label=complete props=C20 fn=rusty_pc/src/or_default.rs::OrDefaultParser
harness!(or_default_contract, 2, {
    let mut input = In::any();
    let p0 = input.pos;
    let bt = vs::bool();
    let mut p = stub(1, bt).or_default();
    let r = p.parse(&mut input);
    common(&input, p0, &r);
    let c = input.log[0];
    assert!(input.n == 1 && c.start == p0);
    assert!(!is_soft(&r), "default never fails softly");
    match c.out {
        OK => assert!(r == Ok(c.val) && input.pos == c.end),
        SOFT => {
            assert!(r == Ok(0u8));
            // also under a child that does not undo its own soft failure (defect 65)
            assert!(input.pos == p0, "soft failure under default leaves the input where it started");
        }
        _ => assert!(r == Err(E { fatal: true, tag: c.val })),
    }
    reach!(c.out == SOFT);
});

// ---------------------------------------------------------------------------------------------
// surround
// ---------------------------------------------------------------------------------------------
//# harness surround_optional tier=quick label=complete props=C20 fn=rusty_pc/src/surround.rs::SurroundParser::parse
harness!(surround_optional, 2, {
    let mut input = In::any();
    let p0 = input.pos;
    let (lbt, mbt, rbt) = (vs::bool(), vs::bool(), vs::bool());
    let mut p = surround(stub(1, lbt), stub(2, mbt), stub(3, rbt), SurroundMode::Optional);
    let r = p.parse(&mut input);
    common(&input, p0, &r);
    let l = input.log[0];
    assert!(l.who == 1 && l.start == p0);
    if l.out == FATAL {
        assert!(input.n == 1 && r == Err(E { fatal: true, tag: l.val }));
    } else {
        // the left boundary is optional: the content is attempted either way, where the boundary ended
        let m = input.log[1];
        assert!(input.n >= 2 && m.who == 2 && m.start == l.end);
        match m.out {
            OK => {
                let rr = input.log[2];
                assert!(input.n == 3 && rr.who == 3 && rr.start == m.end);
                if rr.out == FATAL {
                    assert!(r == Err(E { fatal: true, tag: rr.val }));
                } else {
                    assert!(r == Ok(m.val), "the result is the content");
                    assert!(input.pos == rr.end);
                }
            }
            SOFT => {
                assert!(input.n == 2 && r == Err(E { fatal: false, tag: m.val }));
                assert!(input.pos == p0, "soft failure under optional surround leaves the input where it started");
            }
            _ => assert!(input.n == 2 && r == Err(E { fatal: true, tag: m.val })),
        }
    }
    reach!(r.is_ok() && l.out == SOFT);
    reach!(is_soft(&r) && l.out == OK && l.end > p0);
});

//# harness surround_mandatory tier=quick label=complete props=C20 fn=rusty_pc/src/surround.rs::SurroundParser::parse
harness!(surround_mandatory, 2, {
    let mut input = In::any();
    let p0 = input.pos;
    let lbt = vs::bool();
    let mut p = surround(stub(1, lbt), Stub::any_bt(2), Stub::any_bt(3), SurroundMode::Mandatory);
    let r = p.parse(&mut input);
    common(&input, p0, &r);
    let l = input.log[0];
    assert!(l.who == 1 && l.start == p0);
    if l.out != OK {
        // missing left boundary: soft error, nothing else is attempted
        assert!(input.n == 1 && r == Err(E { fatal: l.out == FATAL, tag: l.val }));
        if l.out == SOFT && lbt {
            assert!(input.pos == p0);
        }
    } else {
        let m = input.log[1];
        assert!(input.n >= 2 && m.who == 2 && m.start == l.end);
        if m.out != OK {
            assert!(input.n == 2 && r == Err(E { fatal: true, tag: m.val }), "missing content after the boundary is fatal");
        } else {
            let rr = input.log[2];
            assert!(input.n == 3 && rr.who == 3 && rr.start == m.end);
            if rr.out != OK {
                assert!(r == Err(E { fatal: true, tag: rr.val }), "missing right boundary is fatal");
            } else {
                assert!(r == Ok(m.val) && input.pos == rr.end);
            }
        }
    }
    reach!(r.is_ok());
    reach!(is_soft(&r));
    reach!(is_fatal(&r) && !input.any_fatal());
});

// ---------------------------------------------------------------------------------------------
// seqN: the first may fail softly, every later error becomes fatal
// ---------------------------------------------------------------------------------------------
fn seq_check(input: &In, p0: usize, n: usize, r: &Result<u16, E>) {
    let first = input.log[0];
    assert!(first.who == 1 && first.start == p0);
    if first.out != OK {
        assert!(input.n == 1);
        assert!(*r == Err(E { fatal: first.out == FATAL, tag: first.val }), "the first parser's error is returned as is");
        return;
    }
    let mut k = 1;
    let mut sum: u16 = first.val as u16;
    while k < 6 {
        if k < n && k < input.n {
            let c = input.log[k];
            assert!(c.who == k as u8 + 1 && c.start == input.log[k - 1].end, "parsers run in order, each where the previous ended");
            if c.out != OK {
                assert!(input.n == k + 1, "nothing runs after a failure");
                assert!(*r == Err(E { fatal: true, tag: c.val }), "errors after the first parser are fatal");
                return;
            }
            sum += c.val as u16;
        }
        k += 1;
    }
    assert!(input.n == n);
    assert!(*r == Ok(sum), "the mapper receives every value, in order");
    assert!(input.pos == input.log[n - 1].end);
}

//# harness seq2_contract tier=quick label=complete props=C20 fn=rusty_pc/src/seq.rs::Seq2::parse
harness!(seq2_contract, 7, {
    let mut input = In::any();
    let p0 = input.pos;
    let mut p = seq2(Stub::any_bt(1), Stub::any_bt(2), |a: u8, b: u8| a as u16 + b as u16);
    let r = p.parse(&mut input);
    common(&input, p0, &r);
    seq_check(&input, p0, 2, &r);
    reach!(r.is_ok());
    reach!(is_fatal(&r) && !input.any_fatal());
});

//# harness seq3_contract tier=quick label=complete props=C20 fn=rusty_pc/src/seq.rs::Seq3::parse
harness!(seq3_contract, 7, {
    let mut input = In::any();
    let p0 = input.pos;
    let mut p = seq3(Stub::any_bt(1), Stub::any_bt(2), Stub::any_bt(3), |a: u8, b: u8, c: u8| a as u16 + b as u16 + c as u16);
    let r = p.parse(&mut input);
    common(&input, p0, &r);
    seq_check(&input, p0, 3, &r);
    reach!(r.is_ok());
    reach!(is_soft(&r));
});

//# harness seq4_contract tier=quick label=complete props=C20 fn=rusty_pc/src/seq.rs::Seq4::parse
harness!(seq4_contract, 7, {
    let mut input = In::any();
    let p0 = input.pos;
    let mut p = seq4(Stub::any_bt(1), Stub::any_bt(2), Stub::any_bt(3), Stub::any_bt(4), |a: u8, b: u8, c: u8, d: u8| {
        a as u16 + b as u16 + c as u16 + d as u16
    });
    let r = p.parse(&mut input);
    common(&input, p0, &r);
    seq_check(&input, p0, 4, &r);
    reach!(r.is_ok());
});

//# harness seq5_contract tier=quick label=complete props=C20 fn=rusty_pc/src/seq.rs::Seq5::parse
harness!(seq5_contract, 7, {
    let mut input = In::any();
    let p0 = input.pos;
    let mut p = seq5(
        Stub::any_bt(1),
        Stub::any_bt(2),
        Stub::any_bt(3),
        Stub::any_bt(4),
        Stub::any_bt(5),
        |a: u8, b: u8, c: u8, d: u8, e: u8| a as u16 + b as u16 + c as u16 + d as u16 + e as u16,
    );
    let r = p.parse(&mut input);
    common(&input, p0, &r);
    seq_check(&input, p0, 5, &r);
    reach!(r.is_ok());
});

//# harness seq6_contract tier=quick label=complete props=C20 fn=rusty_pc/src/seq.rs::Seq6::parse
harness!(seq6_contract, 7, {
    let mut input = In::any();
    let p0 = input.pos;
    let mut p = seq6(
        Stub::any_bt(1),
        Stub::any_bt(2),
        Stub::any_bt(3),
        Stub::any_bt(4),
        Stub::any_bt(5),
        Stub::any_bt(6),
        |a: u8, b: u8, c: u8, d: u8, e: u8, f: u8| a as u16 + b as u16 + c as u16 + d as u16 + e as u16 + f as u16,
    );
    let r = p.parse(&mut input);
    common(&input, p0, &r);
    seq_check(&input, p0, 6, &r);
    reach!(r.is_ok());
    reach!(is_fatal(&r) && input.n == 6);
});

// ---------------------------------------------------------------------------------------------
// then_with_in_context
// ---------------------------------------------------------------------------------------------
//# harness then_with_contract tier=quick label=complete props=C20 fn=rusty_pc/src/then_with.rs::ThenWithContextParser::parse
harness!(then_with_contract, 2, {
    let mut input = In::any();
    let p0 = input.pos;
    let lbt = vs::bool();
    let mut p = stub(1, lbt).then_with_in_context(Stub::any_bt(2), |a: u8, b: u8| (a, b));
    let r = p.parse(&mut input);
    common(&input, p0, &r);
    let l = input.log[0];
    assert!(l.who == 1 && l.start == p0);
    if l.out != OK {
        assert!(input.n == 1 && r == Err(E { fatal: l.out == FATAL, tag: l.val }));
        if l.out == SOFT && lbt {
            assert!(input.pos == p0);
        }
    } else {
        let rr = input.log[1];
        assert!(input.n == 2 && rr.who == 2 && rr.start == l.end);
        assert!(rr.ctx == l.val, "the right side parses in the context of the left side's value");
        if rr.out == OK {
            assert!(r == Ok((l.val, rr.val)) && input.pos == rr.end);
        } else {
            assert!(r == Err(E { fatal: true, tag: rr.val }), "right-side errors are always fatal");
        }
    }
    reach!(r.is_ok() && l.val == 7);
    reach!(is_fatal(&r) && !input.any_fatal());
});

// ---------------------------------------------------------------------------------------------
// and_then / and_then_err / map / map_to_unit
// ---------------------------------------------------------------------------------------------
//# harness and_then_contract tier=quick label=complete props=C20 fn=rusty_pc/src/and_then.rs::AndThenParser
harness!(and_then_contract, 2, {
    let mut input = In::any();
    let p0 = input.pos;
    let bt = vs::bool();
    let fatal_on_odd = vs::bool();
    let mut p = stub(1, bt).and_then(move |v: u8| if v % 2 == 0 { Ok(v as u16 * 2) } else { Err(E { fatal: fatal_on_odd, tag: v }) });
    let r = p.parse(&mut input);
    common(&input, p0, &r);
    let c = input.log[0];
    assert!(input.n == 1 && c.start == p0);
    match c.out {
        OK => {
            // documented: no rewind even if the mapper fails softly
            assert!(input.pos == c.end);
            if c.val % 2 == 0 {
                assert!(r == Ok(c.val as u16 * 2));
            } else {
                assert!(r == Err(E { fatal: fatal_on_odd, tag: c.val }));
            }
        }
        SOFT => assert!(r == Err(E { fatal: false, tag: c.val })),
        _ => assert!(r == Err(E { fatal: true, tag: c.val })),
    }
    reach!(r.is_ok());
    reach!(c.out == OK && is_soft(&r));
});

//# harness and_then_err_contract tier=quick label=complete props=C20 fn=rusty_pc/src/and_then_err.rs::AndThenErrParser
harness!(and_then_err_contract, 2, {
    let mut input = In::any();
    let p0 = input.pos;
    let mut p = Stub::new(1).and_then_err(|e: E| if e.tag % 2 == 0 { Ok(e.tag) } else { Err(E { fatal: true, tag: e.tag }) });
    let r = p.parse(&mut input);
    common(&input, p0, &r);
    let c = input.log[0];
    assert!(input.n == 1 && c.start == p0);
    match c.out {
        OK => assert!(r == Ok(c.val) && input.pos == c.end),
        SOFT => {
            // only soft errors reach the mapper
            if c.val % 2 == 0 {
                assert!(r == Ok(c.val));
            } else {
                assert!(r == Err(E { fatal: true, tag: c.val }));
            }
            assert!(input.pos == p0);
        }
        _ => assert!(r == Err(E { fatal: true, tag: c.val }), "a fatal error never reaches the soft-error mapper"),
    }
    reach!(c.out == SOFT && r.is_ok());
});

//# harness map_contract tier=quick label=complete props=C20 fn=rusty_pc/src/map.rs::MapParser
harness!(map_contract, 2, {
    let mut input = In::any();
    let p0 = input.pos;
    let unit = vs::bool();
    let c;
    if unit {
        let r = Stub::any_bt(1).map_to_unit().parse(&mut input);
        common(&input, p0, &r);
        c = input.log[0];
        match c.out {
            OK => assert!(r == Ok(()) && input.pos == c.end),
            _ => assert!(r == Err(E { fatal: c.out == FATAL, tag: c.val })),
        }
    } else {
        let r = Stub::any_bt(1).map(|v: u8| v as u16 + 1).parse(&mut input);
        common(&input, p0, &r);
        c = input.log[0];
        match c.out {
            OK => assert!(r == Ok(c.val as u16 + 1) && input.pos == c.end),
            _ => assert!(r == Err(E { fatal: c.out == FATAL, tag: c.val }), "errors pass through map unchanged"),
        }
    }
    assert!(input.n == 1 && c.start == p0);
    reach!(unit && c.out == OK);
    reach!(!unit && c.out == SOFT);
});

// ---------------------------------------------------------------------------------------------
// error mappers
// ---------------------------------------------------------------------------------------------
//# harness soft_err_mappers tier=quick label=complete props=C20 fn=rusty_pc/src/map_soft_err.rs::MapSoftErrParser
harness!(soft_err_mappers, 2, {
    let mut input = In::any();
    let p0 = input.pos;
    let which = vs::choice(4);
    let repl = E { fatal: vs::bool(), tag: 200 };
    let r = match which {
        0 => Stub::new(1).with_soft_err(repl).parse(&mut input),
        1 => {
            vs::assume(repl.fatal);
            Stub::new(1).or_fail(repl).parse(&mut input)
        }
        2 => Stub::new(1).with_expected_message(200u8).parse(&mut input),
        _ => Stub::new(1).or_expected(200u8).parse(&mut input),
    };
    common(&input, p0, &r);
    let c = input.log[0];
    assert!(input.n == 1 && c.start == p0);
    match c.out {
        OK => assert!(r == Ok(c.val) && input.pos == c.end),
        SOFT => {
            let want = match which {
                0 | 1 => repl,
                2 => E { fatal: false, tag: 200 },
                _ => E { fatal: true, tag: 200 },
            };
            assert!(r == Err(want), "the soft error is replaced by the given error");
            assert!(input.pos == p0);
        }
        _ => assert!(r == Err(E { fatal: true, tag: c.val }), "a fatal error is returned as is"),
    }
    reach!(which == 3 && c.out == SOFT);
    reach!(which == 0 && c.out == FATAL);
});

//# harness to_fatal_contract tier=quick label=complete props=C20 fn=rusty_pc/src/to_fatal.rs::ToFatalParser
harness!(to_fatal_contract, 2, {
    let mut input = In::any();
    let p0 = input.pos;
    let r = Stub::any_bt(1).to_fatal().parse(&mut input);
    common(&input, p0, &r);
    let c = input.log[0];
    assert!(input.n == 1 && c.start == p0);
    match c.out {
        OK => assert!(r == Ok(c.val) && input.pos == c.end),
        _ => assert!(r == Err(E { fatal: true, tag: c.val }), "every error comes out fatal, otherwise unchanged"),
    }
    assert!(!is_soft(&r));
    reach!(c.out == SOFT);
});

//# harness map_fatal_err_contract tier=quick label=complete props=C20 fn=rusty_pc/src/map_fatal_err.rs::MapFatalErrParser::parse
harness!(map_fatal_err_contract, 2, {
    // documentation of `Parser::map_fatal_err`: success as is; soft error as is; fatal error replaced
    let mut input = In::any();
    let p0 = input.pos;
    let repl = E { fatal: true, tag: 200 };
    let r = Stub::new(1).map_fatal_err(repl).parse(&mut input);
    common(&input, p0, &r);
    let c = input.log[0];
    assert!(input.n == 1 && c.start == p0);
    match c.out {
        OK => assert!(r == Ok(c.val) && input.pos == c.end),
        SOFT => {
            assert!(r == Err(E { fatal: false, tag: c.val }), "a soft error is returned as is");
            assert!(input.pos == p0);
        }
        _ => assert!(r == Err(repl), "a fatal error is replaced by the given error"),
    }
    reach!(c.out == SOFT);
    reach!(c.out == FATAL);
});

// ---------------------------------------------------------------------------------------------
// flatten / no_context / map_ctx / boxed / lazy / iif_ctx / ctx_parser / supplier
// ---------------------------------------------------------------------------------------------
/// a parser whose output is itself a parser
pub struct Outer(pub Stub);
impl Parser<In, u8> for Outer {
    type Output = Stub;
    type Error = E;
    fn parse(&mut self, input: &mut In) -> Result<Stub, E> {
        self.0.run(input).map(|v| Stub { id: 2, backtracking: v % 2 == 0, ctx: 0 })
    }
    fn set_context(&mut self, ctx: &u8) {
        self.0.ctx = *ctx;
    }
}

//# harness flatten_contract tier=quick label=complete props=C20 fn=rusty_pc/src/flatten.rs::FlattenParser::parse
harness!(flatten_contract, 2, {
    let mut input = In::any();
    let p0 = input.pos;
    let mut p = Outer(Stub::any_bt(1)).flatten::<u8>();
    let r = p.parse(&mut input);
    common(&input, p0, &r);
    let o = input.log[0];
    assert!(o.who == 1 && o.start == p0);
    if o.out != OK {
        assert!(input.n == 1 && r == Err(E { fatal: o.out == FATAL, tag: o.val }));
    } else {
        let i = input.log[1];
        assert!(input.n == 2 && i.who == 2 && i.start == o.end, "the produced parser runs where the outer one ended");
        match i.out {
            OK => assert!(r == Ok(i.val) && input.pos == i.end),
            _ => assert!(r == Err(E { fatal: i.out == FATAL, tag: i.val })),
        }
    }
    reach!(r.is_ok());
});

//# harness context_plumbing tier=quick label=complete props=C20 fn=rusty_pc/src/no_context.rs::NoContextParser,rusty_pc/src/map_ctx.rs::MapCtxParser,rusty_pc/src/boxed.rs::BoxedParser
harness!(context_plumbing, 2, {
    let mut input = In::any();
    let p0 = input.pos;
    let which = vs::choice(3);
    let ctx = vs::u8();
    vs::assume(ctx != 0 && ctx < 100);
    let r = match which {
        0 => {
            let mut p = Stub::any_bt(1).no_context::<u16>();
            p.set_context(&(ctx as u16));
            p.parse(&mut input)
        }
        1 => {
            let mut p = Stub::any_bt(1).map_ctx(|c: &u16| (*c as u8) + 1);
            p.set_context(&(ctx as u16));
            p.parse(&mut input)
        }
        _ => {
            let mut p = Stub::any_bt(1).boxed();
            p.set_context(&ctx);
            p.parse(&mut input)
        }
    };
    common(&input, p0, &r);
    let c = input.log[0];
    assert!(input.n == 1 && c.start == p0);
    // result and position are exactly the wrapped parser's
    match c.out {
        OK => assert!(r == Ok(c.val) && input.pos == c.end),
        _ => assert!(r == Err(E { fatal: c.out == FATAL, tag: c.val }) && input.pos == c.end),
    }
    match which {
        0 => assert!(c.ctx == 0, "no_context stops the context"),
        1 => assert!(c.ctx == ctx + 1, "map_ctx projects the context"),
        _ => assert!(c.ctx == ctx, "boxed forwards the context"),
    }
    reach!(which == 1 && r.is_ok());
});

//# harness lazy_contract tier=quick label=complete props=C20 fn=rusty_pc/src/lazy.rs::LazyParser
harness!(lazy_contract, 2, {
    let mut input = In::any();
    let p0 = input.pos;
    let made = std::cell::Cell::new(0u8);
    let bt = vs::bool();
    let mut p = lazy(|| {
        made.set(made.get() + 1);
        stub(1, bt)
    });
    let r1 = p.parse(&mut input);
    common(&input, p0, &r1);
    let c = input.log[0];
    assert!(input.n == 1 && c.start == p0);
    match c.out {
        OK => assert!(r1 == Ok(c.val) && input.pos == c.end),
        _ => assert!(r1 == Err(E { fatal: c.out == FATAL, tag: c.val })),
    }
    if c.out != FATAL {
        let p1 = input.pos;
        let r2 = p.parse(&mut input);
        assert!(input.n == 2 && input.log[1].start == p1);
        assert!(made.get() == 1, "the factory runs once");
    }
    reach!(made.get() == 1 && input.n == 2);
});

//# harness iif_ctx_contract tier=quick label=complete props=C20 fn=rusty_pc/src/iif_ctx.rs::IifCtxParser::parse
harness!(iif_ctx_contract, 2, {
    let mut input = In::any();
    let p0 = input.pos;
    let flag = vs::bool();
    let mut p = IifCtxParser::new::<In>(Stub0(Stub::any_bt(1)), Stub0(Stub::any_bt(2)));
    p.set_context(&flag);
    let r = p.parse(&mut input);
    common(&input, p0, &r);
    let c = input.log[0];
    assert!(input.n == 1 && c.start == p0);
    assert!(c.who == if flag { 1 } else { 2 }, "true selects the left parser, false the right one");
    match c.out {
        OK => assert!(r == Ok(c.val) && input.pos == c.end),
        _ => assert!(r == Err(E { fatal: c.out == FATAL, tag: c.val })),
    }
    reach!(!flag && r.is_ok());
});

//# harness suppliers_contract tier=quick label=complete props=C20 fn=rusty_pc/src/supplier.rs::SupplierParser,rusty_pc/src/ctx.rs::CtxParser
harness!(suppliers_contract, 2, {
    let mut input = In::any();
    let p0 = input.pos;
    let v = vs::u8();
    let fatal = vs::bool();
    let r: Result<u8, E> = Parser::<In, u8>::parse(&mut supplier(|| v), &mut input);
    assert!(r == Ok(v) && input.pos == p0, "supplier succeeds without consuming");
    let r: Result<u8, E> = Parser::<In, u8>::parse(&mut err_supplier(|| E { fatal, tag: v }), &mut input);
    assert!(r == Err(E { fatal, tag: v }) && input.pos == p0, "err_supplier fails without consuming");
    let mut cp = ctx_parser::<In, u8, E>();
    cp.set_context(&v);
    let r = cp.parse(&mut input);
    assert!(r == Ok(v) && input.pos == p0, "ctx_parser yields the stored context without consuming");
    assert!(input.n == 0 && input.reads == 0);
    reach!(fatal);
});

// ---------------------------------------------------------------------------------------------
// primitives that read the input directly
// ---------------------------------------------------------------------------------------------
//# harness read_prims tier=quick label=complete props=C20,C07 fn=rusty_pc/src/top_level.rs::ReadParser::parse,rusty_pc/src/top_level.rs::PeekParser::parse,rusty_pc/src/top_level.rs::one_p,rusty_pc/src/top_level.rs::one_of_p
harness!(read_prims, 4, {
    // `In::read`/`In::peek` assert !eof: a primitive that reads at end of input fails here
    let mut input = In::any();
    let p0 = input.pos;
    let at_end = p0 >= input.len;
    let cur = (p0 % 251) as u8;
    let which = vs::choice(4);
    let needle = vs::u8();
    let r: Result<u8, E> = match which {
        0 => read_p().parse(&mut input),
        1 => peek_p().parse(&mut input),
        2 => one_p(needle).parse(&mut input),
        _ => {
            let needles = [needle, 3u8];
            let mut p = one_of_p(&needles);
            p.parse(&mut input)
        }
    };
    assert!(!is_fatal(&r));
    if at_end {
        assert!(r == Err(E::default()) && input.pos == p0, "soft default error at end of input, nothing consumed");
    } else {
        match which {
            0 => assert!(r == Ok(cur) && input.pos == p0 + 1),
            1 => assert!(r == Ok(cur) && input.pos == p0, "peek_p does not consume"),
            2 => {
                if cur == needle {
                    assert!(r == Ok(cur) && input.pos == p0 + 1);
                } else {
                    assert!(r == Err(E::default()) && input.pos == p0, "mismatch: soft error, nothing consumed");
                }
            }
            _ => {
                if cur == needle || cur == 3 {
                    assert!(r == Ok(cur) && input.pos == p0 + 1);
                } else {
                    assert!(r == Err(E::default()) && input.pos == p0);
                }
            }
        }
    }
    reach!(at_end);
    reach!(which == 2 && r.is_ok());
    reach!(which == 3 && is_soft(&r) && !at_end);
});

// ---------------------------------------------------------------------------------------------
// bounded companions of the Verus units for the loops (counterexample search / cross-check)
// ---------------------------------------------------------------------------------------------
//# harness many_bounded tier=quick label=bounded(iterations<=4) props=C20 fn=rusty_pc/src/many.rs::ManyParser::parse
harness!(many_bounded, 10, {
    let mut input = In::any();
    input.cap = 5;
    let p0 = input.pos;
    let allow_none = vs::bool();
    let mut p = if allow_none { Stub::new(1).zero_or_more() } else { Stub::new(1).one_or_more() };
    // bound: the element parser is called at most 5 times
    let r = p.parse(&mut input);
    common(&input, p0, &r);
    // every call starts where the previous one ended; all but the last succeeded
    let mut k = 0;
    while k < 5 {
        if k < input.n {
            let c = input.log[k];
            assert!(c.start == if k == 0 { p0 } else { input.log[k - 1].end });
            if k + 1 < input.n {
                assert!(c.out == OK, "repetition continues only after a success");
            }
        }
        k += 1;
    }
    let last = input.log[input.n - 1];
    assert!(last.out != OK, "repetition stops only at a failure: the run of successes is maximal");
    if last.out == FATAL {
        assert!(r == Err(E { fatal: true, tag: last.val }));
    } else if input.n == 1 {
        if allow_none {
            assert!(r == Ok(Vec::new()) && input.pos == p0);
        } else {
            assert!(r == Err(E { fatal: false, tag: last.val }) && input.pos == p0, "soft failure under repetition leaves the input where it started");
        }
    } else {
        match &r {
            Ok(v) => {
                assert!(v.len() == input.n - 1, "exactly the successes are returned");
                let mut j = 0;
                while j < 4 {
                    if j < v.len() {
                        assert!(v[j] == input.log[j].val);
                    }
                    j += 1;
                }
                assert!(input.pos == last.end);
            }
            Err(_) => assert!(false, "a soft failure after at least one success ends the run successfully"),
        }
    }
    reach!(r.is_ok() && input.n == 3);
    reach!(is_soft(&r));
    std::mem::forget(r);
});

//# harness delimited_bounded tier=quick label=bounded(calls<=6) props=C20 fn=rusty_pc/src/delimited.rs::DelimitedParser::parse
harness!(delimited_bounded, 10, {
    let mut input = In::any();
    input.cap = 6;
    let p0 = input.pos;
    let trailing = E { fatal: true, tag: 99 };
    let mut p = Stub::new(1).delimited_by(Stub::new(2), trailing);
    let r = p.parse(&mut input);
    common(&input, p0, &r);
    // calls alternate element, delimiter, element, ...
    let mut k = 0;
    let mut elems = 0usize;
    while k < 6 {
        if k < input.n {
            let c = input.log[k];
            assert!(c.who == if k % 2 == 0 { 1 } else { 2 }, "element and delimiter alternate");
            if c.who == 1 && c.out == OK {
                elems += 1;
            }
        }
        k += 1;
    }
    let last = input.log[input.n - 1];
    if last.out == FATAL {
        assert!(r == Err(E { fatal: true, tag: last.val }));
    } else {
        // find what was parsed last successfully
        let mut last_ok_who = 0u8;
        let mut j = 0;
        while j < 6 {
            if j < input.n && input.log[j].out == OK {
                last_ok_who = input.log[j].who;
            }
            j += 1;
        }
        match last_ok_who {
            0 => assert!(r == Err(E::default()), "nothing parsed: soft failure"),
            1 => match &r {
                Ok(v) => assert!(v.len() == elems, "one entry per element"),
                Err(_) => assert!(false, "a list ending in an element is accepted"),
            },
            _ => assert!(r == Err(trailing), "a trailing delimiter is rejected fatally"),
        }
        if last_ok_who == 0 {
            assert!(input.pos == p0);
        }
    }
    reach!(r.is_ok() && elems == 2);
    reach!(r == Err(trailing));
    std::mem::forget(r);
});

//# harness many_ctx_bounded tier=quick label=bounded(iterations<=4) props=C20 fn=rusty_pc/src/many_ctx.rs::ManyCtxParser::parse
harness!(many_ctx_bounded, 10, {
    // repetition in which every element is parsed in the context of the previous one
    let mut input = In::any();
    input.cap = 5;
    let p0 = input.pos;
    let allow_none = vs::bool();
    let mut p = rusty_pc::many_ctx::ManyCtxParser::new::<In>(Stub::new(1), rusty_pc::many::VecManyCombiner, |v: &u8| v.wrapping_add(1), allow_none);
    let r: Result<Vec<u8>, E> = Parser::<In, u16>::parse(&mut p, &mut input);
    common(&input, p0, &r);
    let mut k = 0;
    while k < 5 {
        if k < input.n {
            let c = input.log[k];
            assert!(c.start == if k == 0 { p0 } else { input.log[k - 1].end });
            if k == 0 {
                assert!(c.ctx == 0, "the first element is parsed in the default context");
            } else {
                assert!(c.ctx == input.log[k - 1].val.wrapping_add(1), "each element is parsed in the context projected from the previous element");
            }
            if k + 1 < input.n {
                assert!(c.out == OK, "repetition continues only after a success");
            }
        }
        k += 1;
    }
    let last = input.log[input.n - 1];
    assert!(last.out != OK, "repetition stops only at a failure: the run of successes is maximal");
    if last.out == FATAL {
        assert!(r == Err(E { fatal: true, tag: last.val }));
    } else if input.n == 1 {
        if allow_none {
            assert!(r == Ok(Vec::new()) && input.pos == p0);
        } else {
            assert!(r == Err(E { fatal: false, tag: last.val }) && input.pos == p0);
        }
    } else {
        match &r {
            Ok(v) => {
                assert!(v.len() == input.n - 1, "exactly the successes are returned");
                let mut j = 0;
                while j < 4 {
                    if j < v.len() {
                        assert!(v[j] == input.log[j].val);
                    }
                    j += 1;
                }
                assert!(input.pos == last.end);
            }
            Err(_) => assert!(false, "a soft failure after at least one success ends the run successfully"),
        }
    }
    reach!(r.is_ok() && input.n == 3);
    std::mem::forget(r);
});
