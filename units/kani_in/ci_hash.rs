//# unit ci_hash kind=kani_in crate=rusty_common inject=rusty_common/src/case_insensitive_string.rs
// C09 / C13 — the Hash/Eq pair every name table relies on.  Contract: `CaseInsensitiveString::hash` feeds the
// hasher exactly the ASCII-upper-folded bytes of the string (so strings equal up to letter case hash alike
// with ANY hasher), and `eq` holds exactly when the folded byte sequences are equal.  Together with the
// unbounded Verus proof of `cmp_bytes` (unit ci_cmp) this is the HashMap key law `a == b ==> hash(a) == hash(b)`.
// String construction makes this a bounded stand-in: ASCII strings of length <= 3.
//# assume "strings are ASCII, length <= 3 (bounded stand-in for hash_str; cmp_bytes itself is proved for all byte strings by Verus unit ci_cmp)"

/// a hasher that records what it is fed
struct Rec {
    buf: [u8; 8],
    n: usize,
}
impl Hasher for Rec {
    fn finish(&self) -> u64 {
        0
    }
    fn write(&mut self, bytes: &[u8]) {
        let mut i = 0;
        while i < bytes.len() {
            assert!(self.n < 8);
            self.buf[self.n] = bytes[i];
            self.n += 1;
            i += 1;
        }
    }
}

fn up(b: u8) -> u8 {
    if b >= b'a' && b <= b'z' { b - 32 } else { b }
}

fn any_ascii_string(len: usize, bytes: &[u8; 3]) -> String {
    let mut s = String::new();
    let mut i = 0;
    while i < 3 {
        if i < len {
            s.push(bytes[i] as char);
        }
        i += 1;
    }
    s
}

//# harness hash_feeds_folded_bytes tier=quick label=bounded(len<=3,ascii) props=C09 fn=rusty_common/src/case_insensitive_utils.rs::hash_str
harness!(hash_feeds_folded_bytes, 5, {
    let len = vs::choice(4) as usize;
    let b = [vs::u8(), vs::u8(), vs::u8()];
    vs::assume(b[0] < 128 && b[1] < 128 && b[2] < 128);
    let s = CaseInsensitiveString::new(any_ascii_string(len, &b));
    let mut h = Rec { buf: [0; 8], n: 0 };
    s.hash(&mut h);
    assert!(h.n == len, "one byte is hashed per byte of the name");
    let mut i = 0;
    while i < 3 {
        if i < len {
            assert!(h.buf[i] == up(b[i]), "the hashed byte is the upper-case fold of the name's byte");
        }
        i += 1;
    }
    reach!(len == 3 && b[0] == b'q');
    std::mem::forget(s);
});

//# harness eq_iff_folded_equal tier=quick label=bounded(len<=3,ascii) props=C09 fn=rusty_common/src/case_insensitive_string.rs::PartialEq::eq
harness!(eq_iff_folded_equal, 5, {
    let (la, lb) = (vs::choice(4) as usize, vs::choice(4) as usize);
    let a = [vs::u8(), vs::u8(), vs::u8()];
    let b = [vs::u8(), vs::u8(), vs::u8()];
    vs::assume(a[0] < 128 && a[1] < 128 && a[2] < 128 && b[0] < 128 && b[1] < 128 && b[2] < 128);
    let x = CaseInsensitiveString::new(any_ascii_string(la, &a));
    let y = CaseInsensitiveString::new(any_ascii_string(lb, &b));
    let mut same = la == lb;
    let mut i = 0;
    while i < 3 {
        if i < la && i < lb && up(a[i]) != up(b[i]) {
            same = false;
        }
        i += 1;
    }
    assert!((x == y) == same, "names are equal exactly when they differ at most in letter case");
    reach!(same && la == 2 && a[0] != b[0]);
    reach!(!same && la == lb);
    std::mem::forget(x);
    std::mem::forget(y);
});
