HEAD = r'''//# unit type_table kind=kani_in crate=rusty_linter inject=rusty_linter/src/core/casting.rs
//# assume "the VM executes a binary operator as in rusty_basic/src/interpreter/handlers/{math,comparison,logical}.rs: + - * MOD call the Variant method on (A, B); / calls rusty_linter::core::qb_divide on (A, B) (the real function, run here as it is); relational operators call A.try_cmp(&B) and store -1/0; AND/OR cast A and B to INTEGER (CastVariant::cast) and then call Variant::and/or.  `vm_binary` below restates that glue (3 lines per handler); the Variant methods, `qb_divide`, `cast`, `cast_binary_op_q`, `bigger_numeric_type` and `can_cast_to` themselves are the real code."
//! C12 / C06 — the operator typing table of the checker against the run-time operators.  Contract (property
//! statement): if the checker accepts an operator application, executing it can never raise Type mismatch nor
//! apply the operator to an operand of the wrong kind; conversely the table rejects nothing that would run:
//!   cast_binary_op_q(l, r, op) == Some(t)  =>  op on ANY valid values of kinds (l, r) is not TypeMismatch, and
//!                                               Ok(v) carries tag t  ("tag preservation": what makes emitting a
//!                                               Cast only when the static types differ safe, C06);
//!   cast_binary_op_q(l, r, op) == None     =>  the VM operator does return TypeMismatch;
//!   q1.can_cast_to(q2)  <=>  cast(v: q1, q2) != TypeMismatch;   unary minus / NOT: numeric kinds keep their tag,
//!   strings are TypeMismatch.
//! The table itself is also compared with the reference rule (+ - *: the wider numeric type, `$ + $ = $`;
//! `/`: floating-point division, SINGLE when both operands are INTEGER or SINGLE, DOUBLE when either is LONG or DOUBLE;
//! relational: INTEGER when both numeric or both strings; AND/OR/MOD: INTEGER when both numeric).
//! All 13 operators x 5 x 5 qualifiers, payloads fully symbolic and valid; strings with length <= 1.
//! Known findings: F5 (`/` re-tagged its result: 7 / 2 was SINGLE 3.5 where the table said INTEGER; repaired: the
//!                 table types `/` as above and the VM/folder divide through `qb_divide`, which converts both operands
//!                 and the quotient to that type),
//!                 F18 (MOD gives TypeMismatch when an operand rounds beyond the LONG range).

use rusty_variant::{Variant, VariantError};

use crate::core::CastVariant;
use rusty_parser::TypeQualifier as Q;

fn rank(q: Q) -> Option<u8> {
    match q {
        Q::PercentInteger => Some(0),
        Q::AmpersandLong => Some(1),
        Q::BangSingle => Some(2),
        Q::HashDouble => Some(3),
        Q::DollarString => None,
    }
}
/// reference: the wider of two numeric types
fn wider(l: Q, r: Q) -> Option<Q> {
    match (rank(l), rank(r)) {
        (Some(a), Some(b)) => Some(if a >= b { l } else { r }),
        _ => None,
    }
}
/// reference typing rule of a binary operator
fn reference(l: Q, r: Q, op: Operator) -> Option<Q> {
    let both_numeric = rank(l).is_some() && rank(r).is_some();
    let both_strings = l == Q::DollarString && r == Q::DollarString;
    match op {
        Operator::Plus => if both_strings { Some(Q::DollarString) } else { wider(l, r) },
        Operator::Minus | Operator::Multiply => wider(l, r),
        Operator::Divide => {
            // floating-point division: SINGLE when both operands are INTEGER or SINGLE, DOUBLE when either is LONG or DOUBLE
            let long_or_double = |q: Q| q == Q::AmpersandLong || q == Q::HashDouble;
            if !both_numeric { None } else if long_or_double(l) || long_or_double(r) { Some(Q::HashDouble) } else { Some(Q::BangSingle) }
        }
        Operator::Less | Operator::LessOrEqual | Operator::Equal | Operator::GreaterOrEqual | Operator::Greater | Operator::NotEqual => {
            if both_numeric || both_strings { Some(Q::PercentInteger) } else { None }
        }
        Operator::And | Operator::Or | Operator::Modulo => if both_numeric { Some(Q::PercentInteger) } else { None },
    }
}
fn any_q() -> Q {
    match vs::choice(5) {
        0 => Q::BangSingle,
        1 => Q::HashDouble,
        2 => Q::DollarString,
        3 => Q::PercentInteger,
        _ => Q::AmpersandLong,
    }
}
fn op_of(k: u8) -> Operator {
    match k {
        0 => Operator::Less,
        1 => Operator::LessOrEqual,
        2 => Operator::Equal,
        3 => Operator::GreaterOrEqual,
        4 => Operator::Greater,
        5 => Operator::NotEqual,
        6 => Operator::Plus,
        7 => Operator::Minus,
        8 => Operator::Multiply,
        9 => Operator::Divide,
        10 => Operator::Modulo,
        11 => Operator::And,
        _ => Operator::Or,
    }
}
fn tag(v: &Variant) -> Option<Q> {
    match v {
        Variant::VSingle(_) => Some(Q::BangSingle),
        Variant::VDouble(_) => Some(Q::HashDouble),
        Variant::VString(_) => Some(Q::DollarString),
        Variant::VInteger(_) => Some(Q::PercentInteger),
        Variant::VLong(_) => Some(Q::AmpersandLong),
        _ => None,
    }
}
fn valid(v: &Variant) -> bool {
    match v {
        Variant::VInteger(i) => (-32768..=32767).contains(i),
        Variant::VLong(l) => (-2147483648..=2147483647).contains(l),
        Variant::VSingle(f) => f.is_finite(),
        Variant::VDouble(d) => d.is_finite(),
        _ => true,
    }
}

/// outcome of a VM step: Ok(tag of the value left in A), type mismatch, or another run-time error
#[derive(Clone, Copy, PartialEq, Eq)]
enum Out {
    Tag(Option<Q>),
    Mismatch,
    OtherError,
}
fn out_v(r: Result<Variant, VariantError>) -> Out {
    let o = match &r {
        Ok(v) => Out::Tag(tag(v)),
        Err(VariantError::TypeMismatch) => Out::Mismatch,
        Err(_) => Out::OtherError,
    };
    std::mem::forget(r);
    o
}
fn out_l(r: Result<Variant, LintError>) -> Out {
    let o = match &r {
        Ok(v) => Out::Tag(tag(v)),
        Err(LintError::TypeMismatch) => Out::Mismatch,
        Err(_) => Out::OtherError,
    };
    std::mem::forget(r);
    o
}
/// the handlers' glue (see the `assume` line of this unit)
fn vm_binary(op: Operator, a: Variant, b: Variant) -> Out {
    match op {
        Operator::Plus => out_v(a.plus(b)),
        Operator::Minus => out_v(a.minus(b)),
        Operator::Multiply => out_v(a.multiply(b)),
        Operator::Divide => out_l(qb_divide(a, b)),
        Operator::Modulo => out_v(a.modulo(b)),
        Operator::And | Operator::Or => {
            let ca = a.cast(Q::PercentInteger);
            let cb = b.cast(Q::PercentInteger);
            match (ca, cb) {
                (Ok(x), Ok(y)) => {
                    // `cast(%)` yields an INTEGER; hand AND/OR fresh INTEGER values with the same payload (keeps CBMC
                    // from exploring the drop glue of a `Variant` whose tag it read through a `Result`)
                    let xi = match &x { Variant::VInteger(i) => Some(*i), _ => None };
                    let yi = match &y { Variant::VInteger(i) => Some(*i), _ => None };
                    std::mem::forget(x);
                    std::mem::forget(y);
                    match (xi, yi) {
                        (Some(i), Some(j)) => out_v(if op == Operator::And { Variant::VInteger(i).and(Variant::VInteger(j)) } else { Variant::VInteger(i).or(Variant::VInteger(j)) }),
                        _ => {
                            assert!(false, "cast to INTEGER must yield an INTEGER");
                            Out::OtherError
                        }
                    }
                }
                (Err(e), other) => { std::mem::forget(other); out_l(Err(e)) }
                (Ok(x), Err(e)) => { std::mem::forget(x); out_l(Err(e)) }
            }
        }
        _ => {
            let r = a.try_cmp(&b);
            let o = match &r {
                Ok(ord) => {
                    let v: Variant = (*ord == std::cmp::Ordering::Less).into(); // -1 / 0 as the handlers store it
                    Out::Tag(tag(&v))
                }
                Err(VariantError::TypeMismatch) => Out::Mismatch,
                Err(_) => Out::OtherError,
            };
            std::mem::forget(a);
            std::mem::forget(b);
            o
        }
    }
}
/// the obligation for one operator application
fn check(l: Q, r: Q, op: Operator, out: Out, skip_tag: bool) {
    match cast_binary_op_q(l, r, op) {
        Some(t) => {
            assert!(out != Out::Mismatch, "accepted by the checker but Type mismatch at run time");
            if let Out::Tag(g) = out {
                if !skip_tag {
                    assert!(g == Some(t), "tag preservation: the run-time value does not have the static result type");
                }
            }
        }
        None => assert!(out == Out::Mismatch, "rejected by the checker although the VM operator accepts these kinds"),
    }
}

// ---------------------------------------------------------------------------------------------
// the table against the reference rule
// ---------------------------------------------------------------------------------------------
//# harness table_matches_reference tier=quick label=complete props=C12 fn=rusty_linter/src/core/casting.rs::cast_binary_op_q
harness!(table_matches_reference, 2, {
    let l = any_q();
    let r = any_q();
    let op = op_of(vs::choice(13));
    assert!(cast_binary_op_q(l, r, op) == reference(l, r, op), "operator typing table differs from the reference rule");
    assert!(bigger_numeric_type(l, r) == wider(l, r), "bigger_numeric_type is not the wider numeric type");
    assert!(bigger_numeric_type(l, r) == bigger_numeric_type(r, l), "bigger_numeric_type is not symmetric");
    reach!(cast_binary_op_q(l, r, op).is_none());
    reach!(cast_binary_op_q(l, r, op) == Some(Q::DollarString));
    reach!(cast_binary_op_q(l, r, op) == Some(Q::HashDouble));
});

//# harness can_cast_to_reference tier=quick label=complete props=C12 fn=rusty_linter/src/core/can_cast_to.rs::CanCastTo<TypeQualifier>::can_cast_to
harness!(can_cast_to_reference, 2, {
    let l = any_q();
    let r = any_q();
    assert!(l.can_cast_to(&r) == ((l == Q::DollarString) == (r == Q::DollarString)), "assignability: numeric <-> numeric, string <-> string only");
    reach!(l.can_cast_to(&r));
    reach!(!l.can_cast_to(&r));
});
'''

K = {
    'integer': dict(decl='let {n} = vs::i32();\n    vs::assume({n} >= -32768 && {n} <= 32767);', ctor='Variant::VInteger({n})', q='Q::PercentInteger', fl=False),
    'long': dict(decl='let {n} = vs::i64();\n    vs::assume({n} >= -2147483648 && {n} <= 2147483647);', ctor='Variant::VLong({n})', q='Q::AmpersandLong', fl=False),
    'single': dict(decl='let {n} = vs::f32();\n    vs::assume({n}.is_finite());', ctor='Variant::VSingle({n})', q='Q::BangSingle', fl=True),
    'double': dict(decl='let {n} = vs::f64();\n    vs::assume({n}.is_finite());', ctor='Variant::VDouble({n})', q='Q::HashDouble', fl=True),
}
ORDER = ['integer', 'long', 'single', 'double']
out = [HEAD]
FN = 'rusty_linter/src/core/casting.rs::cast_binary_op_q'
out.append('\n// ---------------------------------------------------------------------------------------------\n// numeric x numeric: all 13 operators\n')
for k1 in ORDER:
    for k2 in ORDER:
        decl = '    ' + K[k1]['decl'].format(n='a') + '\n    ' + K[k2]['decl'].format(n='b') + '\n'
        f18 = []
        if K[k1]['fl']:
            f18.append('(a as f64).abs() < 2147483647.5')
        if K[k2]['fl']:
            f18.append('(b as f64).abs() < 2147483647.5')
        carve = ''
        if f18:
            carve = '    if KF_F18 && op == Operator::Modulo {\n        vs::assume(%s);\n    }\n' % ' && '.join(f18)
        OPS = ['Less', 'LessOrEqual', 'Equal', 'GreaterOrEqual', 'Greater', 'NotEqual', 'Plus', 'Minus', 'Multiply', 'Divide', 'Modulo']
        body = decl
        for o in OPS:
            if o == 'Divide' and K[k1]['fl'] and K[k2]['fl']:
                # finding F26 (open): |divisor| >= 1e-5 whenever a division happens, so with this bound the quotient stays
                # finite (Kani would otherwise flag the NaN that `fit_to_type` computed internally from an infinite quotient)
                body += '    if KF_F26 {\n        vs::assume((a as f64).abs() <= %s);\n    }\n' % ('1.0e303' if 'double' in (k1, k2) else '3.0e33')
            if o == 'Modulo':
                body += carve.replace(' && op == Operator::Modulo', '')  # last operator: the carve-out restricts nothing before it
            body += ('    let out = vm_binary(Operator::%s, %s, %s);\n' % (o, K[k1]['ctor'].format(n='a'), K[k2]['ctor'].format(n='b')) +
                     '    check(%s, %s, Operator::%s, out, %s);\n' % (K[k1]['q'], K[k2]['q'], o, 'KF_F5' if o == 'Divide' else 'false') +
                     '    assert!(cast_binary_op_q(%s, %s, Operator::%s).is_some(), "numeric operands are accepted for every operator");\n' % (K[k1]['q'], K[k2]['q'], o))
            if o in ('Less', 'Divide'):
                body += '    reach!(matches!(out, Out::Tag(_)));\n'
            if o == 'Modulo':
                body += '    reach!(out == Out::OtherError);\n'
        out.append('\n//# harness binary_%s_%s tier=quick tier.C06=thorough label=complete props=C12,C06 fn=%s timeout=600\nharness!(binary_%s_%s, 1, {\n%s});\n' % (k1, k2, FN, k1, k2, body))
        body = decl
        for o in ('And', 'Or'):
            body += ('    let out = vm_binary(Operator::%s, %s, %s);\n' % (o, K[k1]['ctor'].format(n='a'), K[k2]['ctor'].format(n='b')) +
                     '    check(%s, %s, Operator::%s, out, false);\n' % (K[k1]['q'], K[k2]['q'], o) +
                     '    assert!(cast_binary_op_q(%s, %s, Operator::%s).is_some(), "numeric operands are accepted for every operator");\n' % (K[k1]['q'], K[k2]['q'], o) +
                     '    reach!(matches!(out, Out::Tag(_)));\n')
        out.append('\n//# harness logical_%s_%s tier=quick tier.C06=thorough label=complete props=C12,C06 fn=%s timeout=600\nharness!(logical_%s_%s, 18, {\n%s});\n' % (k1, k2, FN, k1, k2, body))
        # F5
        fbody = (decl + '    let out = vm_binary(Operator::Divide, %s, %s);\n' % (K[k1]['ctor'].format(n='a'), K[k2]['ctor'].format(n='b')) +
                 '    check(%s, %s, Operator::Divide, out, false);\n' % (K[k1]['q'], K[k2]['q']))
        out.append('\n//# harness finding_f5_divide_%s_%s tier=quick label=complete props=C06,C12 fn=%s expect=finding:F5\nharness!(finding_f5_divide_%s_%s, 1, {\n%s});\n' % (k1, k2, FN, k1, k2, fbody))
for k1, k2 in (('double', 'integer'), ('integer', 'single')):
    decl = '    ' + K[k1]['decl'].format(n='a') + '\n    ' + K[k2]['decl'].format(n='b') + '\n'
    n = 'a' if K[k1]['fl'] else 'b'
    fbody = (decl + '    vs::assume((%s as f64).abs() >= 2147483647.5);\n' % n +
             '    let out = vm_binary(Operator::Modulo, %s, %s);\n' % (K[k1]['ctor'].format(n='a'), K[k2]['ctor'].format(n='b')) +
             '    check(%s, %s, Operator::Modulo, out, false);\n' % (K[k1]['q'], K[k2]['q']))
    out.append('\n//# harness finding_f18_modulo_%s_%s tier=quick label=complete props=C12 fn=%s expect=finding:F18\nharness!(finding_f18_modulo_%s_%s, 1, {\n%s});\n' % (k1, k2, FN, k1, k2, fbody))

out.append('''
// ---------------------------------------------------------------------------------------------
// strings (payload length <= 1; the outcome does not depend on the content).  Unwind bound 2: no loop of the
// operators themselves iterates for these operands, and the recursive drop glue of `Variant` is not entered
// (unwinding assertions on).
// ---------------------------------------------------------------------------------------------
fn s0() -> Variant {
    Variant::VString(String::new())
}
fn s1() -> Variant {
    Variant::VString(String::from("a"))
}
''')
out.append('''
// NOT decided here (tool limit): + - * MOD AND OR with a string operand at run time.  Those `Variant` methods take
// their operands by value and drop the string inside; CBMC then explores the recursive drop glue of `Variant`
// (arrays, HashMap of record fields) and needs > 30 GB.  The static side of these rows is covered by
// `table_matches_reference`; the run-time side is covered for the by-reference comparison and for `/`.

//# harness relational_string_numeric tier=thorough label=bounded(len<=1) props=C12 fn=%(FN)s timeout=900 attempt=1
harness!(relational_string_numeric, 2, {
    let op = op_of(vs::choice(6)); // the six relational operators
    let s = if vs::bool() { s0() } else { s1() };
    let k = vs::choice(4);
    let (n, q) = match k {
        0 => (Variant::VInteger(vs::i32()), Q::PercentInteger),
        1 => (Variant::VLong(vs::i64()), Q::AmpersandLong),
        2 => (Variant::VSingle(vs::f32()), Q::BangSingle),
        _ => (Variant::VDouble(vs::f64()), Q::HashDouble),
    };
    let string_left = vs::bool();
    if string_left {
        let out = vm_binary(op, s, n);
        check(Q::DollarString, q, op, out, false);
        assert!(out == Out::Mismatch, "a string never compares with a number");
    } else {
        let out = vm_binary(op, n, s);
        check(q, Q::DollarString, op, out, false);
        assert!(out == Out::Mismatch, "a number never compares with a string");
    }
    reach!(string_left && k == 3);
    reach!(!string_left && k == 0);
});

//# harness relational_string_string tier=thorough label=bounded(len<=1) props=C12,C06 fn=%(FN)s timeout=900 attempt=1
harness!(relational_string_string, 2, {
    let op = op_of(vs::choice(6));
    let a = if vs::bool() { s0() } else { s1() };
    let b = if vs::bool() { s0() } else { s1() };
    let out = vm_binary(op, a, b);
    check(Q::DollarString, Q::DollarString, op, out, false);
    assert!(out == Out::Tag(Some(Q::PercentInteger)), "comparing two strings yields an INTEGER truth value");
    reach!(op == Operator::NotEqual);
});

//# harness divide_string_operand tier=thorough label=bounded(len<=1) props=C12 fn=%(FN)s timeout=900 attempt=1
harness!(divide_string_operand, 2, {
    let o1 = vm_binary(Operator::Divide, s1(), Variant::VInteger(vs::i32()));
    check(Q::DollarString, Q::PercentInteger, Operator::Divide, o1, false);
    let o2 = vm_binary(Operator::Divide, Variant::VDouble(vs::f64()), s0());
    check(Q::HashDouble, Q::DollarString, Operator::Divide, o2, false);
    let o3 = vm_binary(Operator::Divide, s0(), Variant::VSingle(vs::f32()));
    check(Q::DollarString, Q::BangSingle, Operator::Divide, o3, false);
    let o4 = vm_binary(Operator::Divide, Variant::VLong(vs::i64()), s1());
    check(Q::AmpersandLong, Q::DollarString, Operator::Divide, o4, false);
    assert!(o1 == Out::Mismatch && o2 == Out::Mismatch && o3 == Out::Mismatch && o4 == Out::Mismatch, "a string cannot be divided");
});

''' % dict(FN=FN))
out.append('''
// ---------------------------------------------------------------------------------------------
// assignability: q1.can_cast_to(q2) <=> cast(v: q1, q2) is not TypeMismatch (and the result carries tag q2)
// ---------------------------------------------------------------------------------------------
''' % dict(FN=FN))
CFN = 'rusty_linter/src/core/can_cast_to.rs::CanCastTo<TypeQualifier>::can_cast_to'
for k in ORDER:
    decl = '    ' + K[k]['decl'].format(n='a') + '\n'
    body = (decl + '    let q2 = any_q();\n    let out = out_l(%s.cast(q2));\n' % K[k]['ctor'].format(n='a') +
            '    assert!(%s.can_cast_to(&q2) == (out != Out::Mismatch), "can_cast_to disagrees with the run-time conversion");\n' % K[k]['q'] +
            '    if let Out::Tag(g) = out {\n        assert!(g == Some(q2), "a converted value carries the target type");\n    }\n' +
            '    reach!(out == Out::Mismatch);\n    reach!(matches!(out, Out::Tag(_)));\n')
    out.append('\n//# harness castable_%s tier=quick label=complete props=C12,C06 fn=%s\nharness!(castable_%s, 2, {\n%s});\n' % (k, CFN, k, body))
out.append('''
//# harness castable_string tier=thorough label=bounded(len<=1) props=C12 fn=%(CFN)s timeout=900 attempt=1
harness!(castable_string, 2, {
    let q2 = any_q();
    let s = if vs::bool() { s0() } else { s1() };
    let out = out_l(s.cast(q2));
    assert!(Q::DollarString.can_cast_to(&q2) == (out != Out::Mismatch), "can_cast_to disagrees with the run-time conversion");
    if let Out::Tag(g) = out {
        assert!(g == Some(Q::DollarString) && q2 == Q::DollarString, "only string -> string succeeds");
    }
    reach!(out == Out::Mismatch);
    reach!(matches!(out, Out::Tag(_)));
});

// ---------------------------------------------------------------------------------------------
// unary minus / NOT: the static type of `-x` / `NOT x` is the type of x (converter/expr_rules/unary.rs accepts
// exactly the four numeric types: unit type_table_unary)
// ---------------------------------------------------------------------------------------------
''' % dict(CFN=CFN))
for k in ORDER:
    decl = '    ' + K[k]['decl'].format(n='a') + '\n'
    body = (decl + '    let neg = vs::bool();\n    let v = %s;\n    let out = out_v(if neg { v.negate() } else { v.unary_not() });\n' % K[k]['ctor'].format(n='a') +
            '    assert!(out != Out::Mismatch, "unary operator on a number gives Type mismatch");\n' +
            '    if let Out::Tag(g) = out {\n        assert!(g == Some(%s), "tag preservation: unary operators keep the operand type");\n    }\n' % K[k]['q'] +
            '    reach!(neg && matches!(out, Out::Tag(_)));\n    reach!(!neg && matches!(out, Out::Tag(_)));\n')
    out.append('\n//# harness unary_%s tier=quick label=complete props=C12,C06 fn=rusty_variant/src/variant.rs::Variant::negate\nharness!(unary_%s, 2, {\n%s});\n' % (k, k, body))
out.append('''
//# harness unary_string tier=thorough label=bounded(len<=1) props=C12 fn=rusty_variant/src/variant.rs::Variant::negate timeout=900 attempt=1
harness!(unary_string, 2, {
    let neg = vs::bool();
    let s = if vs::bool() { s0() } else { s1() };
    let out = out_v(if neg { s.negate() } else { s.unary_not() });
    assert!(out == Out::Mismatch, "unary operator on a string must be Type mismatch");
    reach!(neg);
    reach!(!neg);
});
''')
open('' + __import__('os').path.join(__import__('os').path.dirname(__import__('os').path.abspath(__file__)), '..', 'kani_in', '') + 'type_table.rs', 'w').write(''.join(out))

# ------------------------------------------------------------------------------------------------- unit qb_divide
QD = r"""//# unit qb_divide kind=kani_in crate=rusty_linter inject=rusty_linter/src/core/casting.rs stubbing=1
//# assume "modular obligation: Variant::divide is replaced (Kani stub) by an arbitrary deterministic function of its two operands (kind and payload bits); its body is under contract in unit variant_arith (SINGLE x SINGLE and DOUBLE x DOUBLE are the only pairs qb_divide hands it).  What is proved here is the glue: WHICH operands Variant::divide receives and what happens to its outcome"
//# assume "exact conversions of the reference: INTEGER/LONG/SINGLE -> SINGLE/DOUBLE by `as` (INTEGER and SINGLE are exact in SINGLE, everything is exact in DOUBLE); that CastVariant::cast does the same is proved in unit casts"
// C01 / C06 / C12 -- `rusty_linter::core::qb_divide`, the floating-point division that the handler of the Divide
// instruction (handlers/math.rs, unit handlers) and the constant folder (unit const_step) both call.  Contract, from
// the language semantics: `/` converts BOTH operands to the type t of the quotient (SINGLE when both are INTEGER or
// SINGLE, DOUBLE when either is LONG or DOUBLE), divides in that type, and the value left in A has type t:
//   qb_divide(a: k1, b: k2) == convert_t( Variant::divide( V_t(a as t), V_t(b as t) ) )      errors passed on unchanged.
// One harness per kind pair, payloads fully symbolic and valid: loop-free, complete.

use rusty_parser::TypeQualifier as Q;
use rusty_variant::VariantError;

#[cfg(kani)]
static mut QD_MEMO: Option<(u8, u64, u8, u64, u8, u64)> = None;

#[cfg(kani)]
fn qd_key(v: &Variant) -> (u8, u64) {
    match v {
        Variant::VSingle(f) => (0, f.to_bits() as u64),
        Variant::VDouble(f) => (1, f.to_bits()),
        Variant::VInteger(i) => (2, *i as u32 as u64),
        Variant::VLong(i) => (3, *i as u64),
        _ => (4, 0),
    }
}

#[cfg(kani)]
fn qd_outcome(k: u8, p: u64) -> Result<Variant, VariantError> {
    match k {
        0 => Ok(Variant::VSingle(f32::from_bits(p as u32))),
        1 => Ok(Variant::VDouble(f64::from_bits(p))),
        2 => Ok(Variant::VInteger(p as u32 as i32)),
        3 => Ok(Variant::VLong(p as i64)),
        4 => Err(VariantError::DivisionByZero),
        5 => Err(VariantError::Overflow),
        _ => Err(VariantError::TypeMismatch),
    }
}

// an arbitrary deterministic function of (kind, payload bits) of both operands: the first call picks any outcome
// (any valid numeric value of any kind, or any of the three errors) and remembers it for these operands; a later call
// with the same operands returns the same outcome, with other operands an unrelated one
#[cfg(kani)]
fn any_divide(a: Variant, b: Variant) -> Result<Variant, VariantError> {
    let (ka, pa) = qd_key(&a);
    let (kb, pb) = qd_key(&b);
    std::mem::forget(a);
    std::mem::forget(b);
    unsafe {
        if let Some((ma, mpa, mb, mpb, rk, rp)) = QD_MEMO {
            if ma == ka && mpa == pa && mb == kb && mpb == pb {
                return qd_outcome(rk, rp);
            }
        }
        let rk: u8 = kani::any();
        kani::assume(rk < 7);
        let rp: u64 = kani::any();
        QD_MEMO = Some((ka, pa, kb, pb, rk, rp));
        qd_outcome(rk, rp)
    }
}

fn qd_valid(v: &Variant) -> bool {
    match v {
        Variant::VInteger(i) => (-32768..=32767).contains(i),
        Variant::VLong(l) => (-2147483648..=2147483647).contains(l),
        Variant::VSingle(f) => f.is_finite(),
        Variant::VDouble(d) => d.is_finite(),
        _ => true,
    }
}

/// the obligation: `got` is `inner` (what Variant::divide answered for the converted operands) converted to SINGLE
fn qd_check_single(got: &Result<Variant, LintError>, inner: &Result<Variant, VariantError>) {
    match inner {
        Ok(v) => {
            let expected: f32 = match v {
                Variant::VInteger(i) => *i as f32,
                Variant::VLong(l) => *l as f32,
                Variant::VSingle(f) => *f,
                _ => 0.0, // excluded by the harness: a DOUBLE quotient of two SINGLEs
            };
            assert!(matches!(got, Ok(Variant::VSingle(f)) if f.to_bits() == expected.to_bits()), "the quotient is not converted to SINGLE / not the quotient of the converted operands");
        }
        Err(VariantError::DivisionByZero) => assert!(matches!(got, Err(LintError::DivisionByZero)), "Division by zero not passed on"),
        Err(VariantError::Overflow) => assert!(matches!(got, Err(LintError::Overflow)), "Overflow not passed on"),
        Err(VariantError::TypeMismatch) => assert!(matches!(got, Err(LintError::TypeMismatch)), "Type mismatch not passed on"),
    }
}

/// ... converted to DOUBLE
fn qd_check_double(got: &Result<Variant, LintError>, inner: &Result<Variant, VariantError>) {
    match inner {
        Ok(v) => {
            let expected: f64 = match v {
                Variant::VInteger(i) => *i as f64,
                Variant::VLong(l) => *l as f64,
                Variant::VSingle(f) => *f as f64,
                Variant::VDouble(d) => *d,
                _ => 0.0,
            };
            assert!(matches!(got, Ok(Variant::VDouble(f)) if f.to_bits() == expected.to_bits()), "the quotient is not converted to DOUBLE / not the quotient of the converted operands");
        }
        Err(VariantError::DivisionByZero) => assert!(matches!(got, Err(LintError::DivisionByZero)), "Division by zero not passed on"),
        Err(VariantError::Overflow) => assert!(matches!(got, Err(LintError::Overflow)), "Overflow not passed on"),
        Err(VariantError::TypeMismatch) => assert!(matches!(got, Err(LintError::TypeMismatch)), "Type mismatch not passed on"),
    }
}
"""
qd = [QD]
for k1 in ORDER:
    for k2 in ORDER:
        dbl = 'long' in (k1, k2) or 'double' in (k1, k2)
        t, ctor, chk, q = ('f64', 'Variant::VDouble', 'qd_check_double', 'Q::HashDouble') if dbl else ('f32', 'Variant::VSingle', 'qd_check_single', 'Q::BangSingle')
        decl = '    ' + K[k1]['decl'].format(n='a') + '\n    ' + K[k2]['decl'].format(n='b') + '\n'
        body = (decl +
                '    // the reference: both operands converted (exactly) to the type of the quotient, then Variant::divide\n' +
                '    let inner = %s(a as %s).divide(%s(b as %s));\n' % (ctor, t, ctor, t) +
                '    if let Ok(v) = &inner {\n        vs::assume(qd_valid(v)); // C06 of Variant::divide (unit variant_arith)\n' +
                ('' if dbl else '        vs::assume(!matches!(v, Variant::VDouble(_))); // SINGLE / SINGLE is never a DOUBLE (unit variant_arith: exact(v) == the SINGLE quotient)\n') +
                '    }\n' +
                '    let got = qb_divide(%s, %s);\n' % (K[k1]['ctor'].format(n='a'), K[k2]['ctor'].format(n='b')) +
                '    assert!(cast_binary_op_q(%s, %s, Operator::Divide) == Some(%s), "the table types this quotient differently");\n' % (K[k1]['q'], K[k2]['q'], q) +
                '    %s(&got, &inner);\n' % chk +
                '    reach!(matches!(&got, Ok(_)));\n    reach!(matches!(&got, Err(LintError::DivisionByZero)));\n    reach!(matches!(&got, Err(LintError::Overflow)));\n' +
                '    reach!(matches!(&inner, Ok(Variant::VInteger(_))));\n' +
                '    std::mem::forget(got);\n    std::mem::forget(inner);\n')
        qd.append('\n//# harness qb_divide_%s_%s tier=quick tier.C01=thorough tier.C06=thorough label=complete props=C01,C06,C12 fn=rusty_linter/src/core/casting.rs::qb_divide\n'
                  'harness!(qb_divide_%s_%s, 2, stub(rusty_variant::Variant::divide, any_divide), {\n%s});\n' % (k1, k2, k1, k2, body))
open('' + __import__('os').path.join(__import__('os').path.dirname(__import__('os').path.abspath(__file__)), '..', 'kani_in', '') + 'qb_divide.rs', 'w').write(''.join(qd))

UN = r'''//# unit type_table_unary kind=kani_in crate=rusty_linter inject=rusty_linter/src/converter/expr_rules/unary.rs
//! C12 — static side of unary minus / NOT: the checker accepts the operator exactly on the four numeric built-in
//! types (for which unit type_table shows `Variant::negate` / `unary_not` never give Type mismatch and keep the
//! tag) and rejects strings, fixed-length strings and unresolved types (for which the VM gives Type mismatch).

//# harness unary_applicable tier=quick label=complete props=C12 fn=rusty_linter/src/converter/expr_rules/unary.rs::is_applicable_to_expr_type
harness!(unary_applicable, 2, {
    let k = vs::choice(7);
    let (t, numeric) = match k {
        0 => (ExpressionType::BuiltIn(TypeQualifier::BangSingle), true),
        1 => (ExpressionType::BuiltIn(TypeQualifier::HashDouble), true),
        2 => (ExpressionType::BuiltIn(TypeQualifier::PercentInteger), true),
        3 => (ExpressionType::BuiltIn(TypeQualifier::AmpersandLong), true),
        4 => (ExpressionType::BuiltIn(TypeQualifier::DollarString), false),
        5 => (ExpressionType::FixedLengthString(vs::u16()), false),
        _ => (ExpressionType::Unresolved, false),
    };
    assert!(is_applicable_to_expr_type(&t) == numeric, "unary operators apply exactly to the numeric built-in types");
    reach!(k == 5);
    reach!(numeric);
    std::mem::forget(t);
});
'''
open('' + __import__('os').path.join(__import__('os').path.dirname(__import__('os').path.abspath(__file__)), '..', 'kani_in', '') + 'type_table_unary.rs', 'w').write(UN)
