//# unit const_step kind=kani_in crate=rusty_linter inject=rusty_linter/src/core/const_value_resolver.rs stubbing=1
//# assume "literal payloads satisfy the type invariant of their kind (IntegerLiteral in -32768..=32767, LongLiteral in the i32 range, SingleLiteral/DoubleLiteral finite): obligation of the parser (C10)"
//# assume "the VM side of a step is the Variant method its handler calls on A,B, preceded by the casts the handler applies (rusty_basic/src/interpreter/handlers/{math,logical,comparison}.rs: And/Or cast both registers to INTEGER first); that the handlers are exactly this glue is proved on the real handlers by unit vm_ops (rusty_basic)"
//# assume "MULTIPLY with a SINGLE/DOUBLE operand, DIVIDE, MOD and MINUS on the six kind pairs that Variant::minus evaluated as -(r - l) are modular obligations: Variant::{multiply,modulo,minus} and, for DIVIDE, rusty_linter::core::qb_divide (the function that both the folder and the handler of the Divide instruction call: conversion of both operands to the type of the quotient, Variant::divide, conversion of the quotient) is replaced (Kani stub) by an arbitrary deterministic function of its two operands (kind and bits), so what is proved is that folder and VM apply the operator to identical operands in identical order and map its outcome identically; two copies of a float multiplier/divider (or of the i32 remainder) cannot be proved equal by the SAT back end (> 15 min per harness). The operator bodies are under contract in unit variant_arith, qb_divide in unit type_table"
//# assume "operand literals reach the VM as Variant::V<kind>(payload) (instruction_generator/expression.rs push_load)"
// C14 — inductive step of "a CONST has the value and type its expression has at run time".
// Contract (from the property statement): for every one-operator tree over literals
//   BinaryExpression(op, lit l, lit r) | UnaryExpression(op, lit) | Parenthesis(lit)
// and an empty constant table, `eval_const` returns
//   Ok(c)  with c bit-for-bit equal to, and of the same kind as, what the VM leaves in register A, or
//   Err(e) of the same class (Overflow / DivisionByZero / TypeMismatch) as the VM's run-time error
// ("rejected for overflow or division by zero exactly when evaluating it at run time would raise
// that error", "c has the same type as e").  One harness per operator and literal-kind pair,
// discriminants concrete, numeric payloads fully symbolic: loop-free, complete.
// Strings: length <= 1 (bounded) and thorough tier only (unit const_step_slow): the tag of a VString lives in
// the niche of the String capacity, CBMC does not fold it, so every drop of a VString walks the drop glue of
// arrays and records (10-100 s each); unwind is therefore kept at 2.
use crate::core::CastVariant;
use rusty_parser::ExpressionType;
use rusty_variant::VariantError;

struct NoConsts;
impl ConstLookup for NoConsts {
    fn get_const_value(&self, _name: &CaseInsensitiveString) -> Option<&Variant> {
        None
    }
}

#[derive(Clone, Copy, PartialEq, Eq, Debug)]
enum Class {
    Overflow,
    DivisionByZero,
    TypeMismatch,
    Other,
}

fn class_of_lint(e: &LintError) -> Class {
    match e {
        LintError::Overflow => Class::Overflow,
        LintError::DivisionByZero => Class::DivisionByZero,
        LintError::TypeMismatch => Class::TypeMismatch,
        _ => Class::Other,
    }
}

fn class_of_variant(e: VariantError) -> Class {
    match e {
        VariantError::Overflow => Class::Overflow,
        VariantError::DivisionByZero => Class::DivisionByZero,
        VariantError::TypeMismatch => Class::TypeMismatch,
    }
}

fn vm_cmp(a: Variant, b: Variant, p: fn(Ordering) -> bool) -> Result<Variant, Class> {
    let r = match a.try_cmp(&b) {
        Ok(o) => Ok(Variant::from(p(o))),
        Err(e) => Err(class_of_variant(e)),
    };
    std::mem::forget(a);
    std::mem::forget(b);
    r
}

// AND / OR as the VM executes them (handlers/logical.rs): cast A to INTEGER, cast B to INTEGER, then
// `Variant::and` / `Variant::or`.  Written in nested-branch form, the operands rebuilt from the cast
// results with a concrete tag: CBMC does not constant-fold the tag of a `Result<Variant, LintError>`,
// and a Variant whose tag is not a constant during symbolic execution sends it into the drop glue
// of arrays and records.  That the cast yields an INTEGER is asserted, not assumed.
fn vm_logical(a: Variant, b: Variant, is_and: bool) -> Result<Variant, Class> {
    let ra = a.cast(TypeQualifier::PercentInteger);
    let out = match &ra {
        Ok(Variant::VInteger(i)) => {
            let rb = b.cast(TypeQualifier::PercentInteger);
            let out = match &rb {
                Ok(Variant::VInteger(j)) => {
                    let x = Variant::VInteger(*i);
                    let y = Variant::VInteger(*j);
                    if is_and {
                        x.and(y).map_err(class_of_variant)
                    } else {
                        x.or(y).map_err(class_of_variant)
                    }
                }
                Ok(_) => {
                    assert!(false, "cast to INTEGER returned another kind");
                    Err(Class::Other)
                }
                Err(e) => Err(class_of_lint(e)),
            };
            std::mem::forget(rb);
            out
        }
        Ok(_) => {
            assert!(false, "cast to INTEGER returned another kind");
            std::mem::forget(b);
            Err(Class::Other)
        }
        Err(e) => {
            std::mem::forget(b);
            Err(class_of_lint(e))
        }
    };
    std::mem::forget(ra);
    out
}

// What the VM executes for `op` once A = a and B = b (the instruction the generator emits for the
// operator, see the unit header).
fn vm_binary(op: Operator, a: Variant, b: Variant) -> Result<Variant, Class> {
    match op {
        Operator::Plus => a.plus(b).map_err(class_of_variant),
        Operator::Minus => a.minus(b).map_err(class_of_variant),
        Operator::Multiply => a.multiply(b).map_err(class_of_variant),
        // handlers/math.rs divide: A := qb_divide(A, B) (both operands and the quotient converted to the type of the quotient)
        Operator::Divide => qb_divide(a, b).map_err(|e| class_of_lint(&e)),
        Operator::Modulo => a.modulo(b).map_err(class_of_variant),
        Operator::And => vm_logical(a, b, true),
        Operator::Or => vm_logical(a, b, false),
        Operator::Less => vm_cmp(a, b, |o| o == Ordering::Less),
        Operator::LessOrEqual => vm_cmp(a, b, |o| o == Ordering::Less || o == Ordering::Equal),
        Operator::Equal => vm_cmp(a, b, |o| o == Ordering::Equal),
        Operator::GreaterOrEqual => vm_cmp(a, b, |o| o == Ordering::Greater || o == Ordering::Equal),
        Operator::Greater => vm_cmp(a, b, |o| o == Ordering::Greater),
        Operator::NotEqual => vm_cmp(a, b, |o| o != Ordering::Equal),
    }
}

fn vm_unary(op: UnaryOperator, a: Variant) -> Result<Variant, Class> {
    match op {
        UnaryOperator::Minus => a.negate().map_err(class_of_variant),
        UnaryOperator::Not => a.unary_not().map_err(class_of_variant),
    }
}

// Abstraction of a binary `Variant` operator for the modular steps: an arbitrary deterministic function
// of (kind, payload bits) of both operands -- the first call picks any outcome (any numeric kind with any
// payload, or any of the three errors) and remembers it for these operands; a later call with the same
// operands returns the same outcome, with other operands an unrelated one.
#[cfg(kani)]
static mut MEMO: Option<(u8, u64, u8, u64, u8, u64)> = None;

#[cfg(kani)]
fn operand_key(v: &Variant) -> (u8, u64) {
    match v {
        Variant::VSingle(f) => (0, f.to_bits() as u64),
        Variant::VDouble(f) => (1, f.to_bits()),
        Variant::VInteger(i) => (2, *i as u32 as u64),
        Variant::VLong(i) => (3, *i as u64),
        Variant::VString(s) => (4, if s.is_empty() { 0 } else { 256 + s.as_bytes()[0] as u64 }),
        _ => (5, 0),
    }
}

#[cfg(kani)]
fn outcome(k: u8, p: u64) -> Result<Variant, VariantError> {
    match k {
        0 => Ok(Variant::VSingle(f32::from_bits(p as u32))),
        1 => Ok(Variant::VDouble(f64::from_bits(p))),
        2 => Ok(Variant::VInteger(p as u32 as i32)),
        3 => Ok(Variant::VLong(p as i64)),
        4 => Err(VariantError::DivisionByZero),
        5 => Err(VariantError::Overflow),
        _ => Err(VariantError::TypeMismatch),
    }
}

#[cfg(kani)]
fn any_binary_operator(a: Variant, b: Variant) -> Result<Variant, VariantError> {
    let (ka, pa) = operand_key(&a);
    let (kb, pb) = operand_key(&b);
    std::mem::forget(a);
    std::mem::forget(b);
    unsafe {
        if let Some((ma, mpa, mb, mpb, rk, rp)) = MEMO {
            if ma == ka && mpa == pa && mb == kb && mpb == pb {
                return outcome(rk, rp);
            }
        }
        let rk: u8 = kani::any();
        kani::assume(rk < 7);
        let rp: u64 = kani::any();
        MEMO = Some((ka, pa, kb, pb, rk, rp));
        outcome(rk, rp)
    }
}

// the same abstraction for `qb_divide`, whose error type is LintError
#[cfg(kani)]
fn any_lint_binary_operator(a: Variant, b: Variant) -> Result<Variant, LintError> {
    any_binary_operator(a, b).map_err(LintError::from)
}

fn bits_equal(a: &Variant, b: &Variant) -> bool {
    match (a, b) {
        (Variant::VSingle(x), Variant::VSingle(y)) => x.to_bits() == y.to_bits(),
        (Variant::VDouble(x), Variant::VDouble(y)) => x.to_bits() == y.to_bits(),
        (Variant::VInteger(x), Variant::VInteger(y)) => x == y,
        (Variant::VLong(x), Variant::VLong(y)) => x == y,
        (Variant::VString(x), Variant::VString(y)) => x.as_bytes() == y.as_bytes(),
        _ => false,
    }
}

struct Step {
    agree: bool,
    ok: bool,
}

fn compare(folded: Result<Variant, LintErrorPos>, vm: Result<Variant, Class>) -> Step {
    let agree = match (&folded, &vm) {
        (Ok(a), Ok(b)) => bits_equal(a, b),
        (Err(e), Err(c)) => class_of_lint(&e.element) == *c && *c != Class::Other,
        _ => false,
    };
    let ok = folded.is_ok();
    std::mem::forget(folded);
    std::mem::forget(vm);
    Step { agree, ok }
}

fn at(e: Expression, col: u32) -> ExpressionPos {
    e.at_pos(Position::new(1, col))
}

// Operand nodes live in locals of the step function and the tree's `Box`es point at them
// (`Box::from_raw`, the tree is never dropped): CBMC does not constant-propagate an enum tag read
// back from an untyped heap object, so with `Box::new` the concrete literal kind is lost and the
// folder's recursion is explored for every expression kind (> 10 min).  `eval_const` only reads
// the tree; the values it sees are identical.
type Cell = std::mem::ManuallyDrop<ExpressionPos>;
fn cell(e: Expression, col: u32) -> Cell {
    std::mem::ManuallyDrop::new(at(e, col))
}
fn boxed(c: &mut Cell) -> Box<ExpressionPos> {
    unsafe { Box::from_raw(&mut **c as *mut ExpressionPos) }
}

fn step_binary(op: Operator, l: (Expression, Variant), r: (Expression, Variant)) -> Step {
    let mut cl = cell(l.0, 1);
    let mut cr = cell(r.0, 5);
    let tree = at(
        Expression::BinaryExpression(op, boxed(&mut cl), boxed(&mut cr), ExpressionType::Unresolved),
        3,
    );
    let folded = NoConsts.eval_const(&tree);
    std::mem::forget(tree);
    let vm = vm_binary(op, l.1, r.1);
    compare(folded, vm)
}

fn step_unary(op: UnaryOperator, c: (Expression, Variant)) -> Step {
    let mut cc = cell(c.0, 2);
    let tree = at(Expression::UnaryExpression(op, boxed(&mut cc)), 1);
    let folded = NoConsts.eval_const(&tree);
    std::mem::forget(tree);
    let vm = vm_unary(op, c.1);
    compare(folded, vm)
}

fn step_paren(c: (Expression, Variant)) -> Step {
    let mut cc = cell(c.0, 2);
    let tree = at(Expression::Parenthesis(boxed(&mut cc)), 1);
    let folded = NoConsts.eval_const(&tree);
    std::mem::forget(tree);
    compare(folded, Ok(c.1))
}

// String literals have a concrete length per kind (str0 = "", str1 = one symbolic ASCII char): the enum
// tags of `Variant` / `Expression` live in the niche of the String capacity field, and `String::clone`
// (called by the folder) sets capacity = length, so a symbolic length makes the tag symbolic.
fn one_char_string() -> String {
    let mut s = String::with_capacity(1);
    s.push(vs::ascii());
    s
}

// a literal of the given (concrete) kind with symbolic payload: (parser expression, VM operand)
macro_rules! lit {
    (int) => {{
        let v = vs::i32();
        vs::assume(v >= -32768 && v <= 32767);
        (Expression::IntegerLiteral(v), Variant::VInteger(v))
    }};
    (long) => {{
        let v = vs::i64();
        vs::assume(v >= -2147483648 && v <= 2147483647);
        (Expression::LongLiteral(v), Variant::VLong(v))
    }};
    (single) => {{
        let v = vs::f32();
        vs::assume(v.is_finite());
        (Expression::SingleLiteral(v), Variant::VSingle(v))
    }};
    (double) => {{
        let v = vs::f64();
        vs::assume(v.is_finite());
        (Expression::DoubleLiteral(v), Variant::VDouble(v))
    }};
    (str0) => {{
        (Expression::StringLiteral(String::new()), Variant::VString(String::new()))
    }};
    (str1) => {{
        let s = one_char_string();
        (Expression::StringLiteral(s.clone()), Variant::VString(s))
    }};
}

macro_rules! witness {
    ($s:ident, ok) => {
        reach!($s.ok);
    };
    ($s:ident, err) => {
        reach!(!$s.ok);
    };
    ($s:ident, both) => {
        reach!($s.ok);
        reach!(!$s.ok);
    };
}

macro_rules! bin {
    ($op:ident, $l:ident, $r:ident, $w:ident) => {{
        let l = lit!($l);
        let r = lit!($r);
        let s = step_binary(Operator::$op, l, r);
        assert!(s.agree, "CONST folding of a binary operator differs from the VM: value bits, kind or error class");
        witness!(s, $w);
    }};
}

macro_rules! un {
    ($op:ident, $c:ident, $w:ident) => {{
        let c = lit!($c);
        let s = step_unary(UnaryOperator::$op, c);
        assert!(s.agree, "CONST folding of a unary operator differs from the VM: value bits, kind or error class");
        witness!(s, $w);
    }};
}

// a string operand against a numeric one: Type mismatch on both sides.  (One step per harness: every
// drop of a VString costs CBMC 10-100 s, see the unit header.)
macro_rules! mixed {
    ($op:ident, l) => {{
        bin!($op, str1, int, err);
    }};
    ($op:ident, r) => {{
        bin!($op, double, str1, err);
    }};
}

// both operands strings
macro_rules! strs {
    ($op:ident, $w:ident) => {{
        bin!($op, str1, str1, $w);
    }};
}

// every numeric kind pair except (int, int)
macro_rules! non_integer_pairs {
    ($op:ident) => {{
        bin!($op, int, long, ok);
        bin!($op, int, single, ok);
        bin!($op, int, double, ok);
        bin!($op, long, int, ok);
        bin!($op, long, long, ok);
        bin!($op, long, single, ok);
        bin!($op, long, double, ok);
        bin!($op, single, int, ok);
        bin!($op, single, long, ok);
        bin!($op, single, single, ok);
        bin!($op, single, double, ok);
        bin!($op, double, int, ok);
        bin!($op, double, long, ok);
        bin!($op, double, single, ok);
        bin!($op, double, double, ok);
    }};
}

// ---- Plus
//# harness plus_int__int_long tier=quick label=complete props=C14 fn=rusty_linter/src/core/const_value_resolver.rs::ConstEvaluator<ExpressionPos>::eval_const
harness!(plus_int__int_long, 2, { bin!(Plus, int, int, ok); bin!(Plus, int, long, ok); });

//# harness plus_int__single_double tier=quick label=complete props=C14 fn=rusty_linter/src/core/const_value_resolver.rs::ConstEvaluator<ExpressionPos>::eval_const
harness!(plus_int__single_double, 2, { bin!(Plus, int, single, ok); bin!(Plus, int, double, ok); });

//# harness plus_long__int_long tier=quick label=complete props=C14 fn=rusty_linter/src/core/const_value_resolver.rs::ConstEvaluator<ExpressionPos>::eval_const
harness!(plus_long__int_long, 2, { bin!(Plus, long, int, ok); bin!(Plus, long, long, ok); });

//# harness plus_long__single_double tier=quick label=complete props=C14 fn=rusty_linter/src/core/const_value_resolver.rs::ConstEvaluator<ExpressionPos>::eval_const
harness!(plus_long__single_double, 2, { bin!(Plus, long, single, ok); bin!(Plus, long, double, ok); });

//# harness plus_single__int_long tier=quick label=complete props=C14 fn=rusty_linter/src/core/const_value_resolver.rs::ConstEvaluator<ExpressionPos>::eval_const
harness!(plus_single__int_long, 2, { bin!(Plus, single, int, ok); bin!(Plus, single, long, ok); });

//# harness plus_single__single_double tier=quick label=complete props=C14 fn=rusty_linter/src/core/const_value_resolver.rs::ConstEvaluator<ExpressionPos>::eval_const
harness!(plus_single__single_double, 2, { bin!(Plus, single, single, ok); bin!(Plus, single, double, ok); });

//# harness plus_double__int_long tier=quick label=complete props=C14 fn=rusty_linter/src/core/const_value_resolver.rs::ConstEvaluator<ExpressionPos>::eval_const
harness!(plus_double__int_long, 2, { bin!(Plus, double, int, ok); bin!(Plus, double, long, ok); });

//# harness plus_double__single_double tier=quick label=complete props=C14 fn=rusty_linter/src/core/const_value_resolver.rs::ConstEvaluator<ExpressionPos>::eval_const
harness!(plus_double__single_double, 2, { bin!(Plus, double, single, ok); bin!(Plus, double, double, ok); });

// ---- Minus
//# harness minus_int__int_long tier=quick label=complete props=C14 fn=rusty_linter/src/core/const_value_resolver.rs::ConstEvaluator<ExpressionPos>::eval_const
harness!(minus_int__int_long, 2, { bin!(Minus, int, int, ok); bin!(Minus, int, long, ok); });

//# harness minus_int__single_double tier=quick label=complete props=C14 fn=rusty_linter/src/core/const_value_resolver.rs::ConstEvaluator<ExpressionPos>::eval_const
harness!(minus_int__single_double, 2, stub(rusty_variant::Variant::minus, any_binary_operator), { bin!(Minus, int, single, both); bin!(Minus, int, double, both); });

//# harness minus_long__int tier=quick label=complete props=C14 fn=rusty_linter/src/core/const_value_resolver.rs::ConstEvaluator<ExpressionPos>::eval_const
harness!(minus_long__int, 2, stub(rusty_variant::Variant::minus, any_binary_operator), { bin!(Minus, long, int, both); });

//# harness minus_long__long tier=quick label=complete props=C14 fn=rusty_linter/src/core/const_value_resolver.rs::ConstEvaluator<ExpressionPos>::eval_const
harness!(minus_long__long, 2, { bin!(Minus, long, long, ok); });

//# harness minus_long__single_double tier=quick label=complete props=C14 fn=rusty_linter/src/core/const_value_resolver.rs::ConstEvaluator<ExpressionPos>::eval_const
harness!(minus_long__single_double, 2, stub(rusty_variant::Variant::minus, any_binary_operator), { bin!(Minus, long, single, both); bin!(Minus, long, double, both); });

//# harness minus_single__int_long tier=quick label=complete props=C14 fn=rusty_linter/src/core/const_value_resolver.rs::ConstEvaluator<ExpressionPos>::eval_const
harness!(minus_single__int_long, 2, { bin!(Minus, single, int, ok); bin!(Minus, single, long, ok); });

//# harness minus_single__single_double tier=quick label=complete props=C14 fn=rusty_linter/src/core/const_value_resolver.rs::ConstEvaluator<ExpressionPos>::eval_const
harness!(minus_single__single_double, 2, { bin!(Minus, single, single, ok); bin!(Minus, single, double, ok); });

//# harness minus_double__int_long tier=quick label=complete props=C14 fn=rusty_linter/src/core/const_value_resolver.rs::ConstEvaluator<ExpressionPos>::eval_const
harness!(minus_double__int_long, 2, { bin!(Minus, double, int, ok); bin!(Minus, double, long, ok); });

//# harness minus_double__single tier=quick label=complete props=C14 fn=rusty_linter/src/core/const_value_resolver.rs::ConstEvaluator<ExpressionPos>::eval_const
harness!(minus_double__single, 2, stub(rusty_variant::Variant::minus, any_binary_operator), { bin!(Minus, double, single, both); });

//# harness minus_double__double tier=quick label=complete props=C14 fn=rusty_linter/src/core/const_value_resolver.rs::ConstEvaluator<ExpressionPos>::eval_const
harness!(minus_double__double, 2, { bin!(Minus, double, double, ok); });

// ---- Multiply
//# harness multiply_int__int_long tier=quick label=complete props=C14 fn=rusty_linter/src/core/const_value_resolver.rs::ConstEvaluator<ExpressionPos>::eval_const
harness!(multiply_int__int_long, 2, { bin!(Multiply, int, int, ok); bin!(Multiply, int, long, ok); });

//# harness multiply_int__single_double tier=quick label=complete props=C14 fn=rusty_linter/src/core/const_value_resolver.rs::ConstEvaluator<ExpressionPos>::eval_const
harness!(multiply_int__single_double, 2, stub(rusty_variant::Variant::multiply, any_binary_operator), { bin!(Multiply, int, single, both); bin!(Multiply, int, double, both); });

//# harness multiply_long__int_long tier=quick label=complete props=C14 fn=rusty_linter/src/core/const_value_resolver.rs::ConstEvaluator<ExpressionPos>::eval_const
harness!(multiply_long__int_long, 2, { bin!(Multiply, long, int, ok); bin!(Multiply, long, long, ok); });

//# harness multiply_long__single_double tier=quick label=complete props=C14 fn=rusty_linter/src/core/const_value_resolver.rs::ConstEvaluator<ExpressionPos>::eval_const
harness!(multiply_long__single_double, 2, stub(rusty_variant::Variant::multiply, any_binary_operator), { bin!(Multiply, long, single, both); bin!(Multiply, long, double, both); });

//# harness multiply_single__int_long tier=quick label=complete props=C14 fn=rusty_linter/src/core/const_value_resolver.rs::ConstEvaluator<ExpressionPos>::eval_const
harness!(multiply_single__int_long, 2, stub(rusty_variant::Variant::multiply, any_binary_operator), { bin!(Multiply, single, int, both); bin!(Multiply, single, long, both); });

//# harness multiply_single__single_double tier=quick label=complete props=C14 fn=rusty_linter/src/core/const_value_resolver.rs::ConstEvaluator<ExpressionPos>::eval_const
harness!(multiply_single__single_double, 2, stub(rusty_variant::Variant::multiply, any_binary_operator), { bin!(Multiply, single, single, both); bin!(Multiply, single, double, both); });

//# harness multiply_double__int_long tier=quick label=complete props=C14 fn=rusty_linter/src/core/const_value_resolver.rs::ConstEvaluator<ExpressionPos>::eval_const
harness!(multiply_double__int_long, 2, stub(rusty_variant::Variant::multiply, any_binary_operator), { bin!(Multiply, double, int, both); bin!(Multiply, double, long, both); });

//# harness multiply_double__single_double tier=quick label=complete props=C14 fn=rusty_linter/src/core/const_value_resolver.rs::ConstEvaluator<ExpressionPos>::eval_const
harness!(multiply_double__single_double, 2, stub(rusty_variant::Variant::multiply, any_binary_operator), { bin!(Multiply, double, single, both); bin!(Multiply, double, double, both); });

// ---- Divide
//# harness divide_int__int_long tier=quick label=complete props=C14 fn=rusty_linter/src/core/const_value_resolver.rs::ConstEvaluator<ExpressionPos>::eval_const
harness!(divide_int__int_long, 2, stub(crate::core::casting::qb_divide, any_lint_binary_operator), { bin!(Divide, int, int, both); bin!(Divide, int, long, both); });

//# harness divide_int__single_double tier=quick label=complete props=C14 fn=rusty_linter/src/core/const_value_resolver.rs::ConstEvaluator<ExpressionPos>::eval_const
harness!(divide_int__single_double, 2, stub(crate::core::casting::qb_divide, any_lint_binary_operator), { bin!(Divide, int, single, both); bin!(Divide, int, double, both); });

//# harness divide_long__int_long tier=quick label=complete props=C14 fn=rusty_linter/src/core/const_value_resolver.rs::ConstEvaluator<ExpressionPos>::eval_const
harness!(divide_long__int_long, 2, stub(crate::core::casting::qb_divide, any_lint_binary_operator), { bin!(Divide, long, int, both); bin!(Divide, long, long, both); });

//# harness divide_long__single_double tier=quick label=complete props=C14 fn=rusty_linter/src/core/const_value_resolver.rs::ConstEvaluator<ExpressionPos>::eval_const
harness!(divide_long__single_double, 2, stub(crate::core::casting::qb_divide, any_lint_binary_operator), { bin!(Divide, long, single, both); bin!(Divide, long, double, both); });

//# harness divide_single__int_long tier=quick label=complete props=C14 fn=rusty_linter/src/core/const_value_resolver.rs::ConstEvaluator<ExpressionPos>::eval_const
harness!(divide_single__int_long, 2, stub(crate::core::casting::qb_divide, any_lint_binary_operator), { bin!(Divide, single, int, both); bin!(Divide, single, long, both); });

//# harness divide_single__single_double tier=quick label=complete props=C14 fn=rusty_linter/src/core/const_value_resolver.rs::ConstEvaluator<ExpressionPos>::eval_const
harness!(divide_single__single_double, 2, stub(crate::core::casting::qb_divide, any_lint_binary_operator), { bin!(Divide, single, single, both); bin!(Divide, single, double, both); });

//# harness divide_double__int_long tier=quick label=complete props=C14 fn=rusty_linter/src/core/const_value_resolver.rs::ConstEvaluator<ExpressionPos>::eval_const
harness!(divide_double__int_long, 2, stub(crate::core::casting::qb_divide, any_lint_binary_operator), { bin!(Divide, double, int, both); bin!(Divide, double, long, both); });

//# harness divide_double__single_double tier=quick label=complete props=C14 fn=rusty_linter/src/core/const_value_resolver.rs::ConstEvaluator<ExpressionPos>::eval_const
harness!(divide_double__single_double, 2, stub(crate::core::casting::qb_divide, any_lint_binary_operator), { bin!(Divide, double, single, both); bin!(Divide, double, double, both); });

// ---- Modulo
//# harness modulo_int__int_long tier=quick label=complete props=C14 fn=rusty_linter/src/core/const_value_resolver.rs::ConstEvaluator<ExpressionPos>::eval_const
harness!(modulo_int__int_long, 2, stub(rusty_variant::Variant::modulo, any_binary_operator), { bin!(Modulo, int, int, both); bin!(Modulo, int, long, both); });

//# harness modulo_int__single_double tier=quick label=complete props=C14 fn=rusty_linter/src/core/const_value_resolver.rs::ConstEvaluator<ExpressionPos>::eval_const
harness!(modulo_int__single_double, 2, stub(rusty_variant::Variant::modulo, any_binary_operator), { bin!(Modulo, int, single, both); bin!(Modulo, int, double, both); });

//# harness modulo_long__int_long tier=quick label=complete props=C14 fn=rusty_linter/src/core/const_value_resolver.rs::ConstEvaluator<ExpressionPos>::eval_const
harness!(modulo_long__int_long, 2, stub(rusty_variant::Variant::modulo, any_binary_operator), { bin!(Modulo, long, int, both); bin!(Modulo, long, long, both); });

//# harness modulo_long__single_double tier=quick label=complete props=C14 fn=rusty_linter/src/core/const_value_resolver.rs::ConstEvaluator<ExpressionPos>::eval_const
harness!(modulo_long__single_double, 2, stub(rusty_variant::Variant::modulo, any_binary_operator), { bin!(Modulo, long, single, both); bin!(Modulo, long, double, both); });

//# harness modulo_single__int_long tier=quick label=complete props=C14 fn=rusty_linter/src/core/const_value_resolver.rs::ConstEvaluator<ExpressionPos>::eval_const
harness!(modulo_single__int_long, 2, stub(rusty_variant::Variant::modulo, any_binary_operator), { bin!(Modulo, single, int, both); bin!(Modulo, single, long, both); });

//# harness modulo_single__single_double tier=quick label=complete props=C14 fn=rusty_linter/src/core/const_value_resolver.rs::ConstEvaluator<ExpressionPos>::eval_const
harness!(modulo_single__single_double, 2, stub(rusty_variant::Variant::modulo, any_binary_operator), { bin!(Modulo, single, single, both); bin!(Modulo, single, double, both); });

//# harness modulo_double__int_long tier=quick label=complete props=C14 fn=rusty_linter/src/core/const_value_resolver.rs::ConstEvaluator<ExpressionPos>::eval_const
harness!(modulo_double__int_long, 2, stub(rusty_variant::Variant::modulo, any_binary_operator), { bin!(Modulo, double, int, both); bin!(Modulo, double, long, both); });

//# harness modulo_double__single_double tier=quick label=complete props=C14 fn=rusty_linter/src/core/const_value_resolver.rs::ConstEvaluator<ExpressionPos>::eval_const
harness!(modulo_double__single_double, 2, stub(rusty_variant::Variant::modulo, any_binary_operator), { bin!(Modulo, double, single, both); bin!(Modulo, double, double, both); });

// ---- Less
//# harness lt_int__int_long tier=quick label=complete props=C14 fn=rusty_linter/src/core/const_value_resolver.rs::ConstEvaluator<ExpressionPos>::eval_const
harness!(lt_int__int_long, 2, { bin!(Less, int, int, ok); bin!(Less, int, long, ok); });

//# harness lt_int__single_double tier=quick label=complete props=C14 fn=rusty_linter/src/core/const_value_resolver.rs::ConstEvaluator<ExpressionPos>::eval_const
harness!(lt_int__single_double, 2, { bin!(Less, int, single, ok); bin!(Less, int, double, ok); });

//# harness lt_long__int_long tier=quick label=complete props=C14 fn=rusty_linter/src/core/const_value_resolver.rs::ConstEvaluator<ExpressionPos>::eval_const
harness!(lt_long__int_long, 2, { bin!(Less, long, int, ok); bin!(Less, long, long, ok); });

//# harness lt_long__single_double tier=quick label=complete props=C14 fn=rusty_linter/src/core/const_value_resolver.rs::ConstEvaluator<ExpressionPos>::eval_const
harness!(lt_long__single_double, 2, { bin!(Less, long, single, ok); bin!(Less, long, double, ok); });

//# harness lt_single__int_long tier=quick label=complete props=C14 fn=rusty_linter/src/core/const_value_resolver.rs::ConstEvaluator<ExpressionPos>::eval_const
harness!(lt_single__int_long, 2, { bin!(Less, single, int, ok); bin!(Less, single, long, ok); });

//# harness lt_single__single_double tier=quick label=complete props=C14 fn=rusty_linter/src/core/const_value_resolver.rs::ConstEvaluator<ExpressionPos>::eval_const
harness!(lt_single__single_double, 2, { bin!(Less, single, single, ok); bin!(Less, single, double, ok); });

//# harness lt_double__int_long tier=quick label=complete props=C14 fn=rusty_linter/src/core/const_value_resolver.rs::ConstEvaluator<ExpressionPos>::eval_const
harness!(lt_double__int_long, 2, { bin!(Less, double, int, ok); bin!(Less, double, long, ok); });

//# harness lt_double__single_double tier=quick label=complete props=C14 fn=rusty_linter/src/core/const_value_resolver.rs::ConstEvaluator<ExpressionPos>::eval_const
harness!(lt_double__single_double, 2, { bin!(Less, double, single, ok); bin!(Less, double, double, ok); });

// ---- LessOrEqual
//# harness le_int__int_long tier=quick label=complete props=C14 fn=rusty_linter/src/core/const_value_resolver.rs::ConstEvaluator<ExpressionPos>::eval_const
harness!(le_int__int_long, 2, { bin!(LessOrEqual, int, int, ok); bin!(LessOrEqual, int, long, ok); });

//# harness le_int__single_double tier=quick label=complete props=C14 fn=rusty_linter/src/core/const_value_resolver.rs::ConstEvaluator<ExpressionPos>::eval_const
harness!(le_int__single_double, 2, { bin!(LessOrEqual, int, single, ok); bin!(LessOrEqual, int, double, ok); });

//# harness le_long__int_long tier=quick label=complete props=C14 fn=rusty_linter/src/core/const_value_resolver.rs::ConstEvaluator<ExpressionPos>::eval_const
harness!(le_long__int_long, 2, { bin!(LessOrEqual, long, int, ok); bin!(LessOrEqual, long, long, ok); });

//# harness le_long__single_double tier=quick label=complete props=C14 fn=rusty_linter/src/core/const_value_resolver.rs::ConstEvaluator<ExpressionPos>::eval_const
harness!(le_long__single_double, 2, { bin!(LessOrEqual, long, single, ok); bin!(LessOrEqual, long, double, ok); });

//# harness le_single__int_long tier=quick label=complete props=C14 fn=rusty_linter/src/core/const_value_resolver.rs::ConstEvaluator<ExpressionPos>::eval_const
harness!(le_single__int_long, 2, { bin!(LessOrEqual, single, int, ok); bin!(LessOrEqual, single, long, ok); });

//# harness le_single__single_double tier=quick label=complete props=C14 fn=rusty_linter/src/core/const_value_resolver.rs::ConstEvaluator<ExpressionPos>::eval_const
harness!(le_single__single_double, 2, { bin!(LessOrEqual, single, single, ok); bin!(LessOrEqual, single, double, ok); });

//# harness le_double__int_long tier=quick label=complete props=C14 fn=rusty_linter/src/core/const_value_resolver.rs::ConstEvaluator<ExpressionPos>::eval_const
harness!(le_double__int_long, 2, { bin!(LessOrEqual, double, int, ok); bin!(LessOrEqual, double, long, ok); });

//# harness le_double__single_double tier=quick label=complete props=C14 fn=rusty_linter/src/core/const_value_resolver.rs::ConstEvaluator<ExpressionPos>::eval_const
harness!(le_double__single_double, 2, { bin!(LessOrEqual, double, single, ok); bin!(LessOrEqual, double, double, ok); });

// ---- Equal
//# harness eq_int__int_long tier=quick label=complete props=C14 fn=rusty_linter/src/core/const_value_resolver.rs::ConstEvaluator<ExpressionPos>::eval_const
harness!(eq_int__int_long, 2, { bin!(Equal, int, int, ok); bin!(Equal, int, long, ok); });

//# harness eq_int__single_double tier=quick label=complete props=C14 fn=rusty_linter/src/core/const_value_resolver.rs::ConstEvaluator<ExpressionPos>::eval_const
harness!(eq_int__single_double, 2, { bin!(Equal, int, single, ok); bin!(Equal, int, double, ok); });

//# harness eq_long__int_long tier=quick label=complete props=C14 fn=rusty_linter/src/core/const_value_resolver.rs::ConstEvaluator<ExpressionPos>::eval_const
harness!(eq_long__int_long, 2, { bin!(Equal, long, int, ok); bin!(Equal, long, long, ok); });

//# harness eq_long__single_double tier=quick label=complete props=C14 fn=rusty_linter/src/core/const_value_resolver.rs::ConstEvaluator<ExpressionPos>::eval_const
harness!(eq_long__single_double, 2, { bin!(Equal, long, single, ok); bin!(Equal, long, double, ok); });

//# harness eq_single__int_long tier=quick label=complete props=C14 fn=rusty_linter/src/core/const_value_resolver.rs::ConstEvaluator<ExpressionPos>::eval_const
harness!(eq_single__int_long, 2, { bin!(Equal, single, int, ok); bin!(Equal, single, long, ok); });

//# harness eq_single__single_double tier=quick label=complete props=C14 fn=rusty_linter/src/core/const_value_resolver.rs::ConstEvaluator<ExpressionPos>::eval_const
harness!(eq_single__single_double, 2, { bin!(Equal, single, single, ok); bin!(Equal, single, double, ok); });

//# harness eq_double__int_long tier=quick label=complete props=C14 fn=rusty_linter/src/core/const_value_resolver.rs::ConstEvaluator<ExpressionPos>::eval_const
harness!(eq_double__int_long, 2, { bin!(Equal, double, int, ok); bin!(Equal, double, long, ok); });

//# harness eq_double__single_double tier=quick label=complete props=C14 fn=rusty_linter/src/core/const_value_resolver.rs::ConstEvaluator<ExpressionPos>::eval_const
harness!(eq_double__single_double, 2, { bin!(Equal, double, single, ok); bin!(Equal, double, double, ok); });

// ---- GreaterOrEqual
//# harness ge_int__int_long tier=quick label=complete props=C14 fn=rusty_linter/src/core/const_value_resolver.rs::ConstEvaluator<ExpressionPos>::eval_const
harness!(ge_int__int_long, 2, { bin!(GreaterOrEqual, int, int, ok); bin!(GreaterOrEqual, int, long, ok); });

//# harness ge_int__single_double tier=quick label=complete props=C14 fn=rusty_linter/src/core/const_value_resolver.rs::ConstEvaluator<ExpressionPos>::eval_const
harness!(ge_int__single_double, 2, { bin!(GreaterOrEqual, int, single, ok); bin!(GreaterOrEqual, int, double, ok); });

//# harness ge_long__int_long tier=quick label=complete props=C14 fn=rusty_linter/src/core/const_value_resolver.rs::ConstEvaluator<ExpressionPos>::eval_const
harness!(ge_long__int_long, 2, { bin!(GreaterOrEqual, long, int, ok); bin!(GreaterOrEqual, long, long, ok); });

//# harness ge_long__single_double tier=quick label=complete props=C14 fn=rusty_linter/src/core/const_value_resolver.rs::ConstEvaluator<ExpressionPos>::eval_const
harness!(ge_long__single_double, 2, { bin!(GreaterOrEqual, long, single, ok); bin!(GreaterOrEqual, long, double, ok); });

//# harness ge_single__int_long tier=quick label=complete props=C14 fn=rusty_linter/src/core/const_value_resolver.rs::ConstEvaluator<ExpressionPos>::eval_const
harness!(ge_single__int_long, 2, { bin!(GreaterOrEqual, single, int, ok); bin!(GreaterOrEqual, single, long, ok); });

//# harness ge_single__single_double tier=quick label=complete props=C14 fn=rusty_linter/src/core/const_value_resolver.rs::ConstEvaluator<ExpressionPos>::eval_const
harness!(ge_single__single_double, 2, { bin!(GreaterOrEqual, single, single, ok); bin!(GreaterOrEqual, single, double, ok); });

//# harness ge_double__int_long tier=quick label=complete props=C14 fn=rusty_linter/src/core/const_value_resolver.rs::ConstEvaluator<ExpressionPos>::eval_const
harness!(ge_double__int_long, 2, { bin!(GreaterOrEqual, double, int, ok); bin!(GreaterOrEqual, double, long, ok); });

//# harness ge_double__single_double tier=quick label=complete props=C14 fn=rusty_linter/src/core/const_value_resolver.rs::ConstEvaluator<ExpressionPos>::eval_const
harness!(ge_double__single_double, 2, { bin!(GreaterOrEqual, double, single, ok); bin!(GreaterOrEqual, double, double, ok); });

// ---- Greater
//# harness gt_int__int_long tier=quick label=complete props=C14 fn=rusty_linter/src/core/const_value_resolver.rs::ConstEvaluator<ExpressionPos>::eval_const
harness!(gt_int__int_long, 2, { bin!(Greater, int, int, ok); bin!(Greater, int, long, ok); });

//# harness gt_int__single_double tier=quick label=complete props=C14 fn=rusty_linter/src/core/const_value_resolver.rs::ConstEvaluator<ExpressionPos>::eval_const
harness!(gt_int__single_double, 2, { bin!(Greater, int, single, ok); bin!(Greater, int, double, ok); });

//# harness gt_long__int_long tier=quick label=complete props=C14 fn=rusty_linter/src/core/const_value_resolver.rs::ConstEvaluator<ExpressionPos>::eval_const
harness!(gt_long__int_long, 2, { bin!(Greater, long, int, ok); bin!(Greater, long, long, ok); });

//# harness gt_long__single_double tier=quick label=complete props=C14 fn=rusty_linter/src/core/const_value_resolver.rs::ConstEvaluator<ExpressionPos>::eval_const
harness!(gt_long__single_double, 2, { bin!(Greater, long, single, ok); bin!(Greater, long, double, ok); });

//# harness gt_single__int_long tier=quick label=complete props=C14 fn=rusty_linter/src/core/const_value_resolver.rs::ConstEvaluator<ExpressionPos>::eval_const
harness!(gt_single__int_long, 2, { bin!(Greater, single, int, ok); bin!(Greater, single, long, ok); });

//# harness gt_single__single_double tier=quick label=complete props=C14 fn=rusty_linter/src/core/const_value_resolver.rs::ConstEvaluator<ExpressionPos>::eval_const
harness!(gt_single__single_double, 2, { bin!(Greater, single, single, ok); bin!(Greater, single, double, ok); });

//# harness gt_double__int_long tier=quick label=complete props=C14 fn=rusty_linter/src/core/const_value_resolver.rs::ConstEvaluator<ExpressionPos>::eval_const
harness!(gt_double__int_long, 2, { bin!(Greater, double, int, ok); bin!(Greater, double, long, ok); });

//# harness gt_double__single_double tier=quick label=complete props=C14 fn=rusty_linter/src/core/const_value_resolver.rs::ConstEvaluator<ExpressionPos>::eval_const
harness!(gt_double__single_double, 2, { bin!(Greater, double, single, ok); bin!(Greater, double, double, ok); });

// ---- NotEqual
//# harness ne_int__int_long tier=quick label=complete props=C14 fn=rusty_linter/src/core/const_value_resolver.rs::ConstEvaluator<ExpressionPos>::eval_const
harness!(ne_int__int_long, 2, { bin!(NotEqual, int, int, ok); bin!(NotEqual, int, long, ok); });

//# harness ne_int__single_double tier=quick label=complete props=C14 fn=rusty_linter/src/core/const_value_resolver.rs::ConstEvaluator<ExpressionPos>::eval_const
harness!(ne_int__single_double, 2, { bin!(NotEqual, int, single, ok); bin!(NotEqual, int, double, ok); });

//# harness ne_long__int_long tier=quick label=complete props=C14 fn=rusty_linter/src/core/const_value_resolver.rs::ConstEvaluator<ExpressionPos>::eval_const
harness!(ne_long__int_long, 2, { bin!(NotEqual, long, int, ok); bin!(NotEqual, long, long, ok); });

//# harness ne_long__single_double tier=quick label=complete props=C14 fn=rusty_linter/src/core/const_value_resolver.rs::ConstEvaluator<ExpressionPos>::eval_const
harness!(ne_long__single_double, 2, { bin!(NotEqual, long, single, ok); bin!(NotEqual, long, double, ok); });

//# harness ne_single__int_long tier=quick label=complete props=C14 fn=rusty_linter/src/core/const_value_resolver.rs::ConstEvaluator<ExpressionPos>::eval_const
harness!(ne_single__int_long, 2, { bin!(NotEqual, single, int, ok); bin!(NotEqual, single, long, ok); });

//# harness ne_single__single_double tier=quick label=complete props=C14 fn=rusty_linter/src/core/const_value_resolver.rs::ConstEvaluator<ExpressionPos>::eval_const
harness!(ne_single__single_double, 2, { bin!(NotEqual, single, single, ok); bin!(NotEqual, single, double, ok); });

//# harness ne_double__int_long tier=quick label=complete props=C14 fn=rusty_linter/src/core/const_value_resolver.rs::ConstEvaluator<ExpressionPos>::eval_const
harness!(ne_double__int_long, 2, { bin!(NotEqual, double, int, ok); bin!(NotEqual, double, long, ok); });

//# harness ne_double__single_double tier=quick label=complete props=C14 fn=rusty_linter/src/core/const_value_resolver.rs::ConstEvaluator<ExpressionPos>::eval_const
harness!(ne_double__single_double, 2, { bin!(NotEqual, double, single, ok); bin!(NotEqual, double, double, ok); });

// ---- And: the VM casts both operands to INTEGER first (handlers/logical.rs)
//# harness and_int__int tier=quick label=complete props=C14 fn=rusty_linter/src/core/const_value_resolver.rs::ConstEvaluator<ExpressionPos>::eval_const
harness!(and_int__int, 18, { bin!(And, int, int, ok); });

// F7: with a LONG/SINGLE/DOUBLE operand the folder answers Type mismatch for *every* payload while the VM
// rounds to INTEGER and evaluates (or raises Overflow): the finding covers the whole kind pair, so there is
// no residual main harness; standalone=1 makes this an ordinary obligation when F7 is not listed open.
// Here: the pair of the reproduction (CONST X = 1.5 AND 2); all 15 pairs: unit const_step_slow.
//# harness finding_f7_and_single__int tier=quick label=complete props=C14 fn=rusty_linter/src/core/const_value_resolver.rs::ConstEvaluator<ExpressionPos>::eval_const expect=finding:F7 standalone=1
harness!(finding_f7_and_single__int, 18, { bin!(And, single, int, ok); });

// ---- Or: the VM casts both operands to INTEGER first (handlers/logical.rs)
//# harness or_int__int tier=quick label=complete props=C14 fn=rusty_linter/src/core/const_value_resolver.rs::ConstEvaluator<ExpressionPos>::eval_const
harness!(or_int__int, 18, { bin!(Or, int, int, ok); });

// F7: with a LONG/SINGLE/DOUBLE operand the folder answers Type mismatch for *every* payload while the VM
// rounds to INTEGER and evaluates (or raises Overflow): the finding covers the whole kind pair, so there is
// no residual main harness; standalone=1 makes this an ordinary obligation when F7 is not listed open.
// Here: the pair of the reproduction (CONST X = 1.5 AND 2); all 15 pairs: unit const_step_slow.
//# harness finding_f7_or_single__int tier=quick label=complete props=C14 fn=rusty_linter/src/core/const_value_resolver.rs::ConstEvaluator<ExpressionPos>::eval_const expect=finding:F7 standalone=1
harness!(finding_f7_or_single__int, 18, { bin!(Or, single, int, ok); });

// ---- unary operators
//# harness neg_int tier=quick label=complete props=C14 fn=rusty_linter/src/core/const_value_resolver.rs::ConstEvaluator<ExpressionPos>::eval_const
harness!(neg_int, 2, { un!(Minus, int, both); });

//# harness neg_long tier=quick label=complete props=C14 fn=rusty_linter/src/core/const_value_resolver.rs::ConstEvaluator<ExpressionPos>::eval_const
harness!(neg_long, 2, { un!(Minus, long, both); });

//# harness neg_single tier=quick label=complete props=C14 fn=rusty_linter/src/core/const_value_resolver.rs::ConstEvaluator<ExpressionPos>::eval_const
harness!(neg_single, 2, { un!(Minus, single, ok); });

//# harness neg_double tier=quick label=complete props=C14 fn=rusty_linter/src/core/const_value_resolver.rs::ConstEvaluator<ExpressionPos>::eval_const
harness!(neg_double, 2, { un!(Minus, double, ok); });

//# harness not_int tier=quick label=complete props=C14 fn=rusty_linter/src/core/const_value_resolver.rs::ConstEvaluator<ExpressionPos>::eval_const
harness!(not_int, 2, { un!(Not, int, ok); });

//# harness not_long tier=quick label=complete props=C14 fn=rusty_linter/src/core/const_value_resolver.rs::ConstEvaluator<ExpressionPos>::eval_const
harness!(not_long, 2, { un!(Not, long, ok); });

//# harness not_single tier=quick label=complete props=C14 fn=rusty_linter/src/core/const_value_resolver.rs::ConstEvaluator<ExpressionPos>::eval_const
harness!(not_single, 2, { un!(Not, single, ok); });

//# harness not_double tier=quick label=complete props=C14 fn=rusty_linter/src/core/const_value_resolver.rs::ConstEvaluator<ExpressionPos>::eval_const
harness!(not_double, 2, { un!(Not, double, ok); });

// ---- parenthesis
//# harness paren_int tier=quick label=complete props=C14 fn=rusty_linter/src/core/const_value_resolver.rs::ConstEvaluator<ExpressionPos>::eval_const
harness!(paren_int, 2, { let c = lit!(int); let s = step_paren(c); assert!(s.agree, "CONST X = (literal) differs from the literal"); reach!(s.ok); });

//# harness paren_long tier=quick label=complete props=C14 fn=rusty_linter/src/core/const_value_resolver.rs::ConstEvaluator<ExpressionPos>::eval_const
harness!(paren_long, 2, { let c = lit!(long); let s = step_paren(c); assert!(s.agree, "CONST X = (literal) differs from the literal"); reach!(s.ok); });

//# harness paren_single tier=quick label=complete props=C14 fn=rusty_linter/src/core/const_value_resolver.rs::ConstEvaluator<ExpressionPos>::eval_const
harness!(paren_single, 2, { let c = lit!(single); let s = step_paren(c); assert!(s.agree, "CONST X = (literal) differs from the literal"); reach!(s.ok); });

//# harness paren_double tier=quick label=complete props=C14 fn=rusty_linter/src/core/const_value_resolver.rs::ConstEvaluator<ExpressionPos>::eval_const
harness!(paren_double, 2, { let c = lit!(double); let s = step_paren(c); assert!(s.agree, "CONST X = (literal) differs from the literal"); reach!(s.ok); });

//# harness paren_str0 tier=quick label=bounded(strlen<=1) props=C14 fn=rusty_linter/src/core/const_value_resolver.rs::ConstEvaluator<ExpressionPos>::eval_const
harness!(paren_str0, 2, { let c = lit!(str0); let s = step_paren(c); assert!(s.agree, "CONST X = (literal) differs from the literal"); reach!(s.ok); });

//# harness paren_str1 tier=quick label=bounded(strlen<=1) props=C14 fn=rusty_linter/src/core/const_value_resolver.rs::ConstEvaluator<ExpressionPos>::eval_const
harness!(paren_str1, 2, { let c = lit!(str1); let s = step_paren(c); assert!(s.agree, "CONST X = (literal) differs from the literal"); reach!(s.ok); });
