//# unit peek_seg0 kind=kani_in crate=rusty_basic inject=rusty_basic/src/interpreter/built_ins/peek.rs
// C08 -- "never ends in an internal failure such as a panic": PEEK with DEF SEG = 0 goes through `zero_seg(address)`.
// Contract: for EVERY address other than the one the keyboard-indicator byte lives at (1047: an operating-system call,
// outside every contract) the function returns a BASIC-level outcome -- it never panics.  Loop-free, the whole usize domain.

//# harness zero_seg_total tier=quick label=complete props=C08,C19 fn=rusty_basic/src/interpreter/built_ins/peek.rs::zero_seg
harness!(zero_seg_total, 2, {
    let address = vs::usize();
    vs::assume(address != INDICATOR_KEYS_ADDRESS);
    let r = zero_seg(address);
    // reading low memory that is not emulated is an error the program can trap, not a crash
    assert!(r.is_err(), "PEEK in segment 0 outside the emulated byte must be a run-time error");
    reach!(address == 0);
    reach!(address == 1048);
    std::mem::forget(r);
});
