//# unit int_bits kind=kani_in crate=rusty_variant inject=rusty_variant/src/bits.rs
//! C19 — bit-level primitives, integer half (complete) and IEEE-754 half (attempts).
//! Contract (from the property statement):
//!  * AND / OR on INTEGER values are the bitwise operations on 16-bit two's-complement words,
//!    for ALL 2^32 operand pairs; NOT is the bitwise complement of the word;
//!  * converting any INTEGER to bytes yields that word, low byte first, and converting back is the
//!    identity (both directions: all 65536 values, all 65536 byte pairs);
//!  * `BitVec::from(i)` holds bit (15-j) of the word at position j and `i32::from` inverts it;
//!  * MKD$ (`f64_to_bytes`) yields the IEEE-754 binary64 encoding, least significant byte first, and
//!    CVD (`bytes_to_f64`) is its inverse.
//! The loops under contract are bounded by the word width (16 / 8 iterations; Vec growth), unwound 18 with
//! unwinding assertions on: complete.  Since the repair of F11/F12 the f64 encoder is `f.to_bits().to_le_bytes()`
//! (loop-free) and the decoder folds the 8 bytes into a u64 (8 iterations, unwound 10) and calls `f64::from_bits`:
//! both are under contract for ALL 2^64 bit patterns except the NaN patterns (the property statement does not
//! say what NaN does; Rust does not promise to preserve NaN payloads either).

use crate::Variant;

fn word(i: i16) -> i32 {
    i as i32
}

//# harness and_all_pairs tier=quick label=complete props=C19 fn=rusty_variant/src/bits.rs::qb_and
harness!(and_all_pairs, 18, {
    let a = vs::i16();
    let b = vs::i16();
    let r = qb_and(word(a), word(b));
    assert!(r == word(a & b), "AND is not the bitwise AND of the 16-bit words");
    reach!(r == -32768);
    reach!(r == 0x1234);
});

//# harness or_all_pairs tier=quick label=complete props=C19 fn=rusty_variant/src/bits.rs::qb_or
harness!(or_all_pairs, 18, {
    let a = vs::i16();
    let b = vs::i16();
    let r = qb_or(word(a), word(b));
    assert!(r == word(a | b), "OR is not the bitwise OR of the 16-bit words");
    reach!(r == -1);
    reach!(r == 0x1234);
});

//# harness not_integer tier=quick label=complete props=C19,C06 fn=rusty_variant/src/variant.rs::Variant::unary_not
harness!(not_integer, 2, {
    let a = vs::i16();
    let r = Variant::VInteger(word(a)).unary_not();
    let ok = matches!(r, Ok(Variant::VInteger(n)) if n == word(!a));
    assert!(ok, "NOT is not the bitwise complement of the 16-bit word");
    reach!(a == i16::MIN);
    reach!(a == i16::MAX);
    std::mem::forget(r);
});

//# harness i32_to_bytes_le tier=quick label=complete props=C19 fn=rusty_variant/src/bits.rs::i32_to_bytes
harness!(i32_to_bytes_le, 18, {
    let a = vs::i16();
    let b = i32_to_bytes(word(a));
    assert!(b == a.to_le_bytes(), "bytes of an INTEGER are not its 16-bit word, low byte first");
    reach!(b[0] == 0x34 && b[1] == 0x92);
});

//# harness bytes_to_i32_le tier=quick label=complete props=C19 fn=rusty_variant/src/bits.rs::bytes_to_i32
harness!(bytes_to_i32_le, 18, {
    let lo = vs::u8();
    let hi = vs::u8();
    let i = bytes_to_i32([lo, hi]);
    assert!(i == word(i16::from_le_bytes([lo, hi])), "the word read from (low, high) is not the INTEGER they encode");
    assert!((-32768..=32767).contains(&i), "result outside the INTEGER range");
    reach!(i == -32768);
    reach!(i == 0x1234);
});

//# harness int_bytes_roundtrip tier=quick label=complete props=C19 fn=rusty_variant/src/bits.rs::bytes_to_i32
harness!(int_bytes_roundtrip, 18, {
    let a = vs::i16();
    assert!(bytes_to_i32(i32_to_bytes(word(a))) == word(a), "INTEGER -> bytes -> INTEGER is not the identity");
    reach!(a == -2);
});

//# harness bytes_int_roundtrip tier=quick label=complete props=C19 fn=rusty_variant/src/bits.rs::i32_to_bytes
harness!(bytes_int_roundtrip, 18, {
    let lo = vs::u8();
    let hi = vs::u8();
    assert!(i32_to_bytes(bytes_to_i32([lo, hi])) == [lo, hi], "bytes -> INTEGER -> bytes is not the identity");
    reach!(lo == 0xff && hi == 0x7f);
});

//# harness bitvec_roundtrip tier=quick label=complete props=C19 fn=rusty_bit_vec/src/lib.rs::From<i32>::from
harness!(bitvec_roundtrip, 18, {
    let a = vs::i16();
    let bv = BitVec::from(word(a));
    assert!(bv.len() == INT_BITS, "an INTEGER bit vector has 16 entries");
    // msb -> lsb: entry j is bit 15-j of the two's-complement word
    let j = vs::usize();
    vs::assume(j < 16);
    let bit = ((a as u16) >> (15 - j)) & 1 == 1;
    assert!(bv[j] == bit, "entry j of the bit vector is not bit 15-j of the word");
    let back: i32 = bv.into();
    assert!(back == word(a), "INTEGER -> BitVec -> INTEGER is not the identity");
    reach!(a == i16::MIN && j == 0);
    reach!(a == 1 && j == 15);
});

// ---------------------------------------------------------------------------------------------
// IEEE-754 half: complete over every non-NaN bit pattern (finite doubles of every magnitude, subnormals, +0, -0,
// +inf, -inf).  Equalities are stated on BITS (`to_bits`, byte arrays), never with the float `==`, so that
// -0.0 / +0.0 and a lost sign or a lost low bit cannot hide.
// ---------------------------------------------------------------------------------------------

/// the bit patterns on which the contract speaks: everything but NaN (exponent field all ones, fraction non-zero)
fn is_nan_pattern(bits: u64) -> bool {
    (bits & 0x7ff0_0000_0000_0000) == 0x7ff0_0000_0000_0000 && (bits & 0x000f_ffff_ffff_ffff) != 0
}

//# harness mkd_ieee754_all tier=quick label=complete props=C19 fn=rusty_variant/src/bits.rs::f64_to_bytes timeout=900
harness!(mkd_ieee754_all, 10, {
    let pattern = vs::u64();
    vs::assume(!is_nan_pattern(pattern));
    let x = f64::from_bits(pattern);
    let bytes = f64_to_bytes(x);
    // sign, 11 exponent bits, 52 fraction bits of the binary64 encoding, least significant byte first
    assert!(bytes == pattern.to_le_bytes(), "MKD$ is not the IEEE-754 binary64 encoding (least significant byte first)");
    assert!((bytes[7] & 0x80 != 0) == x.is_sign_negative(), "byte 8 of MKD$ does not carry the sign");
    reach!(x == -1.5);
    reach!(x == 1.6e20);                                // beyond 2^63 (F11)
    reach!(x == 1e-310);                                // subnormal (F12)
    reach!(pattern == 0x8000_0000_0000_0000);           // -0.0
    reach!(pattern == 1);                               // smallest subnormal
    reach!(x == f64::MAX);
    reach!(x == f64::NEG_INFINITY);
});

//# harness cvd_ieee754_all tier=quick label=complete props=C19 fn=rusty_variant/src/bits.rs::bytes_to_f64 timeout=900
harness!(cvd_ieee754_all, 10, {
    let pattern = vs::u64();
    vs::assume(!is_nan_pattern(pattern));
    let bytes = pattern.to_le_bytes();
    let x = bytes_to_f64(&bytes);
    assert!(x.to_bits() == pattern, "CVD is not the double whose IEEE-754 binary64 encoding the eight bytes are");
    assert!(!x.is_nan(), "CVD yields NaN for bytes that do not encode a NaN");
    reach!(x == 2.0);
    reach!(x == -1.6e20);
    reach!(x == 1e-310);
    reach!(pattern == 0x8000_0000_0000_0000 && x == 0.0 && x.is_sign_negative());
    reach!(x == f64::MIN_POSITIVE);
    reach!(x == f64::INFINITY);
});

//# harness mkd_cvd_roundtrip tier=quick label=complete props=C19 fn=rusty_variant/src/bits.rs::bytes_to_f64 timeout=900
harness!(mkd_cvd_roundtrip, 10, {
    let x = vs::f64();
    vs::assume(!x.is_nan());
    let back = bytes_to_f64(&f64_to_bytes(x));
    assert!(back.to_bits() == x.to_bits(), "CVD(MKD$(x)) is not x, bit for bit");
    assert!(back == x, "CVD(MKD$(x)) <> x");
    reach!(x.abs() >= 9223372036854775808.0 && x.is_finite());   // |x| >= 2^63
    reach!(x != 0.0 && x.abs() < f64::MIN_POSITIVE);             // subnormal
    reach!(x == 0.0 && x.is_sign_negative());
    reach!(x == 0.1);
});

//# harness cvd_mkd_roundtrip tier=quick label=complete props=C19 fn=rusty_variant/src/bits.rs::f64_to_bytes timeout=900
harness!(cvd_mkd_roundtrip, 10, {
    let pattern = vs::u64();
    vs::assume(!is_nan_pattern(pattern));
    let bytes = pattern.to_le_bytes();
    assert!(f64_to_bytes(bytes_to_f64(&bytes)) == bytes, "MKD$(CVD(s)) is not s for eight bytes that do not encode a NaN");
    reach!(bytes[7] == 0x80 && bytes[0] == 1);
    reach!(bytes[7] == 0x7f && bytes[6] == 0xef);
});

// concrete witnesses of the encoder (every loop runs on concrete data)
//# harness mkd_example_a tier=quick label=bounded(1-concrete-double) props=C19 fn=rusty_variant/src/bits.rs::f64_to_bytes
harness!(mkd_example_a, 1100, {
    let x: f64 = -100.25;
    let bytes = f64_to_bytes(x);
    assert!(bytes == x.to_le_bytes(), "MKD$(-100.25) differs from the IEEE-754 encoding");
});

//# harness mkd_example_b tier=quick label=bounded(1-concrete-double) props=C19 fn=rusty_variant/src/bits.rs::f64_to_bytes
harness!(mkd_example_b, 1100, {
    let x: f64 = 0.1;
    let bytes = f64_to_bytes(x);
    assert!(bytes == x.to_le_bytes(), "MKD$(0.1) differs from the IEEE-754 encoding");
});

// Finding F11 (repaired; kept as a regression witness): for |x| >= 2^63 the encoder's `trunc() as i64` saturated,
// so MKD$ yielded the bytes of (about) 2^63 whatever x was: CVD(MKD$(1.6E+20)) = 9223372036854775000.
//# harness finding_f11_mkd_beyond_2_63 tier=quick label=bounded(1-concrete-double) props=C19 fn=rusty_variant/src/bits.rs::f64_to_bytes expect=finding:F11
harness!(finding_f11_mkd_beyond_2_63, 1100, {
    let x: f64 = 1.6e20;
    let bytes = f64_to_bytes(x);
    assert!(bytes == x.to_le_bytes(), "MKD$(1.6E+20) is not the IEEE-754 encoding of 1.6E+20");
});

// Finding F12 (repaired; kept as a regression witness): doubles below 2^-1023 (subnormals) were flushed to zero
// by the encoder: CVD(MKD$(1E-310)) = 0.
//# harness finding_f12_mkd_subnormal tier=quick label=bounded(1-concrete-double) props=C19 fn=rusty_variant/src/bits.rs::f64_to_bytes expect=finding:F12
harness!(finding_f12_mkd_subnormal, 1100, {
    let x: f64 = 1e-310;
    let bytes = f64_to_bytes(x);
    assert!(bytes == x.to_le_bytes(), "MKD$(1E-310) is not the IEEE-754 encoding of 1E-310");
});
