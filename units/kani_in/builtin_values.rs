//# unit builtin_values kind=kani_in crate=rusty_basic inject=rusty_basic/src/interpreter/built_ins/mod.rs stubbing=1
//# support mock_interpreter.rs
// The built-in FUNCTION WRAPPERS `built_ins::{mkd,cvd,lbound,ubound,str_fn,val,chr}::run<S: InterpreterTrait>` under contract,
// the WHOLE wrapper (argument fetch, conversion, kernel, string <-> byte mapping of string_utils, result slot), driven through the
// mock interpreter of units/support/mock_interpreter.rs.  Under Kani `Variables::get` / `Context::set_built_in_function_result`
// are contract stubs ("argument i of the call" / "the result slot of f holds v"); a counterexample is replayed natively through
// the real Context.  Every postcondition is taken from a property statement:
//   C19  MKD$ yields the eight bytes of the IEEE-754 binary64 encoding, least significant first; CVD is its exact inverse;
//        CVD(MKD$(x)) = x for every finite double x.
//   C04  LBOUND/UBOUND report the declared bounds.
//   C17  VAL(STR$(k)) = k for every whole number k.   C16 (STR$ uses PRINT's rule): a number is written with a leading space or
//        minus sign.   C06: a numeric value is of a type that holds it (INTEGER -32768..32767, LONG the 32-bit range).
//   C08  never a panic: a wrapper ends with Ok or a BASIC run-time error.
// Common frame clause of every harness: on Ok exactly ONE result slot was written and it is the slot of the function that ran
// (`result_of(&m, F)`); on Err NO result slot was written (`results_written(&m) == 0`).
// "The character with code c" (c in 0..=255) is the Rust char U+00cc -- the convention of string_utils::to_ascii_string /
// to_ascii_bytes and of CHR$/ASC; in the String's UTF-8 bytes that is one byte below 128 and the pair (0xC0|c>>6, 0x80|c&0x3F)
// from 128 on.  The oracles below compare on those bytes, so that they do not share code with the functions under contract.
//# assume "modular: Variables::get(i) is replaced by 'the i-th positional argument of the call' and Context::set_built_in_function_result(f, v) by 'slot f holds v' (contract stubs of mock_interpreter.rs; the real Context runs in the native replay); RandomState::new fixed"
//# assume "capacity abstraction of std (harness_bi!(.., std_caps, ..)): String::new / String::with_capacity / Vec::with_capacity reserve 32 bytes at once, String::reserve and String::push_str assert that this capacity suffices instead of growing -- each within the documented contract of the std function; contents are computed by the real code (mock_interpreter.rs); natively the real std runs"
//# assume "LBOUND/UBOUND: three concrete array shapes of rank 1..3 (bounded stand-in; the dimension argument is fully symbolic); attempt=1 on the present tree: the wrappers clone and drop the whole array, which CBMC does not get through (PROPOSED_FINDINGS.md); twelve more obligations parked in attic/builtin_values_bounds_more.rs.txt"
// Tiers: quick = MKD$ (DOUBLE, INTEGER argument), CVD, CVD of other lengths (F50), CHR$, STR$ over all INTEGER, VAL kind at the
// INTEGER boundaries; thorough = MKD$ (LONG, SINGLE argument), CVD(MKD$(x)) through both wrappers, VAL over the text of every
// INTEGER, VAL(STR$(k)) through both wrappers, LONG-range variants (attempts where CBMC did not finish in 600 s).
// The composition CVD(MKD$(x)) = x also follows from the two quick halves: MKD$(x) is the 8 characters with the codes of x's
// bytes (mkd_double_all), and CVD of the 8 characters with codes b is from_bits(b) (cvd_8_chars_all).  Likewise VAL(STR$(k)) = k for
// every INTEGER k follows from str_integer_all (STR$(k) is the oracle text of k) and val_of_integer_text_all (VAL of the oracle
// text of k is k, as an INTEGER).

// ---------------------------------------------------------------------------------------------------------------------------
// oracles (written from the property statements, independent of the code under contract)
// ---------------------------------------------------------------------------------------------------------------------------

/// `s` consists of exactly the characters with the codes `codes[0], codes[1], ...` (in that order, nothing else)
fn is_chars_with_codes(s: &str, codes: &[u8]) -> bool {
    let raw = s.as_bytes();
    let mut p: usize = 0;
    let mut k: usize = 0;
    while k < codes.len() {
        let c = codes[k];
        if c < 128 {
            if p >= raw.len() || raw[p] != c {
                return false;
            }
            p += 1;
        } else {
            if p + 1 >= raw.len() || raw[p] != (0xC0 | (c >> 6)) || raw[p + 1] != (0x80 | (c & 0x3F)) {
                return false;
            }
            p += 2;
        }
        k += 1;
    }
    p == raw.len()
}

/// the string whose characters have the given codes
fn string_of_codes(codes: &[u8]) -> String {
    let mut s = String::new();
    let mut k: usize = 0;
    while k < codes.len() {
        s.push(char::from(codes[k]));
        k += 1;
    }
    s
}

/// everything but NaN (exponent field all ones, fraction non-zero)
fn is_nan_pattern(bits: u64) -> bool {
    (bits & 0x7ff0_0000_0000_0000) == 0x7ff0_0000_0000_0000 && (bits & 0x000f_ffff_ffff_ffff) != 0
}

fn res_string(m: &MockI, f: BuiltInFunction) -> Option<&String> {
    match result_of(m, f) {
        Some(Variant::VString(s)) => Some(s),
        _ => None,
    }
}

/// postcondition of MKD$(v) where the DOUBLE value of the argument is `x`
fn mkd_post(m: &MockI, r: &Result<(), RuntimeError>, x: f64) {
    assert!(r.is_ok(), "MKD$ of a finite number must not fail");
    let expected: [u8; 8] = x.to_bits().to_le_bytes();
    let ok = match res_string(m, BuiltInFunction::Mkd) {
        Some(s) => is_chars_with_codes(s, &expected),
        None => false,
    };
    assert!(ok, "MKD$(x) is not the 8 characters whose codes are the IEEE-754 binary64 bytes of x, least significant first");
    assert!(results_written(m) == 1, "MKD$ writes exactly its own result slot");
}

// ---------------------------------------------------------------------------------------------------------------------------
// C19 -- MKD$
// ---------------------------------------------------------------------------------------------------------------------------

//# harness mkd_double_all tier=quick label=complete props=C19,C08 fn=rusty_basic/src/interpreter/built_ins/mkd.rs::run,rusty_basic/src/interpreter/string_utils.rs::to_ascii_string timeout=900
harness_bi!(mkd_double_all, 20, std_caps, {
    let x = vs::f64();
    vs::assume(x.is_finite());
    let mut m = mock_with_arg1(Variant::VDouble(x));
    let r = mkd::run(&mut m);
    mkd_post(&m, &r, x);
    reach!(x == -1.5);
    reach!(x == 1.6e20);
    reach!(x == 1e-310);
    reach!(x == 0.0 && x.is_sign_negative());
    reach!(x == f64::MAX);
    std::mem::forget(r);
    std::mem::forget(m);
});

//# harness mkd_integer_arg tier=quick label=complete props=C19,C08 fn=rusty_basic/src/interpreter/built_ins/mkd.rs::run timeout=900
harness_bi!(mkd_integer_arg, 20, std_caps, {
    let k = vs::i16();
    let mut m = mock_with_arg1(Variant::VInteger(k as i32));
    let r = mkd::run(&mut m);
    mkd_post(&m, &r, k as f64);
    reach!(k == -32768);
    reach!(k == 2);
    std::mem::forget(r);
    std::mem::forget(m);
});

//# harness mkd_long_arg tier=thorough label=complete props=C19,C08 fn=rusty_basic/src/interpreter/built_ins/mkd.rs::run timeout=900
harness_bi!(mkd_long_arg, 20, std_caps, {
    let k = vs::i32();
    let mut m = mock_with_arg1(Variant::VLong(k as i64));
    let r = mkd::run(&mut m);
    mkd_post(&m, &r, k as f64);
    reach!(k == i32::MIN);
    reach!(k == i32::MAX);
    std::mem::forget(r);
    std::mem::forget(m);
});

//# harness mkd_single_arg tier=thorough label=complete props=C19,C08 fn=rusty_basic/src/interpreter/built_ins/mkd.rs::run timeout=900
harness_bi!(mkd_single_arg, 20, std_caps, {
    let f = vs::f32();
    vs::assume(f.is_finite());
    let mut m = mock_with_arg1(Variant::VSingle(f));
    let r = mkd::run(&mut m);
    mkd_post(&m, &r, f as f64);
    reach!(f == 0.1f32);
    reach!(f == f32::MAX);
    reach!(f != 0.0 && f.abs() < f32::MIN_POSITIVE);
    std::mem::forget(r);
    std::mem::forget(m);
});

// ---------------------------------------------------------------------------------------------------------------------------
// C19 -- CVD
// ---------------------------------------------------------------------------------------------------------------------------

//# harness cvd_8_chars_all tier=quick label=complete props=C19,C08 fn=rusty_basic/src/interpreter/built_ins/cvd.rs::run,rusty_basic/src/interpreter/string_utils.rs::to_ascii_bytes timeout=900
harness_bi!(cvd_8_chars_all, 20, std_caps, {
    let pattern = vs::u64();
    vs::assume(!is_nan_pattern(pattern));
    let b: [u8; 8] = pattern.to_le_bytes();
    let mut m = mock_with_arg1(Variant::VString(string_of_codes(&b)));
    let r = cvd::run(&mut m);
    assert!(r.is_ok(), "CVD of eight characters must not fail");
    let ok = matches!(result_of(&m, BuiltInFunction::Cvd), Some(Variant::VDouble(d)) if d.to_bits() == u64::from_le_bytes(b));
    assert!(ok, "CVD(s) is not the DOUBLE whose IEEE-754 binary64 encoding the eight character codes are (least significant first)");
    assert!(results_written(&m) == 1, "CVD writes exactly its own result slot");
    reach!(b[7] == 0x40 && b[6] == 0 && b[0] == 0);       // 2.0, all ASCII
    reach!(b[7] == 0xC0 && b[0] == 0xFF);                 // codes >= 128 at both ends
    reach!(pattern == 0x8000_0000_0000_0000);             // -0.0
    reach!(pattern == 1);                                 // smallest subnormal
    std::mem::forget(r);
    std::mem::forget(m);
});

// The property is silent about strings that are not 8 characters long; C08 is not: the call must end with Ok or a BASIC error.
//# harness cvd_other_lengths_no_panic tier=quick label=bounded(len<=10,one-symbolic-code-repeated) props=C08 fn=rusty_basic/src/interpreter/built_ins/cvd.rs::run timeout=900 expect=finding:F50 standalone=1
harness_bi!(cvd_other_lengths_no_panic, 24, std_caps, {
    let n = vs::choice(11) as usize;
    vs::assume(n != 8);
    let c = vs::u8();
    let mut codes: Vec<u8> = Vec::new();
    let mut k = 0;
    while k < n {
        codes.push(c);
        k += 1;
    }
    let mut m = mock_with_arg1(Variant::VString(string_of_codes(&codes)));
    let r = cvd::run(&mut m);      // reaching a panic fails the obligation
    match &r {
        Ok(()) => assert!(matches!(result_of(&m, BuiltInFunction::Cvd), Some(Variant::VDouble(_))) && results_written(&m) == 1, "CVD writes a DOUBLE into its own slot"),
        Err(_) => assert!(results_written(&m) == 0, "no result slot is written on error"),
    }
    reach!(n == 0);
    reach!(n == 9);
    std::mem::forget(r);
    std::mem::forget(m);
});

// ---------------------------------------------------------------------------------------------------------------------------
// C19 -- CVD(MKD$(x)) = x through both wrappers
// ---------------------------------------------------------------------------------------------------------------------------

//# harness cvd_of_mkd_roundtrip tier=thorough label=complete props=C19 fn=rusty_basic/src/interpreter/built_ins/cvd.rs::run,rusty_basic/src/interpreter/built_ins/mkd.rs::run timeout=1200
harness_bi!(cvd_of_mkd_roundtrip, 20, std_caps, {
    let x = vs::f64();
    vs::assume(!x.is_nan());
    let mut m1 = mock_with_arg1(Variant::VDouble(x));
    let r1 = mkd::run(&mut m1);
    assert!(r1.is_ok());
    assert!(results_written(&m1) == 1);
    let s: Variant = match take_result(&mut m1, BuiltInFunction::Mkd) {
        Some(v) => v,
        None => {
            assert!(false, "MKD$ wrote no result into its slot");
            Variant::VInteger(0)
        }
    };
    assert!(matches!(s, Variant::VString(_)), "MKD$ yields a string");
    let mut m2 = mock_with_arg1(s);
    let r2 = cvd::run(&mut m2);
    assert!(r2.is_ok());
    let ok = matches!(result_of(&m2, BuiltInFunction::Cvd), Some(Variant::VDouble(d)) if d.to_bits() == x.to_bits());
    assert!(ok, "CVD(MKD$(x)) is not x, bit for bit");
    reach!(x.abs() >= 9223372036854775808.0 && x.is_finite());
    reach!(x != 0.0 && x.abs() < f64::MIN_POSITIVE);
    reach!(x == 0.0 && x.is_sign_negative());
    reach!(x == 0.1);
    std::mem::forget(r1);
    std::mem::forget(r2);
    std::mem::forget(m1);
    std::mem::forget(m2);
});

// ---------------------------------------------------------------------------------------------------------------------------
// C04 -- LBOUND / UBOUND report the declared bounds
// Three concrete shapes (all lower and upper bounds pairwise different, so that a swapped bound or a neighbouring dimension shows):
//   A(-1 TO 1)      A(0 TO 1, -3 TO -2)      A(1 TO 2, -1 TO 0, 3 TO 5)
// The dimension argument d is fully symbolic within its kind.  With x the exact value of d:
//   Ok  => for some n in 1..=rank with |x - n| <= 0.5 the slot of the function holds the INTEGER lower (upper) bound declared for
//          dimension n, and exactly one slot was written;
//   Err => no slot written, and either Subscript out of range with x <= 0.5 or x >= rank + 0.5, or (a d that does not fit INTEGER,
//          C06) Overflow with x >= 32767.5 or x <= -32768.5;   never a panic or an arithmetic underflow of `dimension - 1`.
// For an INTEGER d this is: Ok exactly when 1 <= d <= rank.  An exact tie (x = k + 0.5) may round either way.
// ---------------------------------------------------------------------------------------------------------------------------
use rusty_variant::VArray;

const SHAPES: [[(i32, i32); 3]; 3] = [[(-1, 1), (0, 0), (0, 0)], [(0, 1), (-3, -2), (0, 0)], [(1, 2), (-1, 0), (3, 5)]];

fn array_of_rank(rank: usize) -> Variant {
    let d = &SHAPES[rank - 1];
    let mut dims: Vec<(i32, i32)> = Vec::new();
    let mut k = 0;
    while k < rank {
        dims.push(d[k]);
        k += 1;
    }
    Variant::VArray(Box::new(VArray::new(dims, Variant::VInteger(0))))
}

fn declared_bound(rank: usize, n: usize, upper: bool) -> i32 {
    let d = SHAPES[rank - 1][n - 1];
    if upper { d.1 } else { d.0 }
}

/// runs LBOUND (upper = false) or UBOUND (upper = true) on the array of the given rank with the optional dimension argument
/// `dim` whose exact value is `x`, and checks the contract above
fn check_bound(upper: bool, rank: usize, dim: Option<Variant>, x: f64) {
    let f = if upper { BuiltInFunction::UBound } else { BuiltInFunction::LBound };
    let other = if upper { BuiltInFunction::LBound } else { BuiltInFunction::UBound };
    let mut m = match dim {
        Some(d) => mock_with_arg2(array_of_rank(rank), d),
        None => mock_with_arg1(array_of_rank(rank)),
    };
    let r = if upper { ubound::run(&mut m) } else { lbound::run(&mut m) };
    match &r {
        Ok(()) => {
            let mut found = false;
            let mut n = 1;
            while n <= rank {
                let near = x - (n as f64) <= 0.5 && (n as f64) - x <= 0.5;
                if near && matches!(result_of(&m, f), Some(Variant::VInteger(b)) if *b == declared_bound(rank, n, upper)) {
                    found = true;
                }
                n += 1;
            }
            assert!(found, "LBOUND/UBOUND(a, d) is not the declared lower/upper bound of dimension d");
            assert!(result_of(&m, other).is_none() && results_written(&m) == 1, "exactly the function's own result slot is written");
        }
        Err(e) => {
            assert!(results_written(&m) == 0, "no result slot is written on error");
            let subscript = matches!(e, RuntimeError::SubscriptOutOfRange);
            let overflow = matches!(e, RuntimeError::Overflow);
            assert!(subscript || overflow, "a dimension outside 1..=rank raises Subscript out of range (Overflow if it does not fit INTEGER)");
            if subscript {
                assert!(x <= 0.5 || x >= rank as f64 + 0.5, "Subscript out of range for a dimension inside 1..=rank");
            } else {
                assert!(x >= 32767.5 || x <= -32768.5, "Overflow for a dimension that fits INTEGER");
            }
        }
    }
    std::mem::forget(r);
    std::mem::forget(m);
}

//# harness lbound_rank1_integer tier=thorough attempt=1 label=bounded(shape=A(-1..1)) props=C04,C08 fn=rusty_basic/src/interpreter/built_ins/lbound.rs::run timeout=240
harness_bi!(lbound_rank1_integer, 14, {
    let d = vs::i16();
    check_bound(false, 1, Some(Variant::VInteger(d as i32)), d as f64);
    reach!(d == 0);
    reach!(d == 1);
    reach!(d == 2);
    reach!(d == -32768);
});

//# harness lbound_rank3_double tier=thorough attempt=1 label=bounded(shape=A(1..2,-1..0,3..5)) props=C04,C08 fn=rusty_basic/src/interpreter/built_ins/lbound.rs::run timeout=240
harness_bi!(lbound_rank3_double, 14, {
    let d = vs::f64();
    vs::assume(d.is_finite());
    check_bound(false, 3, Some(Variant::VDouble(d)), d);
    reach!(d == 3.0);
    reach!(d == 3.75);
    reach!(d == 0.49);
    reach!(d == -1.0e300);
});

//# harness ubound_rank3_integer tier=thorough attempt=1 label=bounded(shape=A(1..2,-1..0,3..5)) props=C04,C08 fn=rusty_basic/src/interpreter/built_ins/ubound.rs::run timeout=240
harness_bi!(ubound_rank3_integer, 14, {
    let d = vs::i16();
    check_bound(true, 3, Some(Variant::VInteger(d as i32)), d as f64);
    reach!(d == 0);
    reach!(d == 3);
    reach!(d == 4);
    reach!(d == -32768);
});

//# harness ubound_rank1_default tier=thorough attempt=1 label=bounded(shape=A(-1..1)) props=C04,C08 fn=rusty_basic/src/interpreter/built_ins/ubound.rs::run timeout=240
harness_bi!(ubound_rank1_default, 14, {
    check_bound(true, 1, None, 1.0);
});

// ---------------------------------------------------------------------------------------------------------------------------
// C17 -- CHR$(n), n in 0..=255, is the one-character string with that code (exactly one character: LEN = 1, stated on the
// string itself; the LEN wrapper is not composed here: `byte_size` matches on a string Variant whose discriminant lives in the
// niche of the String capacity, CBMC then explores the record and array arms -- no result in 300 s).
// What CHR$ does outside 0..=255 is not in the property and not claimed here.
// ---------------------------------------------------------------------------------------------------------------------------

fn chr_post(m: &MockI, r: &Result<(), RuntimeError>, n: u8) {
    assert!(r.is_ok(), "CHR$(n) with n in 0..=255 must not fail");
    let ok = match res_string(m, BuiltInFunction::Chr) {
        Some(s) => is_chars_with_codes(s, &[n]),
        None => false,
    };
    assert!(ok, "CHR$(n) is not the string of exactly one character, the one with code n (LEN = 1)");
    assert!(results_written(m) == 1, "CHR$ writes exactly its own result slot");
}

//# harness chr_integer_0_255 tier=quick label=complete props=C17,C08 fn=rusty_basic/src/interpreter/built_ins/chr.rs::run timeout=600
harness_bi!(chr_integer_0_255, 6, std_caps, {
    let n = vs::u8();
    let mut m = mock_with_arg1(Variant::VInteger(n as i32));
    let r = chr::run(&mut m);
    chr_post(&m, &r, n);
    reach!(n == 0);
    reach!(n == 65);
    reach!(n == 127);
    reach!(n == 128);
    reach!(n == 255);
    std::mem::forget(r);
    std::mem::forget(m);
});

//# harness chr_double_0_255 tier=quick label=complete props=C17,C08 fn=rusty_basic/src/interpreter/built_ins/chr.rs::run timeout=600
harness_bi!(chr_double_0_255, 6, std_caps, {
    let n = vs::u8();
    let mut m = mock_with_arg1(Variant::VDouble(n as f64));
    let r = chr::run(&mut m);
    chr_post(&m, &r, n);
    reach!(n == 200);
    std::mem::forget(r);
    std::mem::forget(m);
});

// ---------------------------------------------------------------------------------------------------------------------------
// C17 / C16 / C06 -- STR$ and VAL
//   STR$(k), k a whole number: a leading blank (k >= 0) or minus sign (k < 0) followed by the decimal digits of |k|   [C16's rule]
//   VAL(STR$(k)) = k                                                                                                  [C17]
//   VAL yields a value of a numeric type that holds it: INTEGER iff -32768..32767, LONG iff in the 32-bit range, else a float [C06]
// ---------------------------------------------------------------------------------------------------------------------------

/// the text the statement prescribes for STR$(k): sign position, then the decimal digits of |k| without leading zeros.
/// Returns the number of bytes written to `out`.
fn str_oracle(k: i64, out: &mut [u8; 12]) -> usize {
    let neg = k < 0;
    let mut mag: u64 = if neg { (-(k as i128)) as u64 } else { k as u64 };
    // digits, least significant first
    let mut tmp = [0u8; 11];
    let mut nd: usize = 0;
    while nd < 11 {
        tmp[nd] = b'0' + (mag % 10) as u8;
        mag /= 10;
        nd += 1;
        if mag == 0 {
            break;
        }
    }
    out[0] = if neg { b'-' } else { b' ' };
    let mut i: usize = 0;
    while i < nd {
        out[1 + i] = tmp[nd - 1 - i];
        i += 1;
    }
    1 + nd
}

fn str_post(m: &MockI, r: &Result<(), RuntimeError>, k: i64) {
    assert!(r.is_ok(), "STR$ of a whole number must not fail");
    let mut exp = [0u8; 12];
    let n = str_oracle(k, &mut exp);
    let ok = match res_string(m, BuiltInFunction::Str) {
        Some(s) => {
            let raw = s.as_bytes();
            let mut same = raw.len() == n;
            let mut i = 0;
            while i < 12 {
                if i < n && i < raw.len() && raw[i] != exp[i] {
                    same = false;
                }
                i += 1;
            }
            same
        }
        None => false,
    };
    assert!(ok, "STR$(k) is not a blank or minus sign followed by the decimal digits of |k|");
    assert!(results_written(m) == 1, "STR$ writes exactly its own result slot");
}

/// the value and kind VAL must yield for the whole number k (C06: the type holds the value)
fn val_post(m: &MockI, r: &Result<(), RuntimeError>, k: i64) {
    assert!(r.is_ok(), "VAL of the text of a whole number must not fail");
    // C06 / C12: what VAL stores is a value of the function's STATIC type (the type the checker gives every use of VAL: no cast
    // follows a use whose target has that type), and C17: numerically it is k
    let q = TypeQualifier::from(&BuiltInFunction::Val);
    let ok = match (q, result_of(m, BuiltInFunction::Val)) {
        (TypeQualifier::HashDouble, Some(Variant::VDouble(d))) => *d == k as f64,
        (TypeQualifier::BangSingle, Some(Variant::VSingle(f))) => *f as f64 == k as f64,
        (TypeQualifier::AmpersandLong, Some(Variant::VLong(l))) => *l == k && (-2147483648..=2147483647).contains(&k),
        (TypeQualifier::PercentInteger, Some(Variant::VInteger(i))) => *i as i64 == k && (-32768..=32767).contains(&k),
        _ => false,
    };
    assert!(ok, "VAL(text of k) is not the value k in the function's static type");
    assert!(results_written(m) == 1, "VAL writes exactly its own result slot");
}

/// VAL(STR$(v)) through both wrappers, where the whole-number value of v is k
fn check_val_of_str(v: Variant, k: i64) {
    let mut m1 = mock_with_arg1(v);
    let r1 = str_fn::run(&mut m1);
    str_post(&m1, &r1, k);
    let s = match take_result(&mut m1, BuiltInFunction::Str) {
        Some(s) => s,
        None => Variant::VInteger(0),
    };
    let mut m2 = mock_with_arg1(s);
    let r2 = val::run(&mut m2);
    val_post(&m2, &r2, k);
    std::mem::forget(r1);
    std::mem::forget(r2);
    std::mem::forget(m1);
    std::mem::forget(m2);
}

//# harness str_integer_all tier=quick label=complete props=C17,C16,C08 fn=rusty_basic/src/interpreter/built_ins/str_fn.rs::run timeout=1800
harness_bi!(str_integer_all, 14, std_caps, {
    let k = vs::i16();
    let mut m = mock_with_arg1(Variant::VInteger(k as i32));
    let r = str_fn::run(&mut m);
    str_post(&m, &r, k as i64);
    reach!(k == 0);
    reach!(k == -32768);
    reach!(k == 32767);
    reach!(k == -10);
    std::mem::forget(r);
    std::mem::forget(m);
});

//# harness str_long_all tier=thorough attempt=1 label=complete props=C17,C16,C08 fn=rusty_basic/src/interpreter/built_ins/str_fn.rs::run timeout=900
harness_bi!(str_long_all, 14, std_caps, {
    let k = vs::i32();
    let mut m = mock_with_arg1(Variant::VLong(k as i64));
    let r = str_fn::run(&mut m);
    str_post(&m, &r, k as i64);
    reach!(k == 0);
    reach!(k == i32::MIN);
    reach!(k == i32::MAX);
    reach!(k == -1000000000);
    std::mem::forget(r);
    std::mem::forget(m);
});

//# harness val_str_integer_all tier=thorough label=complete props=C17,C16,C06,C08 fn=rusty_basic/src/interpreter/built_ins/str_fn.rs::run,rusty_basic/src/interpreter/built_ins/val.rs::run timeout=1800
harness_bi!(val_str_integer_all, 14, std_caps, {
    let k = vs::i16();
    check_val_of_str(Variant::VInteger(k as i32), k as i64);
    reach!(k == -32768);
    reach!(k == 32767);
    reach!(k == 0);
});

//# harness val_of_integer_text_all tier=thorough label=complete props=C17,C06,C08 fn=rusty_basic/src/interpreter/built_ins/val.rs::run,rusty_basic/src/interpreter/built_ins/val.rs::val timeout=900
harness_bi!(val_of_integer_text_all, 14, std_caps, {
    let k = vs::i16();
    let mut text = [0u8; 12];
    let n = str_oracle(k as i64, &mut text);
    let mut m = mock_with_arg1(Variant::VString(string_of_codes(&text[..n])));
    let r = val::run(&mut m);
    val_post(&m, &r, k as i64);
    reach!(k == 0);
    reach!(k == -32768);
    reach!(k == 32767);
    std::mem::forget(r);
    std::mem::forget(m);
});

const INTEGER_SAMPLES: [i16; 10] = [0, 1, -1, 9, -9, 10, -10, 32767, -32767, -32768];
const LONG_SAMPLES: [i32; 6] = [32768, -32769, 2147483647, -2147483647, -2147483648, 1000000];
// the boundaries of INTEGER and LONG, both signs, and their neighbours
const INTEGER_BOUNDARIES: [i64; 4] = [32767, 32768, -32768, -32769];
const LONG_BOUNDARIES: [i64; 4] = [2147483647, 2147483648, -2147483648, -2147483649];

//# harness val_str_sample_integers tier=thorough label=bounded(k-in-{0,1,-1,9,-9,10,-10,32767,-32767,-32768}) props=C17,C16,C06,C08 fn=rusty_basic/src/interpreter/built_ins/str_fn.rs::run,rusty_basic/src/interpreter/built_ins/val.rs::run timeout=900
harness_bi!(val_str_sample_integers, 14, std_caps, {
    let k = INTEGER_SAMPLES[vs::choice(10) as usize];
    check_val_of_str(Variant::VInteger(k as i32), k as i64);
    reach!(k == -32768);
    reach!(k == 0);
});

//# harness val_str_sample_longs tier=thorough label=bounded(k-in-{32768,-32769,2147483647,-2147483647,-2147483648,1000000}) props=C17,C16,C06,C08 fn=rusty_basic/src/interpreter/built_ins/str_fn.rs::run,rusty_basic/src/interpreter/built_ins/val.rs::run timeout=1800
harness_bi!(val_str_sample_longs, 14, std_caps, {
    let k = LONG_SAMPLES[vs::choice(6) as usize];
    check_val_of_str(Variant::VLong(k as i64), k as i64);
    reach!(k == -2147483648);
    reach!(k == 2147483647);
});

// C06: the kind VAL chooses holds the value -- the boundaries of INTEGER and LONG, both signs
fn check_val_boundary(k: i64) {
    let mut text = [0u8; 12];
    let n = str_oracle(k, &mut text);
    let mut m = mock_with_arg1(Variant::VString(string_of_codes(&text[..n])));
    let r = val::run(&mut m);
    val_post(&m, &r, k);
    std::mem::forget(r);
    std::mem::forget(m);
}

//# harness val_kind_boundaries_integer tier=quick label=bounded(texts=32767,32768,-32768,-32769) props=C06,C17,C08 fn=rusty_basic/src/interpreter/built_ins/val.rs::run,rusty_basic/src/interpreter/built_ins/val.rs::val timeout=900
harness_bi!(val_kind_boundaries_integer, 14, std_caps, {
    let k = INTEGER_BOUNDARIES[vs::choice(4) as usize];
    check_val_boundary(k);
    reach!(k == 32767);
    reach!(k == 32768);
    reach!(k == -32768);
    reach!(k == -32769);
});

//# harness val_kind_boundaries_long tier=thorough label=bounded(texts=2147483647,2147483648,-2147483648,-2147483649) props=C06,C17,C08 fn=rusty_basic/src/interpreter/built_ins/val.rs::run,rusty_basic/src/interpreter/built_ins/val.rs::val timeout=1800
harness_bi!(val_kind_boundaries_long, 14, std_caps, {
    let k = LONG_BOUNDARIES[vs::choice(4) as usize];
    check_val_boundary(k);
    reach!(k == 2147483647);
    reach!(k == 2147483648);
    reach!(k == -2147483648);
    reach!(k == -2147483649);
});

// all whole numbers of up to 10 digits around the 32-bit range (covers every boundary of INTEGER and LONG on both sides)
//# harness val_of_long_text_all tier=thorough attempt=1 label=complete props=C17,C06,C08 fn=rusty_basic/src/interpreter/built_ins/val.rs::run,rusty_basic/src/interpreter/built_ins/val.rs::val timeout=900
harness_bi!(val_of_long_text_all, 14, std_caps, {
    let k = vs::i64();
    vs::assume(-4294967296 <= k && k <= 4294967296);
    let mut text = [0u8; 12];
    let n = str_oracle(k, &mut text);
    let mut m = mock_with_arg1(Variant::VString(string_of_codes(&text[..n])));
    let r = val::run(&mut m);
    val_post(&m, &r, k);
    reach!(k == 32768);
    reach!(k == -2147483649);
    reach!(k == 2147483648);
    std::mem::forget(r);
    std::mem::forget(m);
});
