//# unit mid_kernel kind=kani_in crate=rusty_basic inject=rusty_basic/src/interpreter/built_ins/mid_fn.rs
//# assume "ASCII strings of length <= 3 (one harness per length, symbolic content); start ranges over 1..=32767 and the optional length over 0..=32767, i.e. everything to_positive_int / to_non_negative_int can hand to do_mid"
// C17 -- the substring kernel of MID$.  Contract (property statement: "LEFT$, RIGHT$ and MID$ return exactly the
// prefix, suffix and substring their arguments describe (so LEFT$(s,n) + MID$(s,n+1) = s, with counts clamped to
// the length)"): for start >= 1,
//   do_mid(s, start, Some(len)) = Ok(the characters s[start-1 .. min(start-1+len, |s|)]), the empty string when start > |s|;
//   do_mid(s, start, None)      = Ok(the characters s[start-1 ..]),                        the empty string when start > |s|;
//   never an error, never a panic.  With start = n+1 and no length this is "s without its first min(n,|s|) characters",
//   the MID$ half of LEFT$(s,n) + MID$(s,n+1) = s.
// The expected result is computed character by character from the index arithmetic of the statement.

fn check_mid(s: &[u8]) -> (usize, Option<usize>, usize) {
    let start = vs::u16() as usize;
    vs::assume(start >= 1 && start <= 32767);
    let has_len = vs::bool();
    let len = vs::u16() as usize;
    vs::assume(len <= 32767);
    let opt_len = if has_len { Some(len) } else { None };

    let text = unsafe { std::str::from_utf8_unchecked(s) }; // ASCII by construction
    let r = do_mid(text, start, opt_len);

    // specification: the characters at 0-based positions start-1+k, k = 0, 1, .. while inside s and k < len
    let mut want = [0u8; 3];
    let mut n = 0;
    let mut k = 0;
    while k < 3 {
        let idx = start - 1 + k;
        if idx < s.len() && (!has_len || k < len) {
            want[n] = s[idx];
            n += 1;
        }
        k += 1;
    }

    let ok = match &r {
        Ok(got) => {
            let g = got.as_bytes();
            assert!(g.len() == n, "MID$ returns min(len, |s| - start + 1) characters, none when start > |s|");
            let mut i = 0;
            while i < 3 {
                if i < n {
                    assert!(g[i] == want[i], "MID$ returns the characters of s from position start on");
                }
                i += 1;
            }
            true
        }
        Err(_) => false,
    };
    std::mem::forget(r);
    assert!(ok, "MID$ with a positive start and a non-negative length never fails");
    (start, opt_len, n)
}

//# harness mid_len0 tier=thorough label=bounded(|s|=0) props=C17 fn=rusty_basic/src/interpreter/built_ins/mid_fn.rs::do_mid timeout=1800 attempt=1
harness!(mid_len0, 6, {
    let s: [u8; 0] = [];
    let (start, len, n) = check_mid(&s);
    reach!(start == 1 && len.is_none());
    reach!(start == 2 && len == Some(1));
});

//# harness mid_len1 tier=thorough label=bounded(|s|=1,ascii) props=C17 fn=rusty_basic/src/interpreter/built_ins/mid_fn.rs::do_mid timeout=1800 attempt=1
harness!(mid_len1, 6, {
    let s = [vs::ascii() as u8];
    let (start, len, n) = check_mid(&s);
    reach!(n == 1 && len.is_none());
    reach!(n == 1 && len == Some(32767));
    reach!(n == 0 && start == 1);
    reach!(n == 0 && start == 2 && len.is_none());
});

//# harness mid_len2 tier=thorough label=bounded(|s|=2,ascii) props=C17 fn=rusty_basic/src/interpreter/built_ins/mid_fn.rs::do_mid timeout=1800 attempt=1
harness!(mid_len2, 6, {
    let s = [vs::ascii() as u8, vs::ascii() as u8];
    let (start, len, n) = check_mid(&s);
    reach!(n == 2 && len.is_none());
    reach!(n == 1 && start == 2 && len == Some(5));
    reach!(n == 1 && start == 1);
    reach!(n == 0 && start == 3 && len.is_none());
});

//# harness mid_len3 tier=thorough label=bounded(|s|=3,ascii) props=C17 fn=rusty_basic/src/interpreter/built_ins/mid_fn.rs::do_mid timeout=1800 attempt=1
harness!(mid_len3, 6, {
    let s = [vs::ascii() as u8, vs::ascii() as u8, vs::ascii() as u8];
    let (start, len, n) = check_mid(&s);
    reach!(n == 3 && len.is_none());
    reach!(n == 2 && start == 2 && len.is_none());
    reach!(n == 1 && start == 2 && len == Some(1));
    reach!(n == 2 && start == 2 && len == Some(2));
    reach!(n == 1 && start == 3 && len == Some(4));
    reach!(n == 0 && start == 4);
    reach!(n == 0 && start == 32767 && len == Some(32767));
});
