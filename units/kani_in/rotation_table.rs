//# unit rotation_table kind=kani_in crate=rusty_parser inject=rusty_parser/src/expr/types.rs
//# assume "the grammar hands apply_priority_order a left operand and an already repaired right operand (right-recursive parse): not under contract here (DESIGN C10 'not decided')"
//# assume "rotate/unary shape harnesses use distinct concrete leaf values and positions as markers: binary_expr / flip_binary / apply_unary_priority_order only move leaves and positions, never read them (rotate_pairs_symbolic_leaves in the thorough tier lifts this for the binary case)"
//# assume "(AND,AND) and (OR,OR) are don't-care pairs of the rotation predicate: both operands of AND/OR are always cast to INTEGER (casting.rs cast_binary_op_q), the VM operator is the bitwise qb_and/qb_or (C19 int_bits) which is associative and cannot fail, and leaves are evaluated left to right under either grouping"
//! C10 — the rotation predicate that repairs the right-leaning tree built by the grammar.
//! Oracle = rank table OF THE PROPERTY STATEMENT (smaller binds tighter):
//!   1 unary minus | 2 * / | 3 MOD | 4 + - | 5 = <> < <= > >= | 6 NOT | 7 AND | 8 OR,
//! operators of equal rank group left to right.  For `l_op(a, r_op(b, c))`:
//!   rank(l) <= rank(r)  =>  must regroup as `r_op(l_op(a, b), c)`     (flip)
//!   rank(l) >  rank(r)  =>  must stay                                   (no flip)
//! A parenthesised or non-binary right operand is never regrouped.
//! Unary: `-` (rank 1) re-attaches to the left operand of ANY binary operator to its right, NOT (rank 6)
//! only above AND / OR.
//! Everything here is enum-complete (13 x 13 operator pairs, 2 x 13 unary pairs) and loop-free; leaf
//! payloads and positions are symbolic.  Trees are `mem::forget`-ed (drop glue of Expression is irrelevant).

fn op_of(k: u8) -> Operator {
    match k {
        0 => Operator::Less,
        1 => Operator::LessOrEqual,
        2 => Operator::Equal,
        3 => Operator::GreaterOrEqual,
        4 => Operator::Greater,
        5 => Operator::NotEqual,
        6 => Operator::Plus,
        7 => Operator::Minus,
        8 => Operator::Multiply,
        9 => Operator::Divide,
        10 => Operator::Modulo,
        11 => Operator::And,
        _ => Operator::Or,
    }
}
fn any_op() -> Operator {
    op_of(vs::choice(13))
}

/// rank of the property statement; deliberately written per operator, not with the is_* helpers of the code
fn rank(op: Operator) -> u8 {
    match op {
        Operator::Multiply | Operator::Divide => 2,
        Operator::Modulo => 3,
        Operator::Plus | Operator::Minus => 4,
        Operator::Less
        | Operator::LessOrEqual
        | Operator::Equal
        | Operator::GreaterOrEqual
        | Operator::Greater
        | Operator::NotEqual => 5,
        Operator::And => 7,
        Operator::Or => 8,
    }
}
const RANK_UNARY_MINUS: u8 = 1;
const RANK_NOT: u8 = 6;

fn must_flip(l: Operator, r: Operator) -> bool {
    rank(l) <= rank(r)
}
/// regrouping is unobservable (see the unit's `assume` header)
fn dont_care(l: Operator, r: Operator) -> bool {
    (l == Operator::And && r == Operator::And) || (l == Operator::Or && r == Operator::Or)
}
/// the pairs of known finding F6
fn f6_mod(l: Operator, r: Operator) -> bool {
    r == Operator::Modulo && (l == Operator::Multiply || l == Operator::Divide || l == Operator::Modulo)
}
fn f6_rel(l: Operator, r: Operator) -> bool {
    rank(l) == 5 && rank(r) == 5
}
fn f6(l: Operator, r: Operator) -> bool {
    f6_mod(l, r) || f6_rel(l, r)
}

fn any_pos() -> Position {
    let row = vs::u32();
    let col = vs::u32();
    vs::assume(row > 0 && col > 0);
    Position::new(row, col)
}
fn lit(n: i32, pos: Position) -> ExpressionPos {
    Expression::IntegerLiteral(n).at_pos(pos)
}
fn any_lit() -> ExpressionPos {
    lit(vs::i32(), any_pos())
}
fn bin(op: Operator, l: ExpressionPos, r: ExpressionPos, pos: Position) -> ExpressionPos {
    Expression::BinaryExpression(op, Box::new(l), Box::new(r), ExpressionType::Unresolved).at_pos(pos)
}
fn is_lit(e: &ExpressionPos, n: i32, pos: Position) -> bool {
    matches!(&e.element, Expression::IntegerLiteral(m) if *m == n) && e.pos == pos
}
/// e == op(l, r) @ pos  with literal operands
fn is_bin_lit(e: &ExpressionPos, op: Operator, pos: Position, l: (i32, Position), r: (i32, Position)) -> bool {
    match &e.element {
        Expression::BinaryExpression(o, x, y, ExpressionType::Unresolved) => {
            *o == op && e.pos == pos && is_lit(x, l.0, l.1) && is_lit(y, r.0, r.1)
        }
        _ => false,
    }
}

fn check_pred(l_op: Operator, r_op: Operator) {
    let t = bin(l_op, any_lit(), bin(r_op, any_lit(), any_lit(), any_pos()), any_pos());
    let flip = t.should_flip_binary();
    if must_flip(l_op, r_op) {
        assert!(flip, "l_op binds tighter than (or as tight as) r_op: a l_op (b r_op c) must be regrouped as (a l_op b) r_op c");
    } else {
        assert!(!flip, "l_op binds looser than r_op: a l_op (b r_op c) must stay");
    }
    std::mem::forget(t);
}

//# harness flip_binary_pred tier=quick label=complete props=C10 fn=rusty_parser/src/expr/types.rs::ExpressionTrait::should_flip_binary
harness!(flip_binary_pred, 2, {
    let l_op = any_op();
    let r_op = any_op();
    vs::assume(!dont_care(l_op, r_op));
    if KF_F6 {
        vs::assume(!f6(l_op, r_op));
    }
    check_pred(l_op, r_op);
    reach!(must_flip(l_op, r_op) && rank(l_op) == rank(r_op));
    reach!(must_flip(l_op, r_op) && rank(l_op) < rank(r_op));
    reach!(!must_flip(l_op, r_op));
    reach!(l_op == Operator::Modulo && r_op == Operator::Plus);
    reach!(l_op == Operator::Plus && r_op == Operator::Modulo);
});

//# harness finding_f6_mod tier=quick label=complete props=C10 fn=rusty_parser/src/expr/types.rs::ExpressionTrait::should_flip_binary expect=finding:F6
harness!(finding_f6_mod, 2, {
    let l_op = any_op();
    let r_op = any_op();
    vs::assume(f6_mod(l_op, r_op));
    check_pred(l_op, r_op);
});

//# harness finding_f6_relational tier=quick label=complete props=C10 fn=rusty_parser/src/expr/types.rs::ExpressionTrait::should_flip_binary expect=finding:F6
harness!(finding_f6_relational, 2, {
    let l_op = any_op();
    let r_op = any_op();
    vs::assume(f6_rel(l_op, r_op));
    check_pred(l_op, r_op);
});

//# harness no_flip_other_shapes tier=quick label=complete props=C10 fn=rusty_parser/src/expr/types.rs::ExpressionTrait::should_flip_binary
harness!(no_flip_other_shapes, 2, {
    // a l_op (b r_op c) with explicit parentheses, a l_op -x / NOT x, a l_op literal, (a r_op b) l_op c, and
    // non-binary roots: nothing to regroup whatever the operators are (also keeps flip_binary from panicking).
    let l_op = any_op();
    let r_op = any_op();
    let inner = bin(r_op, any_lit(), any_lit(), any_pos());
    let k = vs::choice(6);
    let t = match k {
        0 => bin(l_op, any_lit(), Expression::Parenthesis(Box::new(inner)).at_pos(any_pos()), any_pos()),
        1 => bin(
            l_op,
            any_lit(),
            Expression::UnaryExpression(if vs::bool() { UnaryOperator::Minus } else { UnaryOperator::Not }, Box::new(inner))
                .at_pos(any_pos()),
            any_pos(),
        ),
        2 => {
            std::mem::forget(inner);
            bin(l_op, any_lit(), any_lit(), any_pos())
        }
        3 => bin(l_op, inner, any_lit(), any_pos()),
        4 => Expression::Parenthesis(Box::new(bin(l_op, any_lit(), inner, any_pos()))).at_pos(any_pos()),
        _ => Expression::UnaryExpression(UnaryOperator::Not, Box::new(bin(l_op, any_lit(), inner, any_pos()))).at_pos(any_pos()),
    };
    assert!(!t.should_flip_binary(), "only a bare binary right operand may be regrouped");
    reach!(k == 0);
    reach!(k == 5);
    std::mem::forget(t);
});

/// `a l_op b r_op c` as the grammar builds it; `sym` = leaf payloads and all positions symbolic, otherwise
/// distinct concrete markers (the code under contract only moves leaves and positions, it never reads them)
fn check_rotate(l_op: Operator, r_op: Operator, sym: bool) {
    let (a, b, c) = if sym { (vs::i32(), vs::i32(), vs::i32()) } else { (10, 20, 30) };
    let (pa, pb, pc, pl, pr) = if sym {
        (any_pos(), any_pos(), any_pos(), any_pos(), any_pos())
    } else {
        (Position::new(1, 11), Position::new(1, 12), Position::new(1, 13), Position::new(2, 1), Position::new(2, 2))
    };
    // the right side is parsed (and repaired) first: two leaves give a plain node (see plain_node)
    let right = bin(r_op, lit(b, pb), lit(c, pc), pr);
    let t = lit(a, pa).apply_priority_order(right, l_op, pl);
    let flipped = match &t.element {
        Expression::BinaryExpression(o, x, y, ExpressionType::Unresolved) => {
            *o == r_op && t.pos == pr && is_bin_lit(x, l_op, pl, (a, pa), (b, pb)) && is_lit(y, c, pc)
        }
        _ => false,
    };
    let kept = match &t.element {
        Expression::BinaryExpression(o, x, y, ExpressionType::Unresolved) => {
            *o == l_op && t.pos == pl && is_lit(x, a, pa) && is_bin_lit(y, r_op, pr, (b, pb), (c, pc))
        }
        _ => false,
    };
    if dont_care(l_op, r_op) {
        assert!(flipped || kept, "result is one of the two groupings, operands and operator positions in source order");
    } else if must_flip(l_op, r_op) {
        assert!(flipped, "expected (a l_op b) r_op c, every operator keeping its own position");
    } else {
        assert!(kept, "expected a l_op (b r_op c), every operator keeping its own position");
    }
    std::mem::forget(t);
}

// NOTE on unwind = 1 below: CBMC does not resolve enum discriminants behind a Box at symbolic-execution time, so
// every drop ladder of `Expression` in flip_binary is explored syntactically; with recursion bound 1 (one nested
// binary_expr, which is all a 2-operator input can need) that costs ~45 s, with bound 2 it does not finish.
// The unwinding assertions stay on: a deeper recursion being reachable would fail them (UNDECIDED), not pass.

//# harness plain_node tier=quick label=complete props=C10,C11 fn=rusty_parser/src/expr/types.rs::ExpressionPosTrait::binary_expr
harness!(plain_node, 1, {
    // two leaves: a plain node whatever the operator
    let op = any_op();
    let (pa, pb, po) = (Position::new(1, 11), Position::new(1, 12), Position::new(2, 1));
    let t = lit(10, pa).apply_priority_order(lit(20, pb), op, po);
    assert!(is_bin_lit(&t, op, po, (10, pa), (20, pb)), "a op b");
    std::mem::forget(t);
});

//# harness rotate_pairs tier=quick label=complete props=C10,C11 fn=rusty_parser/src/expr/types.rs::ExpressionPosTrait::apply_priority_order
harness!(rotate_pairs, 1, {
    let l_op = any_op();
    let r_op = any_op();
    if KF_F6 {
        vs::assume(!f6(l_op, r_op));
    }
    check_rotate(l_op, r_op, false);
    reach!(must_flip(l_op, r_op) && !dont_care(l_op, r_op));
    reach!(!must_flip(l_op, r_op));
    reach!(dont_care(l_op, r_op));
});

//# harness rotate_pairs_symbolic_leaves tier=thorough label=complete props=C10,C11 fn=rusty_parser/src/expr/types.rs::ExpressionPosTrait::apply_priority_order timeout=1800
harness!(rotate_pairs_symbolic_leaves, 1, {
    let l_op = any_op();
    let r_op = any_op();
    if KF_F6 {
        vs::assume(!f6(l_op, r_op));
    }
    check_rotate(l_op, r_op, true);
    reach!(must_flip(l_op, r_op));
    reach!(!must_flip(l_op, r_op));
});

//# harness finding_f6_rotate tier=quick label=complete props=C10 fn=rusty_parser/src/expr/types.rs::ExpressionPosTrait::apply_priority_order expect=finding:F6
harness!(finding_f6_rotate, 1, {
    let l_op = any_op();
    let r_op = any_op();
    vs::assume(f6(l_op, r_op));
    check_rotate(l_op, r_op, false);
});

//# harness flip_unary_pred tier=quick label=complete props=C10 fn=rusty_parser/src/expr/types.rs::ExpressionTrait::should_flip_unary
harness!(flip_unary_pred, 2, {
    // the unary half of the rank table, by reference only (2 x 13 pairs + non-binary operands)
    let minus = vs::bool();
    let op = if minus { UnaryOperator::Minus } else { UnaryOperator::Not };
    let u_rank = if minus { RANK_UNARY_MINUS } else { RANK_NOT };
    let r_op = any_op();
    let child = bin(r_op, any_lit(), any_lit(), any_pos());
    assert!(child.should_flip_unary(op) == (u_rank < rank(r_op)), "unary operator re-attaches to the left operand iff it binds tighter than r_op");
    let par = Expression::Parenthesis(Box::new(child)).at_pos(any_pos());
    assert!(!par.should_flip_unary(op), "never into parentheses");
    let l = any_lit();
    assert!(!l.should_flip_unary(op));
    reach!(minus && rank(r_op) == 8);
    reach!(minus && rank(r_op) == 2);
    reach!(!minus && rank(r_op) == 7);
    reach!(!minus && rank(r_op) == 5);
    std::mem::forget(par);
    std::mem::forget(l);
});

//# harness flip_unary tier=thorough timeout=1800 label=complete props=C10,C11 fn=rusty_parser/src/expr/types.rs::ExpressionPosTrait::apply_unary_priority_order
harness!(flip_unary, 1, {
    let minus = vs::bool();
    let op = if minus { UnaryOperator::Minus } else { UnaryOperator::Not };
    let u_rank = if minus { RANK_UNARY_MINUS } else { RANK_NOT };
    let r_op = any_op();
    let (a, b) = (10, 20);
    let (pa, pb, pr, pu) = (Position::new(1, 11), Position::new(1, 12), Position::new(2, 1), Position::new(3, 1));
    // `op a r_op b`: the grammar parses `a r_op b` first, then attaches the unary operator
    let child = bin(r_op, lit(a, pa), lit(b, pb), pr);
    let want_flip = u_rank < rank(r_op);
    assert!(child.should_flip_unary(op) == want_flip, "unary operator re-attaches to the left operand iff it binds tighter than r_op");
    let t = child.apply_unary_priority_order(op, pu);
    let ok = if want_flip {
        // (op a) r_op b
        match &t.element {
            Expression::BinaryExpression(o, x, y, ExpressionType::Unresolved) => {
                *o == r_op
                    && t.pos == pr
                    && is_lit(y, b, pb)
                    && x.pos == pu
                    && matches!(&x.element, Expression::UnaryExpression(uo, z) if *uo == op && is_lit(z, a, pa))
            }
            _ => false,
        }
    } else {
        // op (a r_op b)
        t.pos == pu
            && matches!(&t.element, Expression::UnaryExpression(uo, z) if *uo == op && is_bin_lit(z, r_op, pr, (a, pa), (b, pb)))
    };
    assert!(ok, "shape / positions after attaching the unary operator");
    reach!(minus && rank(r_op) == 8);
    reach!(minus && rank(r_op) == 2);
    reach!(!minus && want_flip);
    reach!(!minus && !want_flip && rank(r_op) == 5);
    std::mem::forget(t);
});

//# harness unary_on_non_binary tier=thorough timeout=1800 label=complete props=C10 fn=rusty_parser/src/expr/types.rs::ExpressionPosTrait::apply_unary_priority_order
harness!(unary_on_non_binary, 1, {
    // -x, -(a r_op b), NOT x, NOT (a r_op b), - NOT x: nothing to re-attach to
    let op = if vs::bool() { UnaryOperator::Minus } else { UnaryOperator::Not };
    let r_op = any_op();
    let (pu, pc, pp) = (Position::new(3, 1), Position::new(1, 11), Position::new(1, 12));
    let k = vs::choice(3);
    let child = match k {
        0 => lit(10, pc),
        1 => Expression::Parenthesis(Box::new(bin(r_op, lit(10, pp), lit(20, pp), pp))).at_pos(pc),
        _ => Expression::UnaryExpression(UnaryOperator::Not, Box::new(lit(10, pp))).at_pos(pc),
    };
    assert!(!child.should_flip_unary(op));
    let t = child.apply_unary_priority_order(op, pu);
    let ok = t.pos == pu
        && match &t.element {
            Expression::UnaryExpression(uo, z) => {
                *uo == op
                    && z.pos == pc
                    && match k {
                        0 => matches!(&z.element, Expression::IntegerLiteral(10)),
                        1 => matches!(&z.element, Expression::Parenthesis(_)),
                        _ => matches!(&z.element, Expression::UnaryExpression(UnaryOperator::Not, _)),
                    }
            }
            _ => false,
        };
    assert!(ok, "unary node wraps the untouched operand");
    reach!(k == 1);
    std::mem::forget(t);
});

// ---------------------------------------------------------------------------------------------------
// bounded: chains of three operators `a o1 b o2 c o3 d`, built the way the right-recursive grammar builds them
// ---------------------------------------------------------------------------------------------------
// Operator k sits at position (2, k), the leaves are 10, 20, 30, 40 at (1, 11..14): distinct markers, so
// "t is one of the five binary trees over a,b,c,d whose in-order reading is a o1 b o2 c o3 d" is the same as
// "rotation neither reorders, loses nor duplicates an operand or operator".
// Harness code is loop- and recursion-free (unwind = 1, see the NOTE above).  Repairing a chain needs TWO nested
// rotations exactly when the code's predicate answers "flip" for (o2,o3), (o1,o3) and (o1,o2) — e.g. a - b - c - d.
// That needs recursion bound 2, which exhausts the memory of this box (62 GB) in CBMC's symbolic execution of the
// drop ladders (tried: 38 min, 19 GB, then OOM); those triples are excluded by an assumption computed with the REAL predicate and are the stated
// bound of these two harnesses.
fn op_pos(k: u32) -> Position {
    Position::new(2, k)
}
fn leaf_pos(k: u32) -> Position {
    Position::new(1, 10 + k)
}
fn chain3(o1: Operator, o2: Operator, o3: Operator) -> ExpressionPos {
    let r2 = bin(o3, lit(30, leaf_pos(3)), lit(40, leaf_pos(4)), op_pos(3)); // two leaves: plain node (plain_node)
    let r1 = lit(20, leaf_pos(2)).apply_priority_order(r2, o2, op_pos(2));
    lit(10, leaf_pos(1)).apply_priority_order(r1, o1, op_pos(1))
}
/// the answer of the real predicate for `x l (y r z)`
fn code_flips(l: Operator, r: Operator) -> bool {
    let p = Position::new(9, 9);
    let t = bin(l, lit(0, p), bin(r, lit(0, p), lit(0, p), p), p);
    let f = t.should_flip_binary();
    std::mem::forget(t);
    f
}
fn is_leaf(e: &ExpressionPos, k: u32) -> bool {
    is_lit(e, 10 * k as i32, leaf_pos(k))
}
/// children of `e` if it is operator number k (operator `op` at its own position)
fn node<'a>(e: &'a ExpressionPos, k: u32, op: Operator) -> Option<(&'a ExpressionPos, &'a ExpressionPos)> {
    match &e.element {
        Expression::BinaryExpression(o, l, r, ExpressionType::Unresolved) if *o == op && e.pos == op_pos(k) => Some((l, r)),
        _ => None,
    }
}
/// which of the five trees t is (0 = none of them)
fn shape_of(t: &ExpressionPos, o1: Operator, o2: Operator, o3: Operator) -> u8 {
    if let Some((l, r)) = node(t, 1, o1) {
        if !is_leaf(l, 1) {
            return 0;
        }
        if let Some((rl, rr)) = node(r, 2, o2) {
            // S1: a o1 (b o2 (c o3 d))
            if let Some((x, y)) = node(rr, 3, o3) {
                if is_leaf(rl, 2) && is_leaf(x, 3) && is_leaf(y, 4) {
                    return 1;
                }
            }
            return 0;
        }
        if let Some((rl, rr)) = node(r, 3, o3) {
            // S2: a o1 ((b o2 c) o3 d)
            if let Some((x, y)) = node(rl, 2, o2) {
                if is_leaf(x, 2) && is_leaf(y, 3) && is_leaf(rr, 4) {
                    return 2;
                }
            }
        }
        return 0;
    }
    if let Some((l, r)) = node(t, 2, o2) {
        // S3: (a o1 b) o2 (c o3 d)
        if let (Some((x, y)), Some((z, w))) = (node(l, 1, o1), node(r, 3, o3)) {
            if is_leaf(x, 1) && is_leaf(y, 2) && is_leaf(z, 3) && is_leaf(w, 4) {
                return 3;
            }
        }
        return 0;
    }
    if let Some((l, r)) = node(t, 3, o3) {
        if !is_leaf(r, 4) {
            return 0;
        }
        if let Some((ll, lr)) = node(l, 1, o1) {
            // S4: (a o1 (b o2 c)) o3 d
            if let Some((x, y)) = node(lr, 2, o2) {
                if is_leaf(ll, 1) && is_leaf(x, 2) && is_leaf(y, 3) {
                    return 4;
                }
            }
            return 0;
        }
        if let Some((ll, lr)) = node(l, 2, o2) {
            // S5: ((a o1 b) o2 c) o3 d
            if let Some((x, y)) = node(ll, 1, o1) {
                if is_leaf(x, 1) && is_leaf(y, 2) && is_leaf(lr, 3) {
                    return 5;
                }
            }
        }
    }
    0
}
/// the tree the rank table of the statement prescribes: the root is the LAST operator of the loosest rank
fn ref_shape(o1: Operator, o2: Operator, o3: Operator) -> u8 {
    let (r1, r2, r3) = (rank(o1), rank(o2), rank(o3));
    if r3 >= r1 && r3 >= r2 {
        // root o3; left part a o1 b o2 c
        if r2 >= r1 { 5 } else { 4 }
    } else if r2 >= r1 {
        3 // root o2 (r2 > r3)
    } else {
        // root o1 (r1 > r2, r1 > r3); right part b o2 c o3 d
        if r3 >= r2 { 2 } else { 1 }
    }
}

//# harness flip_shape tier=thorough label=bounded(depth<=3,one-nested-rotation) props=C10 fn=rusty_parser/src/expr/types.rs::ExpressionPosTrait::flip_binary timeout=3600
harness!(flip_shape, 1, {
    // rotation never reorders, loses or duplicates operands/operators — whatever the predicate answers
    // (no F6 carve-out: this holds for the F6 pairs too)
    let (o1, o2, o3) = (any_op(), any_op(), any_op());
    vs::assume(!(code_flips(o2, o3) && code_flips(o1, o3) && code_flips(o1, o2)));
    let t = chain3(o1, o2, o3);
    let s = shape_of(&t, o1, o2, o3);
    assert!(s != 0, "in-order reading of the repaired tree is a o1 b o2 c o3 d, each operator with its own position");
    reach!(s == 1);
    reach!(s == 2);
    reach!(s == 3);
    reach!(s == 4);
    std::mem::forget(t);
});

//# harness chain3_reference tier=thorough label=bounded(depth<=3,one-nested-rotation) props=C10 fn=rusty_parser/src/expr/types.rs::ExpressionPosTrait::binary_expr timeout=3600
harness!(chain3_reference, 1, {
    // the repaired tree of a 3-operator chain is the tree of the reference precedence table
    let (o1, o2, o3) = (any_op(), any_op(), any_op());
    vs::assume(!dont_care(o1, o2) && !dont_care(o2, o3) && !dont_care(o1, o3));
    if KF_F6 {
        vs::assume(!f6(o1, o2) && !f6(o2, o3) && !f6(o1, o3));
    }
    vs::assume(!(code_flips(o2, o3) && code_flips(o1, o3) && code_flips(o1, o2)));
    let t = chain3(o1, o2, o3);
    let s = shape_of(&t, o1, o2, o3);
    assert!(s == ref_shape(o1, o2, o3), "grouping differs from the fully parenthesised reading of the statement");
    reach!(s == 1);
    reach!(s == 2);
    reach!(s == 3);
    reach!(s == 4);
    std::mem::forget(t);
});
