//# unit int_bits kind=kani_in crate=rusty_variant inject=rusty_variant/src/bits.rs
//! C19 — bit-level primitives, integer half (complete) and IEEE-754 half (attempts).
//! Contract (from the property statement):
//!  * AND / OR on INTEGER values are the bitwise operations on 16-bit two's-complement words,
//!    for ALL 2^32 operand pairs; NOT is the bitwise complement of the word;
//!  * converting any INTEGER to bytes yields that word, low byte first, and converting back is the
//!    identity (both directions: all 65536 values, all 65536 byte pairs);
//!  * `BitVec::from(i)` holds bit (15-j) of the word at position j and `i32::from` inverts it;
//!  * MKD$ (`f64_to_bytes`) yields the IEEE-754 binary64 encoding, least significant byte first, and
//!    CVD (`bytes_to_f64`) is its inverse.
//! The loops under contract are bounded by the word width (16 / 8 iterations; Vec growth), unwound 18 with
//! unwinding assertions on: complete.  The f64 encoder normalises with up to 1023 doublings and inserts at
//! the head of a Vec up to 63 times; the symbolic encoder obligation is an `attempt` harness; the decoder calls `powi` (see the note below).

use crate::Variant;

fn word(i: i16) -> i32 {
    i as i32
}

//# harness and_all_pairs tier=quick label=complete props=C19 fn=rusty_variant/src/bits.rs::qb_and
harness!(and_all_pairs, 18, {
    let a = vs::i16();
    let b = vs::i16();
    let r = qb_and(word(a), word(b));
    assert!(r == word(a & b), "AND is not the bitwise AND of the 16-bit words");
    reach!(r == -32768);
    reach!(r == 0x1234);
});

//# harness or_all_pairs tier=quick label=complete props=C19 fn=rusty_variant/src/bits.rs::qb_or
harness!(or_all_pairs, 18, {
    let a = vs::i16();
    let b = vs::i16();
    let r = qb_or(word(a), word(b));
    assert!(r == word(a | b), "OR is not the bitwise OR of the 16-bit words");
    reach!(r == -1);
    reach!(r == 0x1234);
});

//# harness not_integer tier=quick label=complete props=C19,C06 fn=rusty_variant/src/variant.rs::Variant::unary_not
harness!(not_integer, 2, {
    let a = vs::i16();
    let r = Variant::VInteger(word(a)).unary_not();
    let ok = matches!(r, Ok(Variant::VInteger(n)) if n == word(!a));
    assert!(ok, "NOT is not the bitwise complement of the 16-bit word");
    reach!(a == i16::MIN);
    reach!(a == i16::MAX);
    std::mem::forget(r);
});

//# harness i32_to_bytes_le tier=quick label=complete props=C19 fn=rusty_variant/src/bits.rs::i32_to_bytes
harness!(i32_to_bytes_le, 18, {
    let a = vs::i16();
    let b = i32_to_bytes(word(a));
    assert!(b == a.to_le_bytes(), "bytes of an INTEGER are not its 16-bit word, low byte first");
    reach!(b[0] == 0x34 && b[1] == 0x92);
});

//# harness bytes_to_i32_le tier=quick label=complete props=C19 fn=rusty_variant/src/bits.rs::bytes_to_i32
harness!(bytes_to_i32_le, 18, {
    let lo = vs::u8();
    let hi = vs::u8();
    let i = bytes_to_i32([lo, hi]);
    assert!(i == word(i16::from_le_bytes([lo, hi])), "the word read from (low, high) is not the INTEGER they encode");
    assert!((-32768..=32767).contains(&i), "result outside the INTEGER range");
    reach!(i == -32768);
    reach!(i == 0x1234);
});

//# harness int_bytes_roundtrip tier=quick label=complete props=C19 fn=rusty_variant/src/bits.rs::bytes_to_i32
harness!(int_bytes_roundtrip, 18, {
    let a = vs::i16();
    assert!(bytes_to_i32(i32_to_bytes(word(a))) == word(a), "INTEGER -> bytes -> INTEGER is not the identity");
    reach!(a == -2);
});

//# harness bytes_int_roundtrip tier=quick label=complete props=C19 fn=rusty_variant/src/bits.rs::i32_to_bytes
harness!(bytes_int_roundtrip, 18, {
    let lo = vs::u8();
    let hi = vs::u8();
    assert!(i32_to_bytes(bytes_to_i32([lo, hi])) == [lo, hi], "bytes -> INTEGER -> bytes is not the identity");
    reach!(lo == 0xff && hi == 0x7f);
});

//# harness bitvec_roundtrip tier=quick label=complete props=C19 fn=rusty_bit_vec/src/lib.rs::From<i32>::from
harness!(bitvec_roundtrip, 18, {
    let a = vs::i16();
    let bv = BitVec::from(word(a));
    assert!(bv.len() == INT_BITS, "an INTEGER bit vector has 16 entries");
    // msb -> lsb: entry j is bit 15-j of the two's-complement word
    let j = vs::usize();
    vs::assume(j < 16);
    let bit = ((a as u16) >> (15 - j)) & 1 == 1;
    assert!(bv[j] == bit, "entry j of the bit vector is not bit 15-j of the word");
    let back: i32 = bv.into();
    assert!(back == word(a), "INTEGER -> BitVec -> INTEGER is not the identity");
    reach!(a == i16::MIN && j == 0);
    reach!(a == 1 && j == 15);
});

// ---------------------------------------------------------------------------------------------
// IEEE-754 half: attempts (thorough tier, 10 min cap each)
// ---------------------------------------------------------------------------------------------

// NOTE (tool limit, not an attempt): `bytes_to_f64` (CVD) calls `f64::powi` 53 times and Kani 0.68 models
// `powi` as a nondeterministic value (`2.0_f64.powi(-3) == 0.125` is reported as failing), so every
// obligation on the decoder would raise a spurious alarm.  The decoder is therefore NOT under contract here;
// it is listed as not decided.

//# harness mkd_mid_range tier=thorough label=complete props=C19 fn=rusty_variant/src/bits.rs::f64_to_bytes timeout=600 attempt=1
harness!(mkd_mid_range, 66, {
    let x = vs::f64();
    vs::assume(x.abs() >= 1.0 && x.abs() < 9223372036854775808.0);
    let bytes = f64_to_bytes(x);
    assert!(bytes == x.to_le_bytes(), "MKD$ is not the IEEE-754 binary64 encoding (least significant byte first)");
    reach!(x == -1.5);
});

// concrete witnesses of the encoder (every loop runs on concrete data)
//# harness mkd_example_a tier=quick label=bounded(1-concrete-double) props=C19 fn=rusty_variant/src/bits.rs::f64_to_bytes
harness!(mkd_example_a, 1100, {
    let x: f64 = -100.25;
    let bytes = f64_to_bytes(x);
    assert!(bytes == x.to_le_bytes(), "MKD$(-100.25) differs from the IEEE-754 encoding");
});

//# harness mkd_example_b tier=quick label=bounded(1-concrete-double) props=C19 fn=rusty_variant/src/bits.rs::f64_to_bytes
harness!(mkd_example_b, 1100, {
    let x: f64 = 0.1;
    let bytes = f64_to_bytes(x);
    assert!(bytes == x.to_le_bytes(), "MKD$(0.1) differs from the IEEE-754 encoding");
});

// Known finding F11: for |x| >= 2^63 the encoder's `trunc() as i64` saturates, so MKD$ yields the bytes of
// (about) 2^63 whatever x is: CVD(MKD$(1.6E+20)) = 9223372036854775000.
//# harness finding_f11_mkd_beyond_2_63 tier=quick label=bounded(1-concrete-double) props=C19 fn=rusty_variant/src/bits.rs::f64_to_bytes expect=finding:F11
harness!(finding_f11_mkd_beyond_2_63, 1100, {
    let x: f64 = 1.6e20;
    let bytes = f64_to_bytes(x);
    assert!(bytes == x.to_le_bytes(), "MKD$(1.6E+20) is not the IEEE-754 encoding of 1.6E+20");
});

// Known finding F12: doubles below 2^-1023 (subnormals) are flushed to zero by the encoder:
// CVD(MKD$(1E-310)) = 0.
//# harness finding_f12_mkd_subnormal tier=quick label=bounded(1-concrete-double) props=C19 fn=rusty_variant/src/bits.rs::f64_to_bytes expect=finding:F12
harness!(finding_f12_mkd_subnormal, 1100, {
    let x: f64 = 1e-310;
    let bytes = f64_to_bytes(x);
    assert!(bytes == x.to_le_bytes(), "MKD$(1E-310) is not the IEEE-754 encoding of 1E-310");
});
