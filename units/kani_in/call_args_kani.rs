//# unit call_args_kani kind=kani_in crate=rusty_linter inject=rusty_linter/src/post_linter/user_defined_function_linter.rs
// C12 / C03 — bounded companion of the Verus unit `call_args_linter` for the ONE function of the argument check
// Verus cannot read: `lint_call_args` = length check + `args.iter().zip(param_types.iter()).try_for_each(lint_call_arg)`
// (no Verus specification for Iterator::try_for_each).  Run as a black box on the real function.
//   count_mismatch (quick): every pair of different lengths up to 2 is rejected with ArgumentCountMismatch at the
//     call; the empty call is accepted.
//   every_position_checked (thorough, ATTEMPT): a bad argument at the first / the second position is
//     ArgumentTypeMismatch at that argument.  CBMC does not finish this one in 10 min even on fully concrete inputs
//     (symbolic execution of expression_type()/can_cast_to recursion and of the drop glue of Result<(), LintErrorPos>
//     inside try_for_each); it is kept as an attempt and never counted.
// All inputs are concrete: an exhaustive run over the stated table, not a symbolic proof.
//# assume "bounded stand-in: argument / parameter lists of length <= 2 with literal arguments; the per-argument rule over ALL argument and parameter shapes is the Verus unit call_args_linter; that try_for_each visits every zipped pair until the first Err is std's documented behaviour, declared in call_args_linter"

use TypeQualifier::{DollarString as Str, PercentInteger as Int, AmpersandLong as Lng};

fn int_arg(col: u32) -> ExpressionPos {
    Expression::IntegerLiteral(1).at_pos(Position::new(1, col))
}

fn check_count(n: usize, m: usize) {
    let mut args: Expressions = Vec::new();
    let mut params: ResolvedParamTypes = Vec::new();
    let mut k = 0;
    while k < 2 {
        if k < n {
            args.push(int_arg(10 + k as u32));
        }
        if k < m {
            params.push(ResolvedParamType::BuiltIn(Int, BuiltInStyle::Compact));
        }
        k += 1;
    }
    let call_pos = Position::new(7, 3);
    let r = lint_call_args(&args, &params, call_pos);
    match &r {
        Ok(_) => panic!("a call with the wrong number of arguments is accepted"),
        Err(e) => {
            assert!(matches!(e.element, LintError::ArgumentCountMismatch), "error family: argument count");
            assert!(e.pos == call_pos, "located at the call");
        }
    }
    std::mem::forget(r);
    std::mem::forget(args);
    std::mem::forget(params);
}

//# harness count_mismatch tier=quick label=bounded(args<=2) props=C12 fn=rusty_linter/src/post_linter/user_defined_function_linter.rs::lint_call_args
harness!(count_mismatch, 4, {
    check_count(0, 1);
    check_count(0, 2);
    check_count(1, 0);
    check_count(1, 2);
    check_count(2, 0);
    check_count(2, 1);
    // the empty call of a parameterless subprogram is accepted
    let none: Expressions = Vec::new();
    let no_params: ResolvedParamTypes = Vec::new();
    let r = lint_call_args(&none, &no_params, Position::new(7, 3));
    assert!(r.is_ok(), "a call without arguments of a subprogram without parameters is rejected");
    std::mem::forget(r);
    reach!(true);
});

/// kind 1: integer literal (`%`), 3: empty string literal (`$`), 4: long literal (`&`)
fn lit(kind: u8, col: u32) -> ExpressionPos {
    let pos = Position::new(1, col);
    match kind {
        1 => Expression::IntegerLiteral(1).at_pos(pos),
        3 => Expression::StringLiteral(String::new()).at_pos(pos),
        _ => Expression::LongLiteral(70000).at_pos(pos),
    }
}

fn check_lits(k0: u8, p0: TypeQualifier, k1: u8, p1: TypeQualifier) {
    let args: Expressions = vec![lit(k0, 10), lit(k1, 20)];
    let params: ResolvedParamTypes = vec![
        ResolvedParamType::BuiltIn(p0, BuiltInStyle::Compact),
        ResolvedParamType::BuiltIn(p1, BuiltInStyle::Extended),
    ];
    let ok0 = (k0 == 3) == (p0 == Str);
    let ok1 = (k1 == 3) == (p1 == Str);
    let r = lint_call_args(&args, &params, Position::new(7, 3));
    match &r {
        Ok(_) => assert!(ok0 && ok1, "accepted although an argument does not convert to its parameter type"),
        Err(e) => {
            assert!(!(ok0 && ok1), "a call obeying the rule at every position is rejected");
            assert!(matches!(e.element, LintError::ArgumentTypeMismatch), "error family: argument type");
            let col = if !ok0 { 10 } else { 20 };
            assert!(e.pos == Position::new(1, col), "located at the first offending argument");
        }
    }
    std::mem::forget(r);
    std::mem::forget(args);
    std::mem::forget(params);
}

//# harness every_position_checked tier=thorough attempt=1 timeout=900 label=bounded(args<=2) props=C12,C03 fn=rusty_linter/src/post_linter/user_defined_function_linter.rs::lint_call_args
harness!(every_position_checked, 4, {
    check_lits(1, Lng, 3, Str);   // both convert
    check_lits(1, Int, 3, Int);   // only the SECOND does not (a check that stops after the first position would accept)
    check_lits(3, Int, 4, Int);   // only the FIRST does not
    check_lits(3, Lng, 1, Str);   // neither: the first is reported
    reach!(true);
});
