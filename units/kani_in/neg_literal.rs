//# unit neg_literal kind=kani_in crate=rusty_parser inject=rusty_parser/src/expr/types.rs
//# assume "type invariant of literal nodes (caller's obligation, established by process_dec / convert_to_int_or_long_expr — units dec_literal, radix_literal — and preserved by unary_minus, shown here): IntegerLiteral holds -32768..=32767, LongLiteral holds -2147483648..=2147483647. Outside it unary_minus overflows at exactly i32::MIN / i64::MIN (`-n`), which no parser route produces"
//! C10 — "A numeric literal denotes exactly its written value with the narrowest type that holds it ...
//! also directly after a unary minus."  `Expression::unary_minus` folds `-<literal>` at parse time.
//! Contract: IntegerLiteral(n) -> the literal of value -n: INTEGER unless -n = 32768 (-> LONG);
//! LongLiteral(n) -> LONG, except -n = 2147483648 (-> DOUBLE, exact) and -n = -32768 (-> INTEGER, the
//! narrowest type that holds the written value -32768); Single/Double: sign bit flipped, nothing else.
//! No overflow, no panic.  Loop-free, full payload domain of each literal kind: complete.

fn neg(e: Expression) -> Expression {
    Expression::unary_minus(e.at_pos(Position::start()))
}

//# harness neg_integer tier=quick label=complete props=C10,C06,C07 fn=rusty_parser/src/expr/types.rs::Expression::unary_minus
harness!(neg_integer, 1, {
    let n = vs::i32();
    vs::assume(-32768 <= n && n <= 32767);
    let r = neg(Expression::IntegerLiteral(n));
    let ok = match &r {
        Expression::IntegerLiteral(m) => n != -32768 && *m == -n,
        Expression::LongLiteral(m) => n == -32768 && *m == 32768,
        _ => false,
    };
    assert!(ok, "-(INTEGER literal n) is the INTEGER literal -n, or the LONG literal 32768 for n = -32768");
    // the invariant is preserved
    if let Expression::IntegerLiteral(m) = &r {
        assert!(-32768 <= *m && *m <= 32767);
    }
    reach!(n == -32768);
    reach!(n == 32767);
    reach!(n == 0);
    std::mem::forget(r);
});

//# harness neg_integer_wide tier=quick label=complete props=C10 fn=rusty_parser/src/expr/types.rs::Expression::unary_minus
harness!(neg_integer_wide, 1, {
    // payloads outside the INTEGER range (not produced by the parser): still the exact value, no panic,
    // for every i32 but i32::MIN (see the unit's assumption)
    let n = vs::i32();
    vs::assume(n < -32768 || n > 32767);
    vs::assume(n != i32::MIN);
    let r = neg(Expression::IntegerLiteral(n));
    let ok = match &r {
        Expression::IntegerLiteral(m) => *m as i64 == -(n as i64),
        Expression::LongLiteral(m) => *m == -(n as i64),
        _ => false,
    };
    assert!(ok, "exact value");
    reach!(n < 0);
    reach!(n > 0);
    std::mem::forget(r);
});

fn check_neg_long(n: i64) {
    let r = neg(Expression::LongLiteral(n));
    let ok = match &r {
        Expression::DoubleLiteral(d) => n == -2147483648 && *d == 2147483648.0_f64,
        Expression::LongLiteral(m) => n != -2147483648 && n != 32768 && *m == -n,
        Expression::IntegerLiteral(m) => n == 32768 && *m == -32768,
        _ => false,
    };
    assert!(ok, "-(LONG literal n): LONG -n; DOUBLE 2147483648 for n = MIN_LONG; INTEGER -32768 for n = 32768");
    if let Expression::LongLiteral(m) = &r {
        assert!(-2147483648 <= *m && *m <= 2147483647);
    }
    std::mem::forget(r);
}

//# harness neg_long tier=quick label=complete props=C10,C06,C07 fn=rusty_parser/src/expr/types.rs::Expression::unary_minus
harness!(neg_long, 1, {
    let n = vs::i64();
    vs::assume(-2147483648 <= n && n <= 2147483647);
    if KF_F22 {
        vs::assume(n != 32768);
    }
    check_neg_long(n);
    reach!(n == -2147483648);
    reach!(n == 2147483647);
    reach!(n == 32769);
});

//# harness finding_f22_neg_32768 tier=quick label=complete props=C10 fn=rusty_parser/src/expr/types.rs::Expression::unary_minus expect=finding:F22
harness!(finding_f22_neg_32768, 1, {
    check_neg_long(32768);
});

//# harness neg_long_wide tier=quick label=complete props=C10 fn=rusty_parser/src/expr/types.rs::Expression::unary_minus
harness!(neg_long_wide, 1, {
    let n = vs::i64();
    vs::assume(n < -2147483648 || n > 2147483647);
    vs::assume(n != i64::MIN);
    let r = neg(Expression::LongLiteral(n));
    let ok = match &r {
        Expression::LongLiteral(m) => *m == -n,
        Expression::DoubleLiteral(d) => *d == -(n as f64),
        _ => false,
    };
    assert!(ok, "no panic, value -n (rounded to nearest when it becomes a DOUBLE)");
    std::mem::forget(r);
});

//# harness neg_single tier=quick label=complete props=C10 fn=rusty_parser/src/expr/types.rs::Expression::unary_minus
harness!(neg_single, 1, {
    let x = vs::f32();
    let r = neg(Expression::SingleLiteral(x));
    let ok = matches!(&r, Expression::SingleLiteral(y) if y.to_bits() == x.to_bits() ^ 0x8000_0000);
    assert!(ok, "SINGLE literal: only the sign bit changes, the type stays SINGLE");
    reach!(x == 0.5);
    std::mem::forget(r);
});

//# harness neg_double tier=quick label=complete props=C10 fn=rusty_parser/src/expr/types.rs::Expression::unary_minus
harness!(neg_double, 1, {
    let x = vs::f64();
    let r = neg(Expression::DoubleLiteral(x));
    let ok = matches!(&r, Expression::DoubleLiteral(y) if y.to_bits() == x.to_bits() ^ 0x8000_0000_0000_0000);
    assert!(ok, "DOUBLE literal: only the sign bit changes, the type stays DOUBLE");
    reach!(x == 1.5);
    std::mem::forget(r);
});

// The public route (`ExpressionPos::simplify_unary_minus_literals` on `UnaryExpression(Minus, literal)`) was tried as
// a harness: the mutual recursion simplify <-> unary_minus plus the FunctionCall arm (Vec into_iter/map/collect) and
// the drop ladders of Expression exhaust memory in CBMC even at recursion bound 1 (379 s, OOM). It reaches
// unary_minus through a two-line match arm (`UnaryOperator::Minus => Self::unary_minus(x)`), read off the source.
