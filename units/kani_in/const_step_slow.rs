//# unit const_step_slow kind=kani_in crate=rusty_linter inject=rusty_linter/src/core/const_value_resolver.rs stubbing=1
//# assume "literal payloads satisfy the type invariant of their kind (IntegerLiteral in -32768..=32767, LongLiteral in the i32 range, SingleLiteral/DoubleLiteral finite): obligation of the parser (C10)"
//# assume "the VM side of a step is the Variant method its handler calls on A,B, preceded by the casts the handler applies (rusty_basic/src/interpreter/handlers/{math,logical,comparison}.rs: And/Or cast both registers to INTEGER first); that the handlers are exactly this glue is proved on the real handlers by unit vm_ops (rusty_basic)"
//# assume "MULTIPLY with a SINGLE/DOUBLE operand, DIVIDE, MOD and MINUS on the six kind pairs that Variant::minus evaluated as -(r - l) are modular obligations: Variant::{multiply,modulo,minus} and, for DIVIDE, rusty_linter::core::qb_divide (the function that both the folder and the handler of the Divide instruction call: conversion of both operands to the type of the quotient, Variant::divide, conversion of the quotient) is replaced (Kani stub) by an arbitrary deterministic function of its two operands (kind and bits), so what is proved is that folder and VM apply the operator to identical operands in identical order and map its outcome identically; two copies of a float multiplier/divider (or of the i32 remainder) cannot be proved equal by the SAT back end (> 15 min per harness). The operator bodies are under contract in unit variant_arith, qb_divide in unit type_table"
//# assume "operand literals reach the VM as Variant::V<kind>(payload) (instruction_generator/expression.rs push_load)"
// (thorough-tier part of unit const_step: string operands and the complete F7 pair list; same prelude)
// C14 — inductive step of "a CONST has the value and type its expression has at run time".
// Contract (from the property statement): for every one-operator tree over literals
//   BinaryExpression(op, lit l, lit r) | UnaryExpression(op, lit) | Parenthesis(lit)
// and an empty constant table, `eval_const` returns
//   Ok(c)  with c bit-for-bit equal to, and of the same kind as, what the VM leaves in register A, or
//   Err(e) of the same class (Overflow / DivisionByZero / TypeMismatch) as the VM's run-time error
// ("rejected for overflow or division by zero exactly when evaluating it at run time would raise
// that error", "c has the same type as e").  One harness per operator and literal-kind pair,
// discriminants concrete, numeric payloads fully symbolic: loop-free, complete.
// Strings: length <= 1 (bounded) and thorough tier only (unit const_step_slow): the tag of a VString lives in
// the niche of the String capacity, CBMC does not fold it, so every drop of a VString walks the drop glue of
// arrays and records (10-100 s each); unwind is therefore kept at 2.
use crate::core::CastVariant;
use rusty_parser::ExpressionType;
use rusty_variant::VariantError;

struct NoConsts;
impl ConstLookup for NoConsts {
    fn get_const_value(&self, _name: &CaseInsensitiveString) -> Option<&Variant> {
        None
    }
}

#[derive(Clone, Copy, PartialEq, Eq, Debug)]
enum Class {
    Overflow,
    DivisionByZero,
    TypeMismatch,
    Other,
}

fn class_of_lint(e: &LintError) -> Class {
    match e {
        LintError::Overflow => Class::Overflow,
        LintError::DivisionByZero => Class::DivisionByZero,
        LintError::TypeMismatch => Class::TypeMismatch,
        _ => Class::Other,
    }
}

fn class_of_variant(e: VariantError) -> Class {
    match e {
        VariantError::Overflow => Class::Overflow,
        VariantError::DivisionByZero => Class::DivisionByZero,
        VariantError::TypeMismatch => Class::TypeMismatch,
    }
}

fn vm_cmp(a: Variant, b: Variant, p: fn(Ordering) -> bool) -> Result<Variant, Class> {
    let r = match a.try_cmp(&b) {
        Ok(o) => Ok(Variant::from(p(o))),
        Err(e) => Err(class_of_variant(e)),
    };
    std::mem::forget(a);
    std::mem::forget(b);
    r
}

// AND / OR as the VM executes them (handlers/logical.rs): cast A to INTEGER, cast B to INTEGER, then
// `Variant::and` / `Variant::or`.  Written in nested-branch form, the operands rebuilt from the cast
// results with a concrete tag: CBMC does not constant-fold the tag of a `Result<Variant, LintError>`,
// and a Variant whose tag is not a constant during symbolic execution sends it into the drop glue
// of arrays and records.  That the cast yields an INTEGER is asserted, not assumed.
fn vm_logical(a: Variant, b: Variant, is_and: bool) -> Result<Variant, Class> {
    let ra = a.cast(TypeQualifier::PercentInteger);
    let out = match &ra {
        Ok(Variant::VInteger(i)) => {
            let rb = b.cast(TypeQualifier::PercentInteger);
            let out = match &rb {
                Ok(Variant::VInteger(j)) => {
                    let x = Variant::VInteger(*i);
                    let y = Variant::VInteger(*j);
                    if is_and {
                        x.and(y).map_err(class_of_variant)
                    } else {
                        x.or(y).map_err(class_of_variant)
                    }
                }
                Ok(_) => {
                    assert!(false, "cast to INTEGER returned another kind");
                    Err(Class::Other)
                }
                Err(e) => Err(class_of_lint(e)),
            };
            std::mem::forget(rb);
            out
        }
        Ok(_) => {
            assert!(false, "cast to INTEGER returned another kind");
            std::mem::forget(b);
            Err(Class::Other)
        }
        Err(e) => {
            std::mem::forget(b);
            Err(class_of_lint(e))
        }
    };
    std::mem::forget(ra);
    out
}

// What the VM executes for `op` once A = a and B = b (the instruction the generator emits for the
// operator, see the unit header).
fn vm_binary(op: Operator, a: Variant, b: Variant) -> Result<Variant, Class> {
    match op {
        Operator::Plus => a.plus(b).map_err(class_of_variant),
        Operator::Minus => a.minus(b).map_err(class_of_variant),
        Operator::Multiply => a.multiply(b).map_err(class_of_variant),
        // handlers/math.rs divide: A := qb_divide(A, B) (both operands and the quotient converted to the type of the quotient)
        Operator::Divide => qb_divide(a, b).map_err(|e| class_of_lint(&e)),
        Operator::Modulo => a.modulo(b).map_err(class_of_variant),
        Operator::And => vm_logical(a, b, true),
        Operator::Or => vm_logical(a, b, false),
        Operator::Less => vm_cmp(a, b, |o| o == Ordering::Less),
        Operator::LessOrEqual => vm_cmp(a, b, |o| o == Ordering::Less || o == Ordering::Equal),
        Operator::Equal => vm_cmp(a, b, |o| o == Ordering::Equal),
        Operator::GreaterOrEqual => vm_cmp(a, b, |o| o == Ordering::Greater || o == Ordering::Equal),
        Operator::Greater => vm_cmp(a, b, |o| o == Ordering::Greater),
        Operator::NotEqual => vm_cmp(a, b, |o| o != Ordering::Equal),
    }
}

fn vm_unary(op: UnaryOperator, a: Variant) -> Result<Variant, Class> {
    match op {
        UnaryOperator::Minus => a.negate().map_err(class_of_variant),
        UnaryOperator::Not => a.unary_not().map_err(class_of_variant),
    }
}

// Abstraction of a binary `Variant` operator for the modular steps: an arbitrary deterministic function
// of (kind, payload bits) of both operands -- the first call picks any outcome (any numeric kind with any
// payload, or any of the three errors) and remembers it for these operands; a later call with the same
// operands returns the same outcome, with other operands an unrelated one.
#[cfg(kani)]
static mut MEMO: Option<(u8, u64, u8, u64, u8, u64)> = None;

#[cfg(kani)]
fn operand_key(v: &Variant) -> (u8, u64) {
    match v {
        Variant::VSingle(f) => (0, f.to_bits() as u64),
        Variant::VDouble(f) => (1, f.to_bits()),
        Variant::VInteger(i) => (2, *i as u32 as u64),
        Variant::VLong(i) => (3, *i as u64),
        Variant::VString(s) => (4, if s.is_empty() { 0 } else { 256 + s.as_bytes()[0] as u64 }),
        _ => (5, 0),
    }
}

#[cfg(kani)]
fn outcome(k: u8, p: u64) -> Result<Variant, VariantError> {
    match k {
        0 => Ok(Variant::VSingle(f32::from_bits(p as u32))),
        1 => Ok(Variant::VDouble(f64::from_bits(p))),
        2 => Ok(Variant::VInteger(p as u32 as i32)),
        3 => Ok(Variant::VLong(p as i64)),
        4 => Err(VariantError::DivisionByZero),
        5 => Err(VariantError::Overflow),
        _ => Err(VariantError::TypeMismatch),
    }
}

#[cfg(kani)]
fn any_binary_operator(a: Variant, b: Variant) -> Result<Variant, VariantError> {
    let (ka, pa) = operand_key(&a);
    let (kb, pb) = operand_key(&b);
    std::mem::forget(a);
    std::mem::forget(b);
    unsafe {
        if let Some((ma, mpa, mb, mpb, rk, rp)) = MEMO {
            if ma == ka && mpa == pa && mb == kb && mpb == pb {
                return outcome(rk, rp);
            }
        }
        let rk: u8 = kani::any();
        kani::assume(rk < 7);
        let rp: u64 = kani::any();
        MEMO = Some((ka, pa, kb, pb, rk, rp));
        outcome(rk, rp)
    }
}

// the same abstraction for `qb_divide`, whose error type is LintError
#[cfg(kani)]
fn any_lint_binary_operator(a: Variant, b: Variant) -> Result<Variant, LintError> {
    any_binary_operator(a, b).map_err(LintError::from)
}

fn bits_equal(a: &Variant, b: &Variant) -> bool {
    match (a, b) {
        (Variant::VSingle(x), Variant::VSingle(y)) => x.to_bits() == y.to_bits(),
        (Variant::VDouble(x), Variant::VDouble(y)) => x.to_bits() == y.to_bits(),
        (Variant::VInteger(x), Variant::VInteger(y)) => x == y,
        (Variant::VLong(x), Variant::VLong(y)) => x == y,
        (Variant::VString(x), Variant::VString(y)) => x.as_bytes() == y.as_bytes(),
        _ => false,
    }
}

struct Step {
    agree: bool,
    ok: bool,
}

fn compare(folded: Result<Variant, LintErrorPos>, vm: Result<Variant, Class>) -> Step {
    let agree = match (&folded, &vm) {
        (Ok(a), Ok(b)) => bits_equal(a, b),
        (Err(e), Err(c)) => class_of_lint(&e.element) == *c && *c != Class::Other,
        _ => false,
    };
    let ok = folded.is_ok();
    std::mem::forget(folded);
    std::mem::forget(vm);
    Step { agree, ok }
}

fn at(e: Expression, col: u32) -> ExpressionPos {
    e.at_pos(Position::new(1, col))
}

// Operand nodes live in locals of the step function and the tree's `Box`es point at them
// (`Box::from_raw`, the tree is never dropped): CBMC does not constant-propagate an enum tag read
// back from an untyped heap object, so with `Box::new` the concrete literal kind is lost and the
// folder's recursion is explored for every expression kind (> 10 min).  `eval_const` only reads
// the tree; the values it sees are identical.
type Cell = std::mem::ManuallyDrop<ExpressionPos>;
fn cell(e: Expression, col: u32) -> Cell {
    std::mem::ManuallyDrop::new(at(e, col))
}
fn boxed(c: &mut Cell) -> Box<ExpressionPos> {
    unsafe { Box::from_raw(&mut **c as *mut ExpressionPos) }
}

fn step_binary(op: Operator, l: (Expression, Variant), r: (Expression, Variant)) -> Step {
    let mut cl = cell(l.0, 1);
    let mut cr = cell(r.0, 5);
    let tree = at(
        Expression::BinaryExpression(op, boxed(&mut cl), boxed(&mut cr), ExpressionType::Unresolved),
        3,
    );
    let folded = NoConsts.eval_const(&tree);
    std::mem::forget(tree);
    let vm = vm_binary(op, l.1, r.1);
    compare(folded, vm)
}

fn step_unary(op: UnaryOperator, c: (Expression, Variant)) -> Step {
    let mut cc = cell(c.0, 2);
    let tree = at(Expression::UnaryExpression(op, boxed(&mut cc)), 1);
    let folded = NoConsts.eval_const(&tree);
    std::mem::forget(tree);
    let vm = vm_unary(op, c.1);
    compare(folded, vm)
}

fn step_paren(c: (Expression, Variant)) -> Step {
    let mut cc = cell(c.0, 2);
    let tree = at(Expression::Parenthesis(boxed(&mut cc)), 1);
    let folded = NoConsts.eval_const(&tree);
    std::mem::forget(tree);
    compare(folded, Ok(c.1))
}

// String literals have a concrete length per kind (str0 = "", str1 = one symbolic ASCII char): the enum
// tags of `Variant` / `Expression` live in the niche of the String capacity field, and `String::clone`
// (called by the folder) sets capacity = length, so a symbolic length makes the tag symbolic.
fn one_char_string() -> String {
    let mut s = String::with_capacity(1);
    s.push(vs::ascii());
    s
}

// a literal of the given (concrete) kind with symbolic payload: (parser expression, VM operand)
macro_rules! lit {
    (int) => {{
        let v = vs::i32();
        vs::assume(v >= -32768 && v <= 32767);
        (Expression::IntegerLiteral(v), Variant::VInteger(v))
    }};
    (long) => {{
        let v = vs::i64();
        vs::assume(v >= -2147483648 && v <= 2147483647);
        (Expression::LongLiteral(v), Variant::VLong(v))
    }};
    (single) => {{
        let v = vs::f32();
        vs::assume(v.is_finite());
        (Expression::SingleLiteral(v), Variant::VSingle(v))
    }};
    (double) => {{
        let v = vs::f64();
        vs::assume(v.is_finite());
        (Expression::DoubleLiteral(v), Variant::VDouble(v))
    }};
    (str0) => {{
        (Expression::StringLiteral(String::new()), Variant::VString(String::new()))
    }};
    (str1) => {{
        let s = one_char_string();
        (Expression::StringLiteral(s.clone()), Variant::VString(s))
    }};
}

macro_rules! witness {
    ($s:ident, ok) => {
        reach!($s.ok);
    };
    ($s:ident, err) => {
        reach!(!$s.ok);
    };
    ($s:ident, both) => {
        reach!($s.ok);
        reach!(!$s.ok);
    };
}

macro_rules! bin {
    ($op:ident, $l:ident, $r:ident, $w:ident) => {{
        let l = lit!($l);
        let r = lit!($r);
        let s = step_binary(Operator::$op, l, r);
        assert!(s.agree, "CONST folding of a binary operator differs from the VM: value bits, kind or error class");
        witness!(s, $w);
    }};
}

macro_rules! un {
    ($op:ident, $c:ident, $w:ident) => {{
        let c = lit!($c);
        let s = step_unary(UnaryOperator::$op, c);
        assert!(s.agree, "CONST folding of a unary operator differs from the VM: value bits, kind or error class");
        witness!(s, $w);
    }};
}

// a string operand against a numeric one: Type mismatch on both sides.  (One step per harness: every
// drop of a VString costs CBMC 10-100 s, see the unit header.)
macro_rules! mixed {
    ($op:ident, l) => {{
        bin!($op, str1, int, err);
    }};
    ($op:ident, r) => {{
        bin!($op, double, str1, err);
    }};
}

// both operands strings
macro_rules! strs {
    ($op:ident, $w:ident) => {{
        bin!($op, str1, str1, $w);
    }};
}

// every numeric kind pair except (int, int)
macro_rules! non_integer_pairs {
    ($op:ident) => {{
        bin!($op, int, long, ok);
        bin!($op, int, single, ok);
        bin!($op, int, double, ok);
        bin!($op, long, int, ok);
        bin!($op, long, long, ok);
        bin!($op, long, single, ok);
        bin!($op, long, double, ok);
        bin!($op, single, int, ok);
        bin!($op, single, long, ok);
        bin!($op, single, single, ok);
        bin!($op, single, double, ok);
        bin!($op, double, int, ok);
        bin!($op, double, long, ok);
        bin!($op, double, single, ok);
        bin!($op, double, double, ok);
    }};
}

// ---- Plus on strings
//# harness plus_str_str tier=thorough label=bounded(strlen<=1) props=C14 fn=rusty_linter/src/core/const_value_resolver.rs::ConstEvaluator<ExpressionPos>::eval_const timeout=1800 attempt=1
harness!(plus_str_str, 2, { strs!(Plus, ok); });

//# harness plus_str_mixed tier=thorough label=bounded(strlen<=1) props=C14 fn=rusty_linter/src/core/const_value_resolver.rs::ConstEvaluator<ExpressionPos>::eval_const timeout=1800
harness!(plus_str_mixed, 2, { mixed!(Plus, r); });

// ---- Minus on strings
//# harness minus_str_str tier=thorough label=bounded(strlen<=1) props=C14 fn=rusty_linter/src/core/const_value_resolver.rs::ConstEvaluator<ExpressionPos>::eval_const timeout=1800
harness!(minus_str_str, 2, { strs!(Minus, err); });

//# harness minus_str_mixed tier=thorough label=bounded(strlen<=1) props=C14 fn=rusty_linter/src/core/const_value_resolver.rs::ConstEvaluator<ExpressionPos>::eval_const timeout=1800
harness!(minus_str_mixed, 2, { mixed!(Minus, l); });

// ---- Multiply on strings
//# harness multiply_str_str tier=thorough label=bounded(strlen<=1) props=C14 fn=rusty_linter/src/core/const_value_resolver.rs::ConstEvaluator<ExpressionPos>::eval_const timeout=1800
harness!(multiply_str_str, 2, { strs!(Multiply, err); });

//# harness multiply_str_mixed tier=thorough label=bounded(strlen<=1) props=C14 fn=rusty_linter/src/core/const_value_resolver.rs::ConstEvaluator<ExpressionPos>::eval_const timeout=1800
harness!(multiply_str_mixed, 2, { mixed!(Multiply, r); });

// ---- Divide on strings
//# harness divide_str_str tier=thorough label=bounded(strlen<=1) props=C14 fn=rusty_linter/src/core/const_value_resolver.rs::ConstEvaluator<ExpressionPos>::eval_const timeout=1800
harness!(divide_str_str, 2, { strs!(Divide, err); });

//# harness divide_str_mixed tier=thorough label=bounded(strlen<=1) props=C14 fn=rusty_linter/src/core/const_value_resolver.rs::ConstEvaluator<ExpressionPos>::eval_const timeout=1800
harness!(divide_str_mixed, 2, { mixed!(Divide, l); });

// ---- Modulo on strings
//# harness modulo_str_str tier=thorough label=bounded(strlen<=1) props=C14 fn=rusty_linter/src/core/const_value_resolver.rs::ConstEvaluator<ExpressionPos>::eval_const timeout=1800
harness!(modulo_str_str, 2, { strs!(Modulo, err); });

//# harness modulo_str_mixed tier=thorough label=bounded(strlen<=1) props=C14 fn=rusty_linter/src/core/const_value_resolver.rs::ConstEvaluator<ExpressionPos>::eval_const timeout=1800
harness!(modulo_str_mixed, 2, { mixed!(Modulo, r); });

// ---- Less on strings
//# harness lt_str_str tier=thorough label=bounded(strlen<=1) props=C14 fn=rusty_linter/src/core/const_value_resolver.rs::ConstEvaluator<ExpressionPos>::eval_const timeout=1800
harness!(lt_str_str, 2, { strs!(Less, ok); });

//# harness lt_str_mixed tier=thorough label=bounded(strlen<=1) props=C14 fn=rusty_linter/src/core/const_value_resolver.rs::ConstEvaluator<ExpressionPos>::eval_const timeout=1800
harness!(lt_str_mixed, 2, { mixed!(Less, l); });

// ---- LessOrEqual on strings
//# harness le_str_str tier=thorough label=bounded(strlen<=1) props=C14 fn=rusty_linter/src/core/const_value_resolver.rs::ConstEvaluator<ExpressionPos>::eval_const timeout=1800
harness!(le_str_str, 2, { strs!(LessOrEqual, ok); });

//# harness le_str_mixed tier=thorough label=bounded(strlen<=1) props=C14 fn=rusty_linter/src/core/const_value_resolver.rs::ConstEvaluator<ExpressionPos>::eval_const timeout=1800
harness!(le_str_mixed, 2, { mixed!(LessOrEqual, r); });

// ---- Equal on strings
//# harness eq_str_str tier=thorough label=bounded(strlen<=1) props=C14 fn=rusty_linter/src/core/const_value_resolver.rs::ConstEvaluator<ExpressionPos>::eval_const timeout=1800
harness!(eq_str_str, 2, { strs!(Equal, ok); });

//# harness eq_str_mixed tier=thorough label=bounded(strlen<=1) props=C14 fn=rusty_linter/src/core/const_value_resolver.rs::ConstEvaluator<ExpressionPos>::eval_const timeout=1800
harness!(eq_str_mixed, 2, { mixed!(Equal, l); });

// ---- GreaterOrEqual on strings
//# harness ge_str_str tier=thorough label=bounded(strlen<=1) props=C14 fn=rusty_linter/src/core/const_value_resolver.rs::ConstEvaluator<ExpressionPos>::eval_const timeout=1800
harness!(ge_str_str, 2, { strs!(GreaterOrEqual, ok); });

//# harness ge_str_mixed tier=thorough label=bounded(strlen<=1) props=C14 fn=rusty_linter/src/core/const_value_resolver.rs::ConstEvaluator<ExpressionPos>::eval_const timeout=1800
harness!(ge_str_mixed, 2, { mixed!(GreaterOrEqual, r); });

// ---- Greater on strings
//# harness gt_str_str tier=thorough label=bounded(strlen<=1) props=C14 fn=rusty_linter/src/core/const_value_resolver.rs::ConstEvaluator<ExpressionPos>::eval_const timeout=1800
harness!(gt_str_str, 2, { strs!(Greater, ok); });

//# harness gt_str_mixed tier=thorough label=bounded(strlen<=1) props=C14 fn=rusty_linter/src/core/const_value_resolver.rs::ConstEvaluator<ExpressionPos>::eval_const timeout=1800
harness!(gt_str_mixed, 2, { mixed!(Greater, l); });

// ---- NotEqual on strings
//# harness ne_str_str tier=thorough label=bounded(strlen<=1) props=C14 fn=rusty_linter/src/core/const_value_resolver.rs::ConstEvaluator<ExpressionPos>::eval_const timeout=1800
harness!(ne_str_str, 2, { strs!(NotEqual, ok); });

//# harness ne_str_mixed tier=thorough label=bounded(strlen<=1) props=C14 fn=rusty_linter/src/core/const_value_resolver.rs::ConstEvaluator<ExpressionPos>::eval_const timeout=1800
harness!(ne_str_mixed, 2, { mixed!(NotEqual, r); });

// ---- And on strings
//# harness and_str_str tier=thorough label=bounded(strlen<=1) props=C14 fn=rusty_linter/src/core/const_value_resolver.rs::ConstEvaluator<ExpressionPos>::eval_const timeout=1800
harness!(and_str_str, 2, { strs!(And, err); });

//# harness and_str_mixed tier=thorough label=bounded(strlen<=1) props=C14 fn=rusty_linter/src/core/const_value_resolver.rs::ConstEvaluator<ExpressionPos>::eval_const timeout=1800
harness!(and_str_mixed, 2, { mixed!(And, l); });

// ---- Or on strings
//# harness or_str_str tier=thorough label=bounded(strlen<=1) props=C14 fn=rusty_linter/src/core/const_value_resolver.rs::ConstEvaluator<ExpressionPos>::eval_const timeout=1800
harness!(or_str_str, 2, { strs!(Or, err); });

//# harness or_str_mixed tier=thorough label=bounded(strlen<=1) props=C14 fn=rusty_linter/src/core/const_value_resolver.rs::ConstEvaluator<ExpressionPos>::eval_const timeout=1800
harness!(or_str_mixed, 2, { mixed!(Or, r); });

//# harness neg_str tier=thorough label=bounded(strlen<=1) props=C14 fn=rusty_linter/src/core/const_value_resolver.rs::ConstEvaluator<ExpressionPos>::eval_const timeout=1800
harness!(neg_str, 2, { un!(Minus, str1, err); });

//# harness not_str tier=thorough label=bounded(strlen<=1) props=C14 fn=rusty_linter/src/core/const_value_resolver.rs::ConstEvaluator<ExpressionPos>::eval_const timeout=1800
harness!(not_str, 2, { un!(Not, str1, err); });

//# harness finding_f7_and_non_integer tier=thorough label=complete props=C14 fn=rusty_linter/src/core/const_value_resolver.rs::ConstEvaluator<ExpressionPos>::eval_const expect=finding:F7 standalone=1 timeout=1800
harness!(finding_f7_and_non_integer, 18, { non_integer_pairs!(And); });

//# harness finding_f7_or_non_integer tier=thorough label=complete props=C14 fn=rusty_linter/src/core/const_value_resolver.rs::ConstEvaluator<ExpressionPos>::eval_const expect=finding:F7 standalone=1 timeout=1800
harness!(finding_f7_or_non_integer, 18, { non_integer_pairs!(Or); });
