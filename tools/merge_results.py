#!/usr/bin/env python3
"""merge SELFTEST lines of several selftest logs (later files win) into seeded/RESULTS.txt
usage: tools/merge_results.py log1 log2 ...   (the existing RESULTS.txt is read first)"""
import os, re, sys
R = os.path.dirname(os.path.dirname(os.path.abspath(__file__)))
res = {}
def feed(path):
    try:
        for l in open(path, errors='replace'):
            m = re.match(r'SELFTEST (\S+): ', l)
            if m and 'patch does not apply' not in l:
                res[m.group(1)] = l.rstrip('\n')
    except FileNotFoundError:
        pass
feed(os.path.join(R, 'seeded', 'RESULTS.txt'))
for f in sys.argv[1:]:
    feed(f)
have = set(d for d in os.listdir(os.path.join(R, 'seeded')) if os.path.exists(os.path.join(R, 'seeded', d, 'meta.json')))
with open(os.path.join(R, 'seeded', 'RESULTS.txt'), 'w') as o:
    for k in sorted(res):
        if k in have:
            o.write(res[k] + '\n')
print('%d results; seeds without a result: %s' % (len([k for k in res if k in have]), ' '.join(sorted(have - set(res)))))
