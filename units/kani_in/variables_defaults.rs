//# unit variables_defaults kind=kani_in crate=rusty_basic inject=rusty_basic/src/interpreter/variables.rs
// C03 — "A FUNCTION returns the last value assigned to its name (zero or empty string if none)":
// the default a function result starts from, `Variables::default_value_for_name`, per name kind.
// Enum-complete over the five type qualifiers, loop-free.

//# harness default_value_per_qualifier tier=quick label=complete props=C03 fn=rusty_basic/src/interpreter/variables.rs::Variables::default_value_for_name
harness!(default_value_per_qualifier, 3, {
    let k = vs::choice(5);
    let q = match k {
        0 => TypeQualifier::BangSingle,
        1 => TypeQualifier::HashDouble,
        2 => TypeQualifier::DollarString,
        3 => TypeQualifier::PercentInteger,
        _ => TypeQualifier::AmpersandLong,
    };
    let name = Name::qualified(BareName::new(String::new()), q);
    let v = Variables::default_value_for_name(&name);
    match (k, &v) {
        (0, Variant::VSingle(f)) => assert!(*f == 0.0),
        (1, Variant::VDouble(f)) => assert!(*f == 0.0),
        (2, Variant::VString(s)) => assert!(s.is_empty(), "a string function defaults to the empty string"),
        (3, Variant::VInteger(i)) => assert!(*i == 0),
        (4, Variant::VLong(i)) => assert!(*i == 0),
        _ => assert!(false, "the default has the type of the function name"),
    }
    reach!(k == 2);
    std::mem::forget(v);
    std::mem::forget(name);
});
