//# unit fix_length kind=kani_in crate=rusty_basic inject=rusty_basic/src/interpreter/string_utils.rs
//# assume "strings of at most 3 characters, target width n in 0..=4; quick tier: concrete strings (\"\", \"abc\", CHR$(200)+\"x\"+CHR$(201), CHR$(200)) with symbolic width; thorough tier: symbolic ASCII characters per length (about 10 minutes each)"
//# assume "symbolic-character harnesses: ASCII characters 1..=127 (NUL handled in fix_len3_with_nul, CHR$(128..255) in the two concrete Latin-1 harnesses); to_ascii_*: all byte values"
// C04 / C17 -- the pad/truncate kernel behind every STRING * n store (handlers/cast.rs fix_length_in_a) and behind
// PRINT USING "\ \".  Contract (property statement C04: "a STRING * n variable, field or element always holds exactly
// n characters (padded with spaces or truncated) however it was assigned"):
//   after fix_length(&mut s, n):  s has exactly n CHARACTERS; character i (i < n) is the i-th character of the old
//   content when the old content has more than i characters, otherwise a space.
// "Old content" of a string that contains a NUL character is the part before the first NUL (the function cuts there
// on purpose: record buffers read by GET are zero-filled, see test_fix_length_replace_null_with_space); harness
// fix_len3_with_nul states exactly that; the other main harnesses take NUL-free strings.
// Also: to_ascii_string / to_ascii_bytes (the byte <-> character mapping of PUT/GET/MKD$/CVD): one character per
// byte with the byte's code point, and back; bytes -> string -> bytes is the identity (C18 "a record PUT ... is what
// GET ... returns", C19).
//
// F30 (reported; DESIGN_defects mentions it in passing as "fix_length counts UTF-8 bytes"): the loops compare
// `s.len()` -- the UTF-8 BYTE length -- with n, so a character >= CHR$(128) (two bytes in a Rust String) counts
// twice: DIM s AS STRING * 2 : s = CHR$(200) + CHR$(201) : PRINT LEN(s)  prints 1.

/// a string of the given ASCII characters, built without going through the UTF-8 encoder (cost only); capacity 8
/// so that padding to n <= 4 does not reallocate
fn string_of(cs: &[u8]) -> String {
    let mut v: Vec<u8> = Vec::with_capacity(8);
    let mut i = 0;
    while i < cs.len() {
        v.push(cs[i]);
        i += 1;
    }
    unsafe { String::from_utf8_unchecked(v) }
}

fn any_char() -> u8 {
    let c = vs::u8();
    vs::assume(c != 0 && c < 128);
    c
}

/// `old` = the characters that count as the old content; checks the whole result.  Every expected character is
/// ASCII, so "n bytes, byte i = expected character i" says the string consists of exactly those n characters.
fn check_result(s: &String, old: &[u8], n: usize) {
    let g = s.as_bytes();
    assert!(g.len() == n, "a STRING * n value has exactly n characters");
    let mut i = 0;
    while i < 4 {
        if i < n {
            let want = if i < old.len() { old[i] } else { b' ' };
            assert!(g[i] == want, "character i is the old character i, or a space beyond the old content");
        }
        i += 1;
    }
}

/// the same for one concrete width n (cost only: the loops of fix_length unroll to a known length)
fn check_fix_n(cs: &[u8], n: usize) {
    let mut s = string_of(cs);
    fix_length(&mut s, n);
    check_result(&s, cs, n);
    std::mem::forget(s);
}

fn check_fix(cs: &[u8]) -> usize {
    let n = vs::choice(5) as usize;
    let mut s = string_of(cs);
    fix_length(&mut s, n);
    check_result(&s, cs, n);
    std::mem::forget(s);
    n
}

//# harness fix_len0 tier=quick label=bounded(|s|=0,n<=4) props=C04,C17 fn=rusty_basic/src/interpreter/string_utils.rs::fix_length
harness!(fix_len0, 6, {
    let cs: [u8; 0] = [];
    let n = check_fix(&cs);
    reach!(n == 0);
    reach!(n == 4);
});

//# harness fix_len1 tier=thorough label=bounded(|s|=1,n<=4) props=C04,C17 fn=rusty_basic/src/interpreter/string_utils.rs::fix_length timeout=1800
harness!(fix_len1, 6, {
    let cs = [any_char()];
    let n = check_fix(&cs);
    reach!(n == 0);
    reach!(n == 1 && cs[0] == b' ');
    reach!(n == 4 && cs[0] == b'x');
});

//# harness fix_len2 tier=thorough label=bounded(|s|=2,n<=4) props=C04,C17 fn=rusty_basic/src/interpreter/string_utils.rs::fix_length timeout=1800
harness!(fix_len2, 6, {
    let cs = [any_char(), any_char()];
    let n = check_fix(&cs);
    reach!(n == 1);
    reach!(n == 2);
    reach!(n == 3 && cs[1] == b'y');
});

//# harness fix_len3 tier=thorough label=bounded(|s|=3,n<=4) props=C04,C17 fn=rusty_basic/src/interpreter/string_utils.rs::fix_length timeout=1800
harness!(fix_len3, 6, {
    let cs = [any_char(), any_char(), any_char()];
    let n = check_fix(&cs);
    reach!(n == 0);
    reach!(n == 2);
    reach!(n == 3);
    reach!(n == 4 && cs[2] == b'z');
});

//# harness fix_len1_n0 tier=thorough label=bounded(|s|=1,n=0) props=C04,C17 fn=rusty_basic/src/interpreter/string_utils.rs::fix_length timeout=1800
harness!(fix_len1_n0, 6, {
    let cs = [any_char()];
    check_fix_n(&cs, 0);
    reach!(cs[0] == b'x');
});

//# harness fix_len1_n1 tier=thorough label=bounded(|s|=1,n=1) props=C04,C17 fn=rusty_basic/src/interpreter/string_utils.rs::fix_length timeout=1800
harness!(fix_len1_n1, 6, {
    let cs = [any_char()];
    check_fix_n(&cs, 1);
    reach!(cs[0] == b'x');
});

//# harness fix_len1_n4 tier=thorough label=bounded(|s|=1,n=4) props=C04,C17 fn=rusty_basic/src/interpreter/string_utils.rs::fix_length timeout=1800
harness!(fix_len1_n4, 6, {
    let cs = [any_char()];
    check_fix_n(&cs, 4);
    reach!(cs[0] == b'x');
});

//# harness fix_len3_n2 tier=thorough label=bounded(|s|=3,n=2) props=C04,C17 fn=rusty_basic/src/interpreter/string_utils.rs::fix_length timeout=1800
harness!(fix_len3_n2, 6, {
    let cs = [any_char(), any_char(), any_char()];
    check_fix_n(&cs, 2);
    reach!(cs[0] == b'x');
});

//# harness fix_len3_n3 tier=thorough label=bounded(|s|=3,n=3) props=C04,C17 fn=rusty_basic/src/interpreter/string_utils.rs::fix_length timeout=1800
harness!(fix_len3_n3, 6, {
    let cs = [any_char(), any_char(), any_char()];
    check_fix_n(&cs, 3);
    reach!(cs[0] == b'x');
});

//# harness fix_len3_n4 tier=thorough label=bounded(|s|=3,n=4) props=C04,C17 fn=rusty_basic/src/interpreter/string_utils.rs::fix_length timeout=1800
harness!(fix_len3_n4, 6, {
    let cs = [any_char(), any_char(), any_char()];
    check_fix_n(&cs, 4);
    reach!(cs[0] == b'x');
});

//# harness fix_concrete_abc tier=quick label=bounded(s="abc",n<=4) props=C04,C17 fn=rusty_basic/src/interpreter/string_utils.rs::fix_length
harness!(fix_concrete_abc, 6, {
    // concrete characters, symbolic width (the symbolic-character harnesses above take about 10 minutes each since
    // fix_length counts characters: thorough tier)
    let cs = [b'a', b'b', b'c'];
    let n = check_fix(&cs);
    reach!(n == 0);
    reach!(n == 3);
    reach!(n == 4);
});

//# harness fix_concrete_latin1 tier=quick label=bounded(s=CHR$(200)+"x"+CHR$(201),n<=4) props=C04,C17 fn=rusty_basic/src/interpreter/string_utils.rs::fix_length
harness!(fix_concrete_latin1, 6, {
    // characters beyond 127 take two bytes in a Rust String: the result has n CHARACTERS, the first ones unchanged
    let want = [200u8 as char, 'x', 201u8 as char];
    let mut s = String::new();
    s.push(want[0]);
    s.push(want[1]);
    s.push(want[2]);
    let n = vs::choice(5) as usize;
    fix_length(&mut s, n);
    let mut it = s.chars();
    let mut i = 0;
    while i < 5 {
        let c = it.next();
        if i < n {
            let w = if i < 3 { want[i] } else { ' ' };
            assert!(c == Some(w), "character i is the old character i, or a space beyond the old content");
        } else {
            assert!(c.is_none(), "a STRING * n value has exactly n characters");
        }
        i += 1;
    }
    std::mem::forget(s);
    reach!(n == 1);
    reach!(n == 4);
});

//# harness fix_len3_with_nul tier=thorough label=bounded(|s|=3,n<=4,first_NUL_at_0..2) props=C04,C17 fn=rusty_basic/src/interpreter/string_utils.rs::fix_length timeout=1800
harness!(fix_len3_with_nul, 6, {
    // a NUL at position k, NUL-free before it, anything after it: the old content is the part before the NUL
    let k = vs::choice(3) as usize;
    let mut cs = [any_char(), any_char(), vs::ascii() as u8];
    if k < 2 {
        cs[1] = vs::ascii() as u8;
    }
    cs[k] = 0;
    let n = vs::choice(5) as usize;
    let mut s = string_of(&cs);
    fix_length(&mut s, n);
    check_result(&s, &cs[..k], n);
    std::mem::forget(s);
    reach!(k == 0 && n == 4);
    reach!(k == 1 && n == 3 && cs[2] == b'b');
    reach!(k == 2 && n == 1);
    reach!(k == 2 && n == 3);
});

//# harness finding_F30_non_ascii_counts_twice tier=quick label=bounded(s=CHR$(200),n=1..4) props=C04,C17 fn=rusty_basic/src/interpreter/string_utils.rs::fix_length expect=finding:F30 standalone=1
harness!(finding_F30_non_ascii_counts_twice, 6, {
    // the string CHR$(200) exactly as built_ins/chr.rs builds it; every width n >= 1 goes wrong
    let mut s = String::new();
    s.push(200u8 as char);
    let n = 1 + vs::choice(4) as usize;
    fix_length(&mut s, n);
    let mut it = s.chars();
    let first = it.next();
    let mut count = if first.is_some() { 1 } else { 0 };
    let mut i = 0;
    while i < 4 {
        if it.next().is_some() {
            count += 1;
        }
        i += 1;
    }
    assert!(count == n, "a STRING * n value has exactly n characters");
    assert!(first == Some(200u8 as char), "character 1 is the old character 1");
    reach!(n == 2);
    std::mem::forget(s);
});

fn check_roundtrip(b: &[u8]) {
    let len = b.len();
    let s = to_ascii_string(b);
    // one character per byte, with the byte's code point
    let mut it = s.chars();
    let mut i = 0;
    while i < 4 {
        let c = it.next();
        if i < len {
            assert!(c == Some(b[i] as char), "to_ascii_string: character i has the code point of byte i");
        } else {
            assert!(c.is_none(), "to_ascii_string: one character per byte");
        }
        i += 1;
    }
    let back = to_ascii_bytes(&s);
    assert!(back.len() == len, "to_ascii_bytes: one byte per character");
    let mut i = 0;
    while i < 3 {
        if i < len {
            assert!(back[i] == b[i], "bytes -> string -> bytes is the identity");
        }
        i += 1;
    }
    std::mem::forget(s);
    std::mem::forget(back);
}

//# harness ascii_bytes_roundtrip_len1 tier=quick label=bounded(len=1,all_bytes) props=C18,C19 fn=rusty_basic/src/interpreter/string_utils.rs::to_ascii_string
harness!(ascii_bytes_roundtrip_len1, 6, {
    let b = [vs::u8()];
    check_roundtrip(&b);
    reach!(b[0] == 255);
    reach!(b[0] == 0);
});

// (three symbolic bytes: parked in attic/fix_length_roundtrip_len3.rs.txt, CBMC runs out of memory)
