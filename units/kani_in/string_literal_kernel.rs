//# unit string_literal_kernel kind=kani_in crate=rusty_parser inject=rusty_parser/src/expr/string_literal.rs
//# assume "symbolic inputs are ASCII texts (1 byte per char) of exactly the stated number of characters"
//! C10 — "literals keep exact value": the text of a string literal is the characters between the quotes, verbatim (no
//! escape processing: a backslash is an ordinary character), up to the closing quote or the end of the line.
//! Contract of the private `inside_string()`: it always succeeds, yields exactly the maximal run of characters other than
//! '"', CR and LF, and leaves the input right behind that run.
//!
//! HISTORY: until defect 58 was repaired, `inside_string()` TOKENIZED the text of the literal with `any_token()` (11-way OrParser,
//! AnyTokenOf keeps its kinds in a std HashSet) — CBMC did not get through one `any_token()` call on a 1-character text in 15
//! minutes, the obligation was an `attempt`, and the tokenization was itself the defect (finding F90: 41 letters between the
//! quotes were rejected with IdentifierTooLong).  Since the repair (the text is read character by character) it is discharged.

fn make_input<const N: usize>(b: &[u8; N]) -> StringView {
    let s = unsafe { std::str::from_utf8_unchecked(&b[..]) };
    StringView::from(s)
}

fn inside_body<const N: usize>() -> ([u8; N], usize) {
    let mut b = [0u8; N];
    let mut i = 0;
    while i < N {
        b[i] = vs::u8() & 0x7f;
        i += 1;
    }
    let mut input = make_input(&b);
    // the maximal run of characters that are neither the closing quote nor a line end
    let mut used = 0;
    let mut open = true;
    let mut i = 0;
    while i < N {
        if open && b[i] != b'"' && b[i] != b'\r' && b[i] != b'\n' {
            used = i + 1;
        } else {
            open = false;
        }
        i += 1;
    }
    let r = inside_string().parse(&mut input);
    match &r {
        Ok(s) => {
            let t = s.as_bytes();
            assert!(t.len() == used, "the literal's text is the maximal run up to the quote / line end");
            let mut i = 0;
            while i < N {
                if i < used {
                    assert!(t[i] == b[i], "the literal's text is the source text, verbatim");
                }
                i += 1;
            }
        }
        Err(_) => {
            assert!(false, "the text of a string literal may be anything (also empty)");
        }
    }
    assert!(input.get_position() == used, "the input is left at the closing quote / line end / end of text");
    std::mem::forget(r);
    std::mem::forget(input);
    (b, used)
}

//# harness inside_string_1 tier=quick label=bounded(1-char,ascii) props=C10 fn=rusty_parser/src/expr/string_literal.rs::inside_string timeout=300
harness!(inside_string_1, 3, {
    let (_, u0) = inside_body::<0>();
    assert!(u0 == 0);
    let (b, used) = inside_body::<1>();
    reach!(used == 0 && b[0] == b'"');
    reach!(used == 0 && b[0] == b'\n');
    reach!(used == 1 && b[0] == b'\\');
    reach!(used == 1 && b[0] == b'a');
});

//# harness inside_string_2 tier=thorough label=bounded(2-chars,ascii) props=C10 fn=rusty_parser/src/expr/string_literal.rs::inside_string timeout=600
harness!(inside_string_2, 3, {
    let (_, u0) = inside_body::<0>();
    assert!(u0 == 0);
    let (b, used) = inside_body::<2>();
    reach!(used == 0 && b[0] == b'"');
    reach!(used == 1 && b[1] == b'\r');
    reach!(used == 2 && b[0] == b'\\' && b[1] == b'n');
    reach!(used == 2 && b[0] == b'\'' && b[1] == b':');
});
