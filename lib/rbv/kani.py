"""Kani units: whole crates of the scratch copy, untouched, plus harness modules.
 kani_ext: an external harness crate depending on the scratch crates by path;
 kani_in : a `#[cfg(any(kani, rbverif_replay))] mod` appended to the scratch copy of one file."""
import glob
import hashlib
import os
import re
import shlex
import shutil

from .common import UNITS, env_offline, log, run, parse_kv, open_finding_ids

SUPPORT = os.path.join(UNITS, 'support', 'verif_support.rs')


class Harness:
    def __init__(self, unit, name, kv):
        self.unit = unit
        self.name = name
        self.tier = kv.get('tier', 'quick')
        # tier.<Cxx>=thorough: under property <Cxx> the harness runs in the thorough tier only (it stays a quick
        # obligation of the other properties it is listed for)
        self.tier_by_prop = {k[5:]: v for k, v in kv.items() if k.startswith('tier.')}
        self.label = kv.get('label', 'complete')      # complete | bounded(...)
        self.props = [p for p in kv.get('props', '').split(',') if p]
        self.fn = kv.get('fn', '')
        self.expect = kv.get('expect', 'pass')          # pass | finding:<ID>
        self.timeout = int(kv.get('timeout', '900'))
        self.attempt = kv.get('attempt', '') == '1'
        # expect=finding:<ID> standalone=1: the finding covers every input of this obligation, so no main harness
        # repeats it; when <ID> is not listed open the harness runs as an ordinary obligation instead of being skipped
        self.standalone = kv.get('standalone', '') == '1'
        self.result = None

    def tier_for(self, prop):
        return self.tier_by_prop.get(prop, self.tier)

    @property
    def oblig(self):
        return '%s::%s' % (self.unit.name, self.name)


class KaniUnit:
    def __init__(self, path):
        self.path = path
        text = open(path).read()
        self.text = text
        self.harnesses = []
        self.kind = None
        self.name = None
        self.crate = None
        self.inject = None
        self.notes = []
        self.deps = []
        self.stubbing = False
        self.supports = []      # //# support FILE: units/support/FILE is included in the harness module after verif_support.rs
        for ln in text.split('\n'):
            s = ln.strip()
            if not s.startswith('//#'):
                continue
            parts = shlex.split(s[3:].strip())
            if not parts:
                continue
            if parts[0] == 'unit':
                self.name = parts[1]
                kv = parse_kv(parts[2:])
                self.kind = kv['kind']
                self.crate = kv.get('crate')
                self.inject = kv.get('inject')
                # stubbing=1: the unit has modular harnesses (harness!(.., stub(callee, abstraction), ..)) -> -Z stubbing
                self.stubbing = kv.get('stubbing', '') == '1'
            elif parts[0] == 'harness':
                self.harnesses.append(Harness(self, parts[1], parse_kv(parts[2:])))
            elif parts[0] == 'assume':
                self.notes.append(' '.join(parts[1:]))
            elif parts[0] == 'support':
                self.supports.append(parts[1])
        declared = set(h.name for h in self.harnesses)
        defined = set(re.findall(r'^\s*harness(?:_cvc5|_bi)?!\(\s*(\w+)\s*,', text, re.M))
        if declared != defined:
            raise RuntimeError('%s: harness annotations and harness! definitions differ: %s' %
                               (path, sorted(declared ^ defined)))
        if self.kind == 'kani_ext':
            self.dir = os.path.dirname(os.path.dirname(path))
            self.crate = re.search(r'name\s*=\s*"([^"]+)"', open(os.path.join(self.dir, 'Cargo.toml')).read()).group(1)

    def mod_name(self):
        return 'verif_kani_' + self.name

    def module_path(self):
        """rust module path (within the crate) of the file the unit is injected in"""
        if self.kind == 'kani_ext':
            return ''
        rel = self.inject.split('/src/', 1)[1]
        rel = rel[:-3]
        parts = rel.split('/')
        if parts[-1] in ('mod', 'lib', 'main'):
            parts = parts[:-1]
        return '::'.join(parts)

    def full_harness(self, h):
        mp = self.module_path()
        if self.kind == 'kani_ext':
            return h.name
        return '::'.join([p for p in [mp, self.mod_name(), h.name] if p])


def load_kani_units():
    units = {}
    for p in sorted(glob.glob(os.path.join(UNITS, 'kani_ext', '*', 'src', 'lib.rs'))) + \
            sorted(glob.glob(os.path.join(UNITS, 'kani_in', '*.rs'))):
        u = KaniUnit(p)
        units[u.name] = u
    return units


def kf_consts(text):
    """const KF_<ID>: bool for every finding id the unit mentions: true iff listed open in known_findings.json"""
    ids = sorted(set(re.findall(r'\bKF_([A-Z0-9_]+)\b', text)))
    open_ids = open_finding_ids()
    return ''.join('#[allow(dead_code)] pub const KF_%s: bool = %s;\n' % (i, 'true' if i in open_ids else 'false') for i in ids)


def replay_entry(unit, keep=None):
    names = [h.name for h in unit.harnesses if keep is None or h.name in keep]
    tbl = ', '.join('("%s", %s as fn())' % (n, n) for n in names)
    return ('\n#[cfg(all(test, not(kani)))]\n#[test]\nfn rbverif_replay_entry_%s() {\n    vs::replay_main(&[%s]);\n}\n'
            % (unit.name, tbl))


def strip_harnesses(text, keep):
    """remove the `harness!(name, ..)` invocations whose name is not in `keep` (cost only: Kani compiles every
    harness of the crate; a run for one property/tier compiles only the obligations it is going to check)"""
    if keep is None:
        return text
    from .rustlex import lex, sig, match_close
    st = sig(lex(text))
    cuts = []
    i = 0
    while i + 3 < len(st):
        t = st[i]
        if t.kind == 'ident' and t.text in ('harness', 'harness_cvc5', 'harness_bi') and st[i + 1].text == '!' and st[i + 2].text == '(' \
                and st[i + 3].kind == 'ident' and (i == 0 or st[i - 1].text != 'macro_rules'):
            k = match_close(st, i + 2)
            end = st[k].end
            if k + 1 < len(st) and st[k + 1].text == ';':
                end = st[k + 1].end
            if st[i + 3].text not in keep:
                cuts.append((t.start, end))
            i = k + 1
            continue
        i += 1
    out = []
    pos = 0
    for a, b in cuts:
        out.append(text[pos:a])
        out.append('/* harness not selected for this run */')
        pos = b
    out.append(text[pos:])
    return ''.join(out)


# (workdir, crate) pairs of the scratch copy that received a harness module with `kani::stub` attributes: every cargo kani
# call on such a crate needs `-Z stubbing`, also for the units of the same crate that do not stub anything themselves
STUBBING_PKGS = set()


def prepare(unit, scratch, keep=None):
    """materialise the unit in the scratch copy. Returns dict(workdir, pkg, sha_before) or raises AnchorLost-like"""
    support = open(SUPPORT).read()
    for extra_support in unit.supports:
        support += '\n' + open(os.path.join(os.path.dirname(SUPPORT), extra_support)).read()
    if unit.stubbing and unit.kind != 'kani_ext':
        STUBBING_PKGS.add((scratch.repo, unit.crate))
    if unit.kind == 'kani_ext':
        dst = os.path.join(scratch.dir, 'ext', unit.name)
        if os.path.exists(dst):
            shutil.rmtree(dst)
        shutil.copytree(unit.dir, dst)
        ct = open(os.path.join(dst, 'Cargo.toml')).read().replace('@SCRATCH@', scratch.repo)
        open(os.path.join(dst, 'Cargo.toml'), 'w').write(ct)
        shutil.copy(SUPPORT, os.path.join(dst, 'src', 'verif_support.rs'))
        lib = strip_harnesses(open(os.path.join(dst, 'src', 'lib.rs')).read(), keep)
        lib += '\n' + kf_consts(lib) + replay_entry(unit, keep)
        open(os.path.join(dst, 'src', 'lib.rs'), 'w').write(lib)
        lock = os.path.join(scratch.repo, 'Cargo.lock')
        if os.path.exists(lock):
            shutil.copy(lock, os.path.join(dst, 'Cargo.lock'))
        return {'workdir': dst, 'pkg': None, 'sha_before': None}
    target = os.path.join(scratch.repo, unit.inject)
    if not os.path.exists(target):
        raise LookupError('anchor file %s no longer exists' % unit.inject)
    orig = open(target).read()
    marker = '// RBVERIF-INJECTED %s' % unit.name
    if marker in orig:
        return {'workdir': scratch.repo, 'pkg': unit.crate, 'sha_before': None}
    sha = hashlib.sha256(orig.encode()).hexdigest()
    body = strip_harnesses(re.sub(r'^(\s*)//!', r'\1//', unit.text, flags=re.M), keep)
    mod = ('\n%s\n#[cfg(any(kani, rbverif_replay))]\n#[allow(unused_imports, dead_code, unused_variables, unused_mut, clippy::all)]\n'
           'mod %s {\n    use super::*;\n%s\n%s\n%s\n%s}\n' % (marker, unit.mod_name(), support, body, kf_consts(unit.text), replay_entry(unit, keep)))
    open(target, 'w').write(orig + mod)
    return {'workdir': scratch.repo, 'pkg': unit.crate, 'sha_before': sha}


def kani_cmd(unit, prep, extra):
    cmd = ['cargo', 'kani']
    if prep['pkg']:
        cmd += ['-p', prep['pkg']]
    if unit.stubbing or (prep['workdir'], prep['pkg']) in STUBBING_PKGS:
        cmd += ['-Z', 'stubbing']
    return cmd + extra


def target_dir(unit, prep, scratch):
    # one build directory per package, so that independent packages build side by side (no cargo lock contention)
    return os.path.join(scratch.dir, 'target-kani-%s' % (prep['pkg'] or unit.name))


def build(unit, prep, scratch, timeout=1800):
    env = env_offline({'CARGO_TARGET_DIR': target_dir(unit, prep, scratch)})
    rc, out, secs, to = run(kani_cmd(unit, prep, ['--only-codegen']), cwd=prep['workdir'], env=env, timeout=timeout)
    return rc == 0 and not to, out, secs


RE_FAILED = re.compile(r'^Failed Checks: (.*)$', re.M)
RE_SUMMARY = re.compile(r'\*\* (\d+) of (\d+) failed')
RE_COVER = re.compile(r'\*\* (\d+) of (\d+) cover properties satisfied')
RE_TIME = re.compile(r'Verification Time: ([0-9.]+)s')


def parse_result(out, rc, timed_out):
    r = {'status': None, 'failed_checks': [], 'checks': 0, 'covers': None, 'time_s': None}
    if timed_out:
        r['status'] = 'timeout'
        return r
    m = RE_TIME.search(out)
    if m:
        r['time_s'] = float(m.group(1))
    m = RE_SUMMARY.search(out)
    if m:
        r['checks'] = int(m.group(2))
    m = RE_COVER.search(out)
    if m:
        r['covers'] = (int(m.group(1)), int(m.group(2)))
    r['failed_checks'] = [x.strip() for x in RE_FAILED.findall(out)]
    if 'is not currently supported by Kani' in out and 'VERIFICATION:- SUCCESSFUL' not in out:
        r['status'] = 'unsupported'
    elif 'VERIFICATION:- SUCCESSFUL' in out:
        if r['covers'] and r['covers'][0] != r['covers'][1]:
            r['status'] = 'cover-lost'
        else:
            r['status'] = 'pass'
    elif 'VERIFICATION:- FAILED' in out:
        real = [c for c in r['failed_checks'] if not c.startswith('unwinding assertion')]
        if 'CBMC failed' in out or 'out of memory' in out or 'CBMC timed out' in out:
            r['status'] = 'oom'          # the solver did not finish: a tool limit, never a verdict
        elif real:
            r['status'] = 'fail'
        elif r['failed_checks']:
            r['status'] = 'unwind'
        else:
            r['status'] = 'tool-error'   # FAILED without any failed check: not a verdict either
    elif re.search(r'error(\[E\d+\])?:', out) and 'could not compile' in out:
        r['status'] = 'compile-error'
    elif 'no harnesses matched' in out or 'No proof harnesses' in out:
        r['status'] = 'no-harness'
    else:
        r['status'] = 'tool-error'
    return r


def run_harness(unit, h, prep, scratch, playback=False):
    env = env_offline({'CARGO_TARGET_DIR': target_dir(unit, prep, scratch)})
    extra = ['--harness', unit.full_harness(h), '--exact', '--output-format', 'terse']
    if playback:
        extra = ['--harness', unit.full_harness(h), '--exact', '-Z', 'concrete-playback', '--concrete-playback=print']
    rc, out, secs, to = run(kani_cmd(unit, prep, extra), cwd=prep['workdir'], env=env, timeout=h.timeout)
    r = parse_result(out, rc, to)
    r['wall_s'] = round(secs, 2)
    r['log'] = out
    return r


RE_TEST = re.compile(r'/// Check for `([^`]*)`: "+(.*?)"+\s*\n(?:(?:///[^\n]*)?\n)*#\[test\]\nfn (\w+)\(\) \{\n\s*let concrete_vals: Vec<Vec<u8>> = vec!\[(.*?)\n\s*\];', re.S)


def parse_playback(out):
    """returns list of (check_kind, description, [ints])"""
    res = []
    for m in RE_TEST.finditer(out):
        vals = []
        for vm in re.finditer(r'vec!\[([0-9,\s]*)\]', m.group(4)):
            bs = [int(x) for x in vm.group(1).replace(' ', '').split(',') if x]
            v = 0
            for i, b in enumerate(bs):
                v |= b << (8 * i)
            vals.append(v)
        res.append((m.group(1), m.group(2), vals))
    return res


def native_replay(unit, scratch, harness_name, vals, timeout=1800):
    """run the harness body natively on the given values against the scratch copy of the real code"""
    prep = prepare(unit, scratch)
    vf = os.path.join(scratch.dir, 'replay_input.txt')
    open(vf, 'w').write(harness_name + '\n' + ''.join('%d\n' % v for v in vals))
    env = env_offline({'CARGO_TARGET_DIR': os.path.join(scratch.dir, 'target-native'),
                       'RUSTFLAGS': '--cfg rbverif_replay -A warnings', 'RBVERIF_REPLAY': vf})
    cmd = ['cargo', 'test', '--offline']
    if prep['pkg']:
        cmd += ['-p', prep['pkg']]
    cmd += ['--lib', 'rbverif_replay_entry_' + unit.name, '--', '--nocapture', '--test-threads', '1']
    rc, out, secs, to = run(cmd, cwd=prep['workdir'], env=env, timeout=timeout)
    m = re.search(r'RBVERIF_REPLAY_RESULT (\S+) harness=(\S+)(.*)', out)
    if to:
        return 'timeout', out
    if not m:
        return 'error', out
    return m.group(1), out
