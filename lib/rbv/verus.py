"""Verus units: single-file verification of functions extracted mechanically on every run."""
import glob
import json
import os
import re

from .common import UNITS, env_offline, log, run2
from .extract import Assembler, AnchorLost, UnitSyntax

# messages that are failed proof obligations (everything else at level=error is a front-end problem)
VERIF_ERRS = [
    'postcondition not satisfied', 'precondition not satisfied', 'invariant not satisfied',
    'assertion failed', 'possible arithmetic underflow/overflow', 'possible division by zero',
    'decreases not satisfied', 'possible bit shift underflow/overflow', 'recommendation not met',
    'could not prove termination', 'loop invariant not satisfied', 'assertion not satisfied',
    'unreachable code', 'could not show', 'not all trait items', 'possible truncation',
    # custom-message preconditions of vstd, e.g. slice/Vec indexing: "precondition not met: index in bounds for this access"
    'precondition not met',
    'failed this postcondition', 'unable to prove post-condition of closure', 'fails to satisfy `callee.requires(args)`', 'constructed value may fail to meet its declared type invariant',
]
RLIMIT_ERRS = ['Resource limit (rlimit) exceeded', 'rlimit exceeded', 'canceled']


class VerusUnit:
    def __init__(self, path):
        self.path = path
        self.kind = 'verus'
        a = Assembler('/nonexistent', path)
        # cheap metadata parse (no extraction)
        for ln in open(path).read().split('\n'):
            s = ln.strip()
            if s.startswith('//#'):
                a._meta(s[3:].strip())
        self.meta = a.meta
        self.name = a.meta['unit']
        self.props = a.meta['props']
        self.tier = a.meta.get('tier', 'quick')
        self.expected = a.meta.get('expected', 'discharged')
        self.notes = a.meta['notes']


def load_verus_units():
    units = {}
    for p in sorted(glob.glob(os.path.join(UNITS, 'verus', '*.vu'))):
        u = VerusUnit(p)
        units[u.name] = u
    return units


def count_trusted(text):
    # strip comments first
    code = re.sub(r'//[^\n]*', '', text)
    return {
        'assume_specification': len(re.findall(r'\bassume_specification\b', code)),
        'external_body': len(re.findall(r'external_body', code)),
        'external_type_specification': len(re.findall(r'external_type_specification', code)),
        'external_trait_specification': len(re.findall(r'external_trait_specification', code)),
        'assume': len(re.findall(r'\bassume\s*\(', code)),
        'admit': len(re.findall(r'\badmit\s*\(', code)),
        'external': len(re.findall(r'verifier::external\b(?!_)', code)),
        'axiom': len(re.findall(r'\baxiom\s+fn\b|broadcast\s+axiom', code)),
    }


def enclosing_fn(text, line):
    lines = text.split('\n')
    for i in range(min(line, len(lines)) - 1, -1, -1):
        m = re.search(r'\bfn\s+(\w+)', lines[i])
        if m and not lines[i].strip().startswith('//'):
            return m.group(1)
    return '?'


def run_verus(path, timeout, extra=None, multiple_errors=20):
    cmd = ['verus', path, '--output-json', '--time-expanded', '--error-format=json', '--triggers-mode', 'silent',
           '--multiple-errors', str(multiple_errors)] + (extra or [])
    rc, out, err, secs, to = run2(cmd, cwd=os.path.dirname(path), env=env_offline(), timeout=timeout)
    res = {'rc': rc, 'timed_out': to, 'wall_s': round(secs, 2), 'json': None, 'diags': [], 'raw_err': err[-6000:]}
    try:
        res['json'] = json.loads(out)
    except Exception:
        res['json'] = None
    for ln in err.split('\n'):
        ln = ln.strip()
        if ln.startswith('{') and '"$message_type"' in ln:
            try:
                d = json.loads(ln)
            except Exception:
                continue
            if d.get('$message_type') == 'diagnostic':
                res['diags'].append(d)
    return res


def classify(res, text):
    """-> dict(status, failed=[{fn, kind, line, rendered}], frontend=[msg], fns=[{function,time_ms,success}])"""
    o = {'status': None, 'failed': [], 'frontend': [], 'fns': [], 'verified': 0, 'errors': 0, 'smt_ms': None}
    if res['timed_out']:
        o['status'] = 'timeout'
        return o
    j = res['json']
    if j:
        vr = j.get('verification-results', {})
        o['verified'] = vr.get('verified', 0)
        o['errors'] = vr.get('errors', 0)
        try:
            smt = j['times-ms']['smt']
            o['smt_ms'] = smt.get('total')
            for mod in smt.get('smt-run-module-times', []):
                for fb in mod.get('function-breakdown', []):
                    o['fns'].append({'function': fb['function'], 'mode': fb.get('mode:', fb.get('mode')),
                                     'time_ms': fb.get('time'), 'rlimit': fb.get('rlimit'), 'success': fb.get('success')})
        except Exception:
            pass
    for d in res['diags']:
        if d.get('level') != 'error':
            continue
        msg = d.get('message', '')
        if msg.startswith('aborting due to'):
            continue
        line = None
        for sp in d.get('spans', []):
            if sp.get('is_primary'):
                line = sp.get('line_start')
        if any(k in msg for k in RLIMIT_ERRS):
            o['frontend'].append('rlimit: ' + msg)
            continue
        if any(k in msg for k in VERIF_ERRS):
            # the function is the one containing the *body* span if any, else the primary span
            lines = [sp.get('line_start') for sp in d.get('spans', []) if sp.get('line_start')]
            fnline = max(lines) if lines else line
            o['failed'].append({'fn': enclosing_fn(text, fnline or 1), 'kind': msg, 'line': line,
                                'rendered': d.get('rendered', '')[:1500]})
        else:
            o['frontend'].append(msg + (' @line %s' % line if line else ''))
    if o['frontend']:
        o['status'] = 'rlimit' if all(m.startswith('rlimit') for m in o['frontend']) else 'front-end'
    elif o['failed']:
        o['status'] = 'fail'
    elif j and j.get('verification-results', {}).get('success'):
        o['status'] = 'pass'
    elif res['rc'] == 0 and j:
        o['status'] = 'pass'
    else:
        o['status'] = 'tool-error'
    return o
