//# unit int_bits_peek kind=kani_in crate=rusty_basic inject=rusty_basic/src/interpreter/context.rs
//! C19 — the byte view PEEK/POKE have of an INTEGER variable.  Contract (property statement): the two
//! bytes PEEK reads from and POKE writes to an INTEGER variable are its 16-bit two's-complement word,
//! low byte first; poking one byte leaves the other unchanged; the variable still holds an INTEGER
//! (C06) afterwards.  `Context::peek/poke` only call `peek_byte/poke_byte` with
//! `address - offset < var.byte_size()`, hence the precondition `address < byte_size() == 2`
//! (byte_size is checked here too, so the index into the 2-byte array cannot go out of bounds).
//! All 65536 values x both addresses x all 256 poked bytes; loops of width 16 unwound 18: complete.

//# harness peek_integer tier=quick label=complete props=C19 fn=rusty_basic/src/interpreter/context.rs::PeekByte::peek_byte
harness!(peek_integer, 18, {
    let a = vs::i16();
    let v = Variant::VInteger(a as i32);
    assert!(v.byte_size() == 2, "an INTEGER variable occupies two bytes");
    let address = vs::usize();
    vs::assume(address < v.byte_size());
    let r = v.peek_byte(address);
    let expected = a.to_le_bytes()[address];
    let ok = matches!(r, Ok(b) if b == expected);
    assert!(ok, "PEEK does not read the addressed byte of the 16-bit word (low byte first)");
    reach!(address == 1 && expected == 0x80);
    reach!(address == 0 && expected == 0xff);
    std::mem::forget(r);
    std::mem::forget(v);
});

//# harness poke_integer tier=quick label=complete props=C19,C06 fn=rusty_basic/src/interpreter/context.rs::PokeByte::poke_byte
harness!(poke_integer, 18, {
    let a = vs::i16();
    let mut v = Variant::VInteger(a as i32);
    let address = vs::usize();
    vs::assume(address < 2);
    let value = vs::u8();
    let r = v.poke_byte(address, value);
    assert!(r.is_ok(), "POKE into an INTEGER variable fails");
    let mut bytes = a.to_le_bytes();
    bytes[address] = value; // the other byte keeps its old content
    let expected = i16::from_le_bytes(bytes) as i32;
    let ok = matches!(v, Variant::VInteger(n) if n == expected);
    assert!(ok, "POKE does not replace exactly the addressed byte of the 16-bit word");
    // reading back
    let back = v.peek_byte(address);
    let ok_back = matches!(back, Ok(b) if b == value);
    assert!(ok_back, "PEEK after POKE does not return the poked byte");
    let other = v.peek_byte(1 - address);
    let ok_other = matches!(other, Ok(b) if b == a.to_le_bytes()[1 - address]);
    assert!(ok_other, "POKE changed the other byte");
    reach!(address == 1 && expected == -32768);
    reach!(address == 0 && expected == 255);
    std::mem::forget(r);
    std::mem::forget(back);
    std::mem::forget(other);
    std::mem::forget(v);
});

// C08 -- "never ends in an internal failure such as a panic": PEEK / POKE reach a variable of ANY scalar type through
// VARPTR / VARSEG (the checker puts no restriction on the variable), so the byte view must be total on every scalar kind:
// a BASIC-level outcome (the byte, or an error the program can trap), never a panic.  One harness per concrete kind.
//# harness peek_poke_long_total tier=quick label=complete props=C08 fn=rusty_basic/src/interpreter/context.rs::PeekByte::peek_byte
harness!(peek_poke_long_total, 18, {
    let mut v = Variant::VLong(vs::i32() as i64);
    let address = vs::usize();
    vs::assume(address < 4);
    let r = v.peek_byte(address);
    let w = v.poke_byte(address, vs::u8());
    reach!(address == 3);
    std::mem::forget(r);
    std::mem::forget(w);
    std::mem::forget(v);
});

//# harness peek_poke_single_total tier=quick label=complete props=C08 fn=rusty_basic/src/interpreter/context.rs::PeekByte::peek_byte
harness!(peek_poke_single_total, 18, {
    let mut v = Variant::VSingle(vs::f32());
    let address = vs::usize();
    vs::assume(address < 4);
    let r = v.peek_byte(address);
    let w = v.poke_byte(address, vs::u8());
    reach!(address == 0);
    std::mem::forget(r);
    std::mem::forget(w);
    std::mem::forget(v);
});

//# harness peek_poke_double_total tier=quick label=complete props=C08 fn=rusty_basic/src/interpreter/context.rs::PeekByte::peek_byte
harness!(peek_poke_double_total, 18, {
    let mut v = Variant::VDouble(vs::f64());
    let address = vs::usize();
    vs::assume(address < 8);
    let r = v.peek_byte(address);
    let w = v.poke_byte(address, vs::u8());
    reach!(address == 7);
    std::mem::forget(r);
    std::mem::forget(w);
    std::mem::forget(v);
});
