//# unit error_codes kind=kani_in crate=rusty_basic inject=rusty_basic/src/interpreter/error.rs
//! C05 / C08 / C18 — run-time error codes.  Contract (from the property statements): every run-time
//! error value has a code — `get_code` is total, so the dispatch loop's `e.err().get_code()` can never
//! end the program with an internal failure — and the codes the statements name are exactly
//! 3, 5, 6, 9, 11, 13, 20, 52, 53, 55, 62.  Enum-complete and loop-free: a complete proof.

fn any_lint_error() -> LintError {
    match vs::choice(24) {
        0 => LintError::ArgumentCountMismatch,
        1 => LintError::ArgumentTypeMismatch,
        2 => LintError::ArrayAlreadyDimensioned,
        3 => LintError::ArrayNotDefined,
        4 => LintError::DivisionByZero,
        5 => LintError::DotClash,
        6 => LintError::DuplicateDefinition,
        7 => LintError::DuplicateLabel,
        8 => LintError::ElementNotDefined,
        9 => LintError::FunctionNeedsArguments,
        10 => LintError::IllegalInSubFunction,
        11 => LintError::IllegalOutsideSubFunction,
        12 => LintError::InvalidConstant,
        13 => LintError::LabelNotDefined,
        14 => LintError::NextWithoutFor,
        15 => LintError::OutOfStringSpace,
        16 => LintError::Overflow,
        17 => LintError::SubprogramNotDefined,
        18 => LintError::TypeMismatch,
        19 => LintError::TypeNotDefined,
        20 => LintError::VariableRequired,
        21 => LintError::WrongNumberOfDimensions,
        22 => LintError::NotFiniteNumber,
        _ => LintError::ParserError(rusty_parser::ParserError::NextWithoutFor),
    }
}

fn any_runtime_error() -> RuntimeError {
    match vs::choice(22) {
        0 => RuntimeError::BadFileMode,
        1 => RuntimeError::BadFileNameOrNumber,
        2 => RuntimeError::BadRecordLength,
        3 => RuntimeError::BadRecordNumber,
        4 => RuntimeError::DivisionByZero,
        5 => RuntimeError::ElementNotDefined,
        6 => RuntimeError::FieldOverflow,
        7 => RuntimeError::FileAlreadyOpen,
        8 => RuntimeError::FileNotFound,
        9 => RuntimeError::ForLoopZeroStep,
        10 => RuntimeError::DeviceIOError(String::new()),
        11 => RuntimeError::IllegalFunctionCall,
        12 => RuntimeError::InputPastEndOfFile,
        13 => RuntimeError::LinterError(any_lint_error()),
        14 => RuntimeError::OutOfData,
        15 => RuntimeError::Overflow,
        16 => RuntimeError::ReturnWithoutGoSub,
        17 => RuntimeError::SubscriptOutOfRange,
        18 => RuntimeError::TypeMismatch,
        19 => RuntimeError::VariableRequired,
        20 => RuntimeError::Other(String::new()),
        _ => RuntimeError::ResumeWithoutError,
    }
}

/// the codes named in the statements of C05, C17 and C18
fn stated_code(e: &RuntimeError) -> Option<i32> {
    match e {
        RuntimeError::ReturnWithoutGoSub => Some(3),
        RuntimeError::IllegalFunctionCall => Some(5),
        RuntimeError::Overflow => Some(6),
        RuntimeError::SubscriptOutOfRange => Some(9),
        RuntimeError::DivisionByZero => Some(11),
        RuntimeError::TypeMismatch => Some(13),
        RuntimeError::ResumeWithoutError => Some(20),
        RuntimeError::BadFileNameOrNumber => Some(52),
        RuntimeError::FileNotFound => Some(53),
        RuntimeError::FileAlreadyOpen => Some(55),
        RuntimeError::InputPastEndOfFile => Some(62),
        _ => None,
    }
}

//# harness get_code_total tier=quick label=complete props=C05,C08,C18 fn=rusty_basic/src/interpreter/error.rs::RuntimeError::get_code
harness!(get_code_total, 2, {
    let e = any_runtime_error();
    let code = e.get_code(); // must not panic, whatever the error
    assert!(code > 0, "ERR is non-zero for every error");
    if let Some(c) = stated_code(&e) {
        assert!(code == c, "code differs from the one the language prescribes");
    }
    reach!(code == 62);
    reach!(matches!(e, RuntimeError::LinterError(_)));
    std::mem::forget(e);
});

//# harness from_variant_error tier=quick label=complete props=C05,C06,C08 fn=rusty_basic/src/interpreter/error.rs::From<VariantError>::from
harness!(from_variant_error, 2, {
    let k = vs::choice(3);
    let ve = match k {
        0 => VariantError::DivisionByZero,
        1 => VariantError::Overflow,
        _ => VariantError::TypeMismatch,
    };
    let e = RuntimeError::from(ve);
    let code = e.get_code();
    assert!(code == match k { 0 => 11, 1 => 6, _ => 13 });
    let s = RuntimeError::from(SubscriptOutOfRangeError);
    assert!(s.get_code() == 9);
    reach!(code == 6);
});

//# harness from_lint_error tier=quick label=complete props=C05,C06,C08 fn=rusty_basic/src/interpreter/error.rs::From<LintError>::from
harness!(from_lint_error, 2, {
    let le = any_lint_error();
    let is_ovf = matches!(le, LintError::Overflow);
    let is_tm = matches!(le, LintError::TypeMismatch);
    let is_dz = matches!(le, LintError::DivisionByZero);
    let e = RuntimeError::from(le);
    let code = e.get_code(); // total on every converted checker error
    if is_ovf {
        assert!(code == 6);
    }
    if is_tm {
        assert!(code == 13);
    }
    if is_dz {
        assert!(code == 11);
    }
    reach!(is_ovf);
    reach!(!is_ovf && !is_tm && !is_dz);
    std::mem::forget(e);
});
