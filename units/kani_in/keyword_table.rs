//# unit keyword_table kind=kani_in crate=rusty_parser inject=rusty_parser/src/core/keyword.rs
//# assume "<[T]>::binary_search_by / binary_search are the real std implementations compiled by Kani (not assumed): they are executed symbolically on the concrete 78-entry tables"
//! C09 — "changing the case of keywords ... yields the same parse tree": keywords are recognised by a
//! case-insensitive binary search (`Keyword::try_from(&str)`) in the macro-generated table SORTED_KEYWORDS_STR.
//! Contract: (1) the string table is strictly ascending under rusty_common::cmp_str (the comparison the search
//! uses) and the enum table strictly ascending under the derived Ord (as_str searches it), same length;
//! (2) hence every table entry is found at its own index: try_from(STR[i]) == Ok(KW[i]) and KW[i].as_str() is
//! STR[i]; (3) every upper/lower/mixed-case spelling of a keyword maps to the same Keyword; (4) a spelling that
//! is found is a case-insensitive spelling of the keyword returned (an identifier is never mistaken for one).
//! The tables are concrete; the index / case mask are symbolic; all loops unwound with unwinding assertions.

const MAXLEN: usize = 8;

fn any_index() -> usize {
    let i = vs::usize();
    vs::assume(i < SORTED_KEYWORDS_STR.len());
    i
}

/// the spelling of keyword i with the letter case chosen by `mask` (bit k set = upper case for letter k)
fn spelled<'a>(i: usize, mask: u8, buf: &'a mut [u8; MAXLEN]) -> &'a str {
    let src = SORTED_KEYWORDS_STR[i].as_bytes();
    let n = src.len();
    assert!(n >= 1 && n <= MAXLEN, "keyword length within the harness buffer");
    let mut k = 0;
    while k < MAXLEN {
        if k < n {
            let b = src[k];
            assert!(b.is_ascii_alphabetic(), "keywords consist of letters");
            buf[k] = if (mask >> k) & 1 == 1 { b.to_ascii_uppercase() } else { b.to_ascii_lowercase() };
        }
        k += 1;
    }
    unsafe { std::str::from_utf8_unchecked(&buf[..n]) }
}

//# harness table_sorted tier=quick label=complete props=C09 fn=rusty_parser/src/core/keyword.rs::SORTED_KEYWORDS_STR
harness!(table_sorted, 10, {
    assert!(SORTED_KEYWORDS.len() == SORTED_KEYWORDS_STR.len(), "tables have the same length");
    assert!(SORTED_KEYWORDS.len() >= 70, "the table is the real one");
    let i = any_index();
    vs::assume(i >= 1);
    assert!(
        cmp_str(SORTED_KEYWORDS_STR[i - 1], SORTED_KEYWORDS_STR[i]) == std::cmp::Ordering::Less,
        "string table strictly ascending under the case-insensitive comparison used by the search"
    );
    assert!(SORTED_KEYWORDS[i - 1] < SORTED_KEYWORDS[i], "enum table strictly ascending under the derived Ord");
    reach!(i == SORTED_KEYWORDS_STR.len() - 1);
    reach!(i == 1);
});

//# harness as_str_aligned tier=quick label=complete props=C09 fn=rusty_parser/src/core/keyword.rs::Keyword::as_str
harness!(as_str_aligned, 10, {
    let i = any_index();
    let k = SORTED_KEYWORDS[i];
    assert!(std::ptr::eq(k.as_str(), SORTED_KEYWORDS_STR[i]), "as_str is the aligned string entry");
    reach!(i == 0);
    reach!(k == Keyword::Mod);
});

//# harness spelling_compares_equal tier=quick label=complete props=C09 fn=rusty_common/src/case_insensitive_utils.rs::cmp_str
harness!(spelling_compares_equal, 10, {
    // the key fact for the search: every case spelling of entry i compares Equal to entry i (so, the table being
    // strictly ascending, the binary search can only stop at index i)
    let i = any_index();
    let mask = vs::u8();
    let mut buf = [0u8; MAXLEN];
    let s = spelled(i, mask, &mut buf);
    assert!(cmp_str(SORTED_KEYWORDS_STR[i], s) == std::cmp::Ordering::Equal, "case-insensitive comparison ignores the spelling");
    reach!(SORTED_KEYWORDS[i] == Keyword::Function && mask == 0xAA);
    reach!(SORTED_KEYWORDS[i] == Keyword::To && mask & 3 == 0);
});

//# harness lookup_finds_every_entry tier=thorough label=complete props=C09 fn=rusty_parser/src/core/keyword.rs::Keyword::try_from timeout=3600
harness!(lookup_finds_every_entry, 10, {
    // the table spelling itself (mixed case, e.g. "ElseIf"), copied into a local buffer
    let i = any_index();
    let src = SORTED_KEYWORDS_STR[i].as_bytes();
    let n = src.len();
    assert!(n >= 1 && n <= MAXLEN);
    let mut buf = [0u8; MAXLEN];
    let mut k = 0;
    while k < MAXLEN {
        if k < n {
            buf[k] = src[k];
        }
        k += 1;
    }
    let s = unsafe { std::str::from_utf8_unchecked(&buf[..n]) };
    assert!(Keyword::try_from(s) == Ok(SORTED_KEYWORDS[i]), "the search finds entry i at index i");
    reach!(i == 0);
    reach!(SORTED_KEYWORDS[i] == Keyword::ElseIf);
});

//# harness named_keywords tier=quick label=complete props=C09,C10 fn=rusty_parser/src/core/keyword.rs::Keyword::try_from
harness!(named_keywords, 10, {
    // alignment of the two tables against an independent spelling list (the keyword operators and a few
    // statement keywords, in the three usual spellings)
    assert!(Keyword::try_from("MOD") == Ok(Keyword::Mod) && Keyword::try_from("mod") == Ok(Keyword::Mod));
    assert!(Keyword::try_from("AND") == Ok(Keyword::And) && Keyword::try_from("And") == Ok(Keyword::And));
    assert!(Keyword::try_from("OR") == Ok(Keyword::Or) && Keyword::try_from("or") == Ok(Keyword::Or));
    assert!(Keyword::try_from("NOT") == Ok(Keyword::Not) && Keyword::try_from("nOt") == Ok(Keyword::Not));
    assert!(Keyword::try_from("PRINT") == Ok(Keyword::Print) && Keyword::try_from("print") == Ok(Keyword::Print));
    assert!(Keyword::try_from("ElseIf") == Ok(Keyword::ElseIf) && Keyword::try_from("ELSEIF") == Ok(Keyword::ElseIf));
    assert!(Keyword::try_from("function") == Ok(Keyword::Function));
    assert!(Keyword::try_from("WIDTH") == Ok(Keyword::Width) && Keyword::try_from("access") == Ok(Keyword::Access));
    assert!(Keyword::try_from("PRIN").is_err() && Keyword::try_from("PRINTS").is_err() && Keyword::try_from("A").is_err());
});

//# harness case_variants_short tier=thorough timeout=3600 label=complete props=C09 fn=rusty_parser/src/core/keyword.rs::Keyword::try_from
harness!(case_variants_short, 10, {
    // keywords of up to 4 letters: all 2^len spellings
    let i = any_index();
    vs::assume(SORTED_KEYWORDS_STR[i].len() <= 4);
    let mask = vs::u8();
    let mut buf = [0u8; MAXLEN];
    let s = spelled(i, mask, &mut buf);
    assert!(Keyword::try_from(s) == Ok(SORTED_KEYWORDS[i]), "every case spelling of a keyword is that keyword");
    reach!(SORTED_KEYWORDS[i] == Keyword::Mod && mask & 7 == 5);
    reach!(SORTED_KEYWORDS[i] == Keyword::To);
    reach!(SORTED_KEYWORDS[i] == Keyword::Wend && mask & 15 == 0);
});

//# harness case_variants_all tier=thorough label=complete props=C09 fn=rusty_parser/src/core/keyword.rs::Keyword::try_from timeout=3600
harness!(case_variants_all, 10, {
    // every keyword (up to 8 letters): all 2^len spellings
    let i = any_index();
    let mask = vs::u8();
    let mut buf = [0u8; MAXLEN];
    let s = spelled(i, mask, &mut buf);
    assert!(Keyword::try_from(s) == Ok(SORTED_KEYWORDS[i]), "every case spelling of a keyword is that keyword");
    reach!(SORTED_KEYWORDS[i] == Keyword::Function && mask == 0xAA);
    reach!(SORTED_KEYWORDS[i] == Keyword::Declare);
});
