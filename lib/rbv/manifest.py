"""MANIFEST.json is generated from props.py and the unit files (./check --gen-manifest)."""
import json
import os

from . import kani as K
from . import verus as V
from .common import ROOT
from .props import PROPS, NOT_APPLICABLE


def gen():
    ku = K.load_kani_units()
    vu = V.load_verus_units()
    checks = []
    na = [dict(property_id=k, reason=v) for k, v in sorted(NOT_APPLICABLE.items())]
    for p in sorted(PROPS):
        spec = PROPS[p]
        has = any(p in h.props for u in ku.values() for h in u.harnesses) or any(p in u.props for u in vu.values())
        if not has:
            na.append(dict(property_id=p, reason='no contract unit built yet for this property (work in progress); intended units: see DESIGN.md section 4'))
            continue
        checks.append({
            'property_id': p,
            'quick_cmd': './check %s --tier quick' % p,
            'thorough_cmd': './check %s --tier thorough' % p,
            'evidence_file': 'evidence/%s.json' % p,
            'replay_cmd_template': './check --replay {path}',
            'engine': 'rbv',
            'level_claimed': {'category': 'proof', 'text': spec['level_text'], 'design_ref': spec.get('design_ref', 'DESIGN.md section 4 (%s)' % p)},
            'level_note': spec['level_note'],
            'technique': spec['technique'],
        })
    m = {
        'version': 1,
        'setup_cmd': 'python3 -c "import sys; sys.path.insert(0, \'lib\'); import rbv.main" && verus --version >/dev/null && cargo kani --version >/dev/null',
        'hooks': {
            'guard': 'cfg(kani) / --cfg rbverif_replay',
            'enable': 'no commit in /repo: harness modules are appended to a scratch copy of the working tree at check time under #[cfg(any(kani, rbverif_replay))]; cargo kani sets cfg(kani), the native replay sets --cfg rbverif_replay',
            'baseline_off_cmd': 'cd /repo && cargo test --workspace --no-fail-fast --offline',
            'source_commits': [],
            'add_only': True,
        },
        'engines': [{
            'name': 'rbv', 'path': 'check',
            'serves_properties': [c['property_id'] for c in checks],
            'kind_free_text': 'contract-based deductive verification of the real code: Verus (Z3) on functions extracted mechanically from the working tree each run, Kani (CBMC) harness modules appended to a scratch copy of the untouched crates; per-obligation results, counterexample replay on the real code',
        }],
        'checks': checks,
        'not_applicable': na,
        'notes': 'exit 0: all obligations discharged (KNOWN-FINDING lines possible); exit 1 + VIOLATION line: an obligation failed; exit 2 + UNDECIDED line: tool limit (anchor lost, front-end error, timeout), never a VIOLATION. Bounded stand-ins are labelled and not counted in obligations/discharged.',
    }
    json.dump(m, open(os.path.join(ROOT, 'MANIFEST.json'), 'w'), indent=1)
    print('MANIFEST.json: %d checks, %d not_applicable' % (len(checks), len(na)))
