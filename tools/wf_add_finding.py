#!/usr/bin/env python3
# worker wf: add/replace a PROPOSED finding in this copy's known_findings.json (status open), keeping the file's formatting
import json, sys
fid, props, what = sys.argv[1], sys.argv[2].split(','), sys.argv[3]
p = 'known_findings.json'
d = json.load(open(p))
d['findings'] = [f for f in d['findings'] if f['id'] != fid] + [{"id": fid, "status": "open", "properties": props, "what": what}]
open(p, 'w').write(json.dumps(d, indent=1))
