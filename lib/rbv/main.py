"""./check driver: decides one property by running its contract units against /repo's current tree."""
import argparse
import concurrent.futures as cf
import hashlib
import json
import os
import re
import sys
import time

from . import kani as K
from . import verus as V
from .common import (ROOT, REPO, REPLAY_DIR, NCPU, Scratch, log, load_findings, open_finding_ids, repo_head,
                     repo_dirty, run)
from .extract import Assembler, AnchorLost, UnitSyntax
from .props import PROPS, NOT_APPLICABLE, TRUSTED_BASE

EVIDENCE_DIR = os.environ.get('RBVERIF_EVIDENCE_DIR') or os.path.join(ROOT, 'evidence')


class Outcome:
    """result of one obligation (or of a whole unit when it could not start)"""

    def __init__(self, unit, oblig, status, **kw):
        self.unit = unit            # unit name
        self.oblig = oblig          # unit::name
        self.status = status        # pass | fail | undecided | known | skipped
        self.reason = kw.get('reason', '')
        self.backend = kw.get('backend', '')
        self.label = kw.get('label', '')
        self.time_s = kw.get('time_s')
        self.detail = kw.get('detail', {})
        self.fn = kw.get('fn', '')
        self.attempt = kw.get('attempt', False)
        self.finding = kw.get('finding')
        self.replay = kw.get('replay')
        self.has_input = kw.get('has_input', False)


# ------------------------------------------------------------------------------------------------
# Kani
# ------------------------------------------------------------------------------------------------
def select_harnesses(unit, prop, tier):
    hs = []
    for h in unit.harnesses:
        if prop is not None and prop not in h.props:
            continue
        if tier == 'quick' and h.tier_for(prop) != 'quick':
            continue
        hs.append(h)
    return hs


def run_kani_units(units, prop, tier, scratch, jobs, only=None):
    """returns (outcomes, info)"""
    outcomes = []
    info = {'sha_before': {}, 'build_s': {}}
    open_ids = open_finding_ids()
    todo = []
    # prepare all first (so that crates shared by several units are built once)
    preps = {}
    for u in units:
        hs = select_harnesses(u, prop, tier)
        if only:
            hs = [h for h in hs if h.name in only]
        if not hs:
            continue
        try:
            preps[u.name] = K.prepare(u, scratch, keep=set(h.name for h in hs))
            if preps[u.name]['sha_before']:
                info['sha_before'][u.inject] = preps[u.name]['sha_before']
        except LookupError as e:
            for h in hs:
                outcomes.append(Outcome(u.name, h.oblig, 'undecided', reason='anchor-lost: %s' % e, backend='kani',
                                        label=h.label, fn=h.fn, attempt=h.attempt))
            continue
        todo.append((u, hs))
    # build once per (workdir, pkg); independent crates are built side by side
    built = {}
    first = {}
    for u, hs in todo:
        first.setdefault((preps[u.name]['workdir'], preps[u.name]['pkg']), u)

    def build_one(item):
        key, u = item
        log('[kani] building %s (%s)' % (u.crate, u.name))
        ok, out, secs = K.build(u, preps[u.name], scratch)
        log('[kani] build %s: %s in %.0fs' % (u.crate, 'ok' if ok else 'FAILED', secs))
        return key, u, ok, out, secs

    with cf.ThreadPoolExecutor(max_workers=max(1, min(4, jobs))) as ex:
        for key, u, ok, out, secs in ex.map(build_one, list(first.items())):
            built[key] = (ok, out)
            info['build_s']['%s' % (u.crate,)] = round(secs, 1)
    work = []
    for u, hs in todo:
        key = (preps[u.name]['workdir'], preps[u.name]['pkg'])
        ok, out = built[key]
        if not ok:
            tail = '\n'.join(out.strip().split('\n')[-30:])
            errs = [l for l in out.split('\n') if l.startswith('error')][:8]
            log('[kani] compile errors: ' + ' | '.join(errs))
            for h in hs:
                outcomes.append(Outcome(u.name, h.oblig, 'undecided', reason='front-end: harness crate does not compile',
                                        backend='kani', label=h.label, fn=h.fn, attempt=h.attempt, detail={'log': tail}))
            continue
        for h in hs:
            if h.expect.startswith('finding:') and h.expect.split(':', 1)[1] not in open_ids and not h.standalone:
                # the finding is not listed as open: nothing is carved out of the main harness, so this
                # reproduction harness is redundant
                continue
            work.append((u, h))

    def one(uh):
        u, h = uh
        r = K.run_harness(u, h, preps[u.name], scratch)
        return u, h, r

    with cf.ThreadPoolExecutor(max_workers=jobs) as ex:
        results = list(ex.map(one, work))
    # a CBMC that died for lack of memory (or was killed) under full parallel load gets one more run with little
    # company, so that machine load alone does not make a check come out UNDECIDED
    again = [i for i, (u, h, r) in enumerate(results) if r['status'] in ('oom', 'tool-error') and not h.attempt]
    if again:
        log('[kani] %d harness(es) ended for lack of resources; running them again, two at a time' % len(again))
        with cf.ThreadPoolExecutor(max_workers=2) as ex:
            for i, res in zip(again, ex.map(one, [work[i] for i in again])):
                res[2]['retried'] = True
                results[i] = res
    if True:
        for u, h, r in results:
            st = r['status']
            detail = {'failed_checks': r['failed_checks'], 'cbmc_properties': r['checks'], 'covers': r['covers'],
                      'wall_s': r['wall_s']}
            base = dict(backend='kani/cbmc', label=h.label, fn=h.fn, time_s=r.get('time_s') or r['wall_s'],
                        attempt=h.attempt, detail=detail)
            is_finding = h.expect.startswith('finding:') and h.expect.split(':', 1)[1] in open_ids
            fid = h.expect.split(':', 1)[1] if is_finding else None
            if st == 'pass':
                if is_finding:
                    outcomes.append(Outcome(u.name, h.oblig, 'pass', reason='finding %s no longer reproduces' % fid,
                                            finding=fid, **base))
                else:
                    outcomes.append(Outcome(u.name, h.oblig, 'pass', **base))
            elif st in ('fail', 'cover-lost'):
                if is_finding and st == 'fail':
                    outcomes.append(Outcome(u.name, h.oblig, 'known', finding=fid, reason='; '.join(r['failed_checks'][:3]), **base))
                    continue
                detail['log_tail'] = '\n'.join(r['log'].strip().split('\n')[-40:])
                if st == 'cover-lost':
                    detail['failed_checks'] = ['reachability witness (cover) no longer satisfiable: %s of %s' % r['covers']]
                outcomes.append(Outcome(u.name, h.oblig, 'fail', reason='; '.join(detail['failed_checks'][:3]), **base))
            else:
                detail['log_tail'] = '\n'.join(r['log'].strip().split('\n')[-25:])
                reason = {'timeout': 'timeout after %ds' % h.timeout, 'unwind': 'bound: unwinding assertion failed',
                          'compile-error': 'front-end: compile error', 'no-harness': 'anchor-lost: harness not found',
                          'tool-error': 'tool-error', 'oom': 'resource: CBMC ran out of memory / did not finish', 'unsupported': 'unsupported: a construct Kani cannot model is reachable'}.get(st, st)
                outcomes.append(Outcome(u.name, h.oblig, 'undecided', reason=reason, **base))
    return outcomes, info, preps


def _has_const(src, name):
    for kind in ('const', 'static'):
        try:
            src.find([(kind, name)])
            return True
        except LookupError:
            pass
    return False


def kani_counterexample(unit, h, prep, scratch):
    """re-run a failed harness with concrete playback; returns (vals or None, description, log_tail)"""
    r = K.run_harness(unit, h, prep, scratch, playback=True)
    tests = K.parse_playback(r['log'])
    for kind, desc, vals in tests:
        if kind != 'cover':
            return vals, '%s: %s' % (kind, desc), r['log'][-4000:]
    return None, '', r['log'][-4000:]


# ------------------------------------------------------------------------------------------------
# Verus
# ------------------------------------------------------------------------------------------------
def run_verus_unit(u, scratch, tier):
    """returns (outcomes, info)"""
    outs = []
    info = {'unit': u.name, 'extracted': [], 'dropped': [], 'rewrites': [], 'trusted': {}, 'smt_ms': None,
            'wall_s': 0, 'canaries': None}
    attempt = (u.expected == 'attempt')
    asm = Assembler(scratch.repo, u.path)
    vdir = os.path.join(scratch.dir, 'verus')
    os.makedirs(vdir, exist_ok=True)
    # finding ids carved out by `// KF:<ID>` lines in the unit text or in any file it includes (`//@ include[-external] NAME`)
    def _unit_texts(path, depth=0):
        try:
            t = open(path).read()
        except OSError:
            return ''
        out = t
        if depth < 8:
            for inc in re.findall(r'^\s*//@ include(?:-external)?\s+(\S+)\s*$', t, re.M):
                out += '\n' + _unit_texts(os.path.join(os.path.dirname(path), inc), depth + 1)
        return out
    kf_ids = sorted(set(re.findall(r'//\s*KF:(\w+)', _unit_texts(u.path))))
    open_ids = open_finding_ids()
    not_open = [k for k in kf_ids if k not in open_ids]
    try:
        text = asm.assemble(drop_kf=not_open)
    except AnchorLost as e:
        return [Outcome(u.name, u.name + '::*', 'undecided', reason='anchor-lost: %s' % e, backend='verus', attempt=attempt)], info
    except (UnitSyntax, Exception) as e:
        return [Outcome(u.name, u.name + '::*', 'undecided', reason='front-end: unit assembly failed: %r' % e,
                        backend='verus', attempt=attempt)], info
    info['extracted'] = list(asm.extracted)
    info['dropped'] = list(asm.dropped)
    info['rewrites'] = list(asm.rewrites)
    path = os.path.join(vdir, u.name + '.rs')
    open(path, 'w').write(text)
    trusted = V.count_trusted(text)
    info['trusted'] = trusted
    declared = asm.meta['declare']
    for k, n in trusted.items():
        if n > declared.get(k, 0):
            return [Outcome(u.name, u.name + '::*', 'undecided', backend='verus', attempt=attempt,
                            reason='undeclared-assumption: %d x %s in assembled file, %d declared' % (n, k, declared.get(k, 0)))], info
    timeout = int(asm.meta.get('timeout', 600))
    extra = []
    if asm.meta.get('rlimit'):
        extra += ['--rlimit', str(asm.meta['rlimit'])]
    res = V.run_verus(path, timeout, extra)
    c = V.classify(res, text)
    # A (auto-extraction): an extracted item refers to a top-level `const` / `static` of its own source file that the unit
    # does not name (a constant introduced by a later edit: `const TAB_WIDTH: u32 = 8;`).  The definition is added verbatim
    # (recorded) and the unit is run again, instead of ending UNDECIDED(front-end: cannot find value).
    for _round in range(3):
        if c['status'] != 'front-end':
            break
        missing = sorted(set(m for msg in c['frontend'] for m in re.findall(r'cannot find value `([A-Za-z_]\w*)` in this scope', msg)))
        added = []
        for name in missing:
            cands = list(asm.sources.items())
            if not any(_has_const(src_, name) for _rel, src_ in cands):
                # not in the files the unit extracts from: a `pub const` imported from another crate of the workspace
                # (`use rusty_bit_vec::MIN_INTEGER`) -- taken when the workspace defines exactly one top-level const of that name
                import glob as _glob
                found_ = []
                for pth in _glob.glob(os.path.join(scratch.repo, '*', 'src', '**', '*.rs'), recursive=True):
                    try:
                        if re.search(r'\bconst\s+%s\b' % re.escape(name), open(pth).read()):
                            found_.append(os.path.relpath(pth, scratch.repo))
                    except OSError:
                        pass
                if len(found_) == 1:
                    cands = [(found_[0], asm.source(found_[0]))]
            for rel, src in cands:
                for kind in ('const', 'static'):
                    try:
                        item, _parents = src.find([(kind, name)])
                    except LookupError:
                        continue
                    added.append(src.text[item.start:item.end])
                    asm.rewrites.append('A %s: %s %s referred to by an extracted item but not named by the unit: definition added verbatim' % (rel, kind, name))
                    asm.extracted.append({'file': rel, 'item': '%s %s (auto)' % (kind, name),
                                          'sha256': hashlib.sha256(src.text[item.start:item.end].encode()).hexdigest(),
                                          'lines': [src.line_of(item.start), src.line_of(item.end - 1)]})
                    break
                else:
                    continue
                break
        if not added or 'verus! {' not in text:
            break
        text = text.replace('verus! {', 'verus! {\n' + '\n'.join(added) + '\n', 1)
        open(path, 'w').write(text)
        info['extracted'] = list(asm.extracted)
        info['rewrites'] = list(asm.rewrites)
        res = V.run_verus(path, timeout, extra)
        c = V.classify(res, text)
    info['smt_ms'] = c['smt_ms']
    info['wall_s'] = res['wall_s']
    info['fn_origin'] = asm.fn_origin
    if c['status'] in ('timeout', 'front-end', 'rlimit', 'tool-error'):
        reason = {'timeout': 'timeout after %ds' % timeout, 'front-end': 'front-end: ' + '; '.join(c['frontend'][:3]),
                  'rlimit': 'rlimit: ' + '; '.join(c['frontend'][:2]), 'tool-error': 'tool-error: verus rc=%s' % res['rc']}[c['status']]
        return [Outcome(u.name, u.name + '::*', 'undecided', reason=reason, backend='verus', attempt=attempt,
                        detail={'stderr_tail': res['raw_err'][-2500:]})], info
    failed_fns = {}
    for f in c['failed']:
        failed_fns.setdefault(f['fn'], []).append(f)
    seen = set()
    matched_fail = set()
    for fb in c['fns']:
        name = fb['function'].split('::')[-1]
        full = fb['function']
        if full in seen:
            continue
        seen.add(full)
        short = re.sub(r'^[^:]*::', '', full)
        org = asm.fn_origin.get(name)
        fnref = '%s::%s' % org if org else 'lemma/spec in units/verus/%s.vu' % u.name
        # Verus reports success per function; several functions of a unit may share their last path segment
        # (three `parse` impls, two `seed` impls), so the diagnostics' fn *name* alone must not fail the others
        if fb['success'] and not (name in failed_fns and len(set(x['function'] for x in c['fns'] if x['function'].split('::')[-1] == name)) == 1):
            outs.append(Outcome(u.name, '%s::%s' % (u.name, short), 'pass', backend='verus/z3', label='proved',
                                time_s=(fb['time_ms'] or 0) / 1000.0, fn=fnref, attempt=attempt,
                                detail={'mode': fb['mode'], 'rlimit': fb['rlimit']}))
        else:
            errs = failed_fns.get(name, [])
            matched_fail.add(name)
            outs.append(Outcome(u.name, '%s::%s' % (u.name, short), 'fail', backend='verus/z3', label='proved', fn=fnref,
                                attempt=attempt, time_s=(fb['time_ms'] or 0) / 1000.0,
                                reason='; '.join('%s (assembled line %s)' % (e['kind'], e['line']) for e in errs[:4]) or 'verification failed',
                                detail={'errors': errs, 'line_map': [asm.origin_of_line(e['line']) if e['line'] else None for e in errs]}))
    for name, errs in failed_fns.items():
        if name in matched_fail:
            continue
        outs.append(Outcome(u.name, '%s::%s' % (u.name, name), 'fail', backend='verus/z3', label='proved', attempt=attempt,
                            reason='; '.join('%s (assembled line %s)' % (e['kind'], e['line']) for e in errs[:4]),
                            detail={'errors': errs}))
    npass = sum(1 for o in outs if o.status == 'pass')
    if not any(o.status == 'fail' for o in outs) and npass < asm.meta['min_obligations']:
        outs.append(Outcome(u.name, u.name + '::*', 'undecided', backend='verus', attempt=attempt,
                            reason='vacuous: %d obligations discharged, unit declares at least %d' % (npass, asm.meta['min_obligations'])))
    # known findings carved out of this unit (lines marked `// KF:<ID>`): re-run without the carve-out; the
    # obligation is expected to fail (-> KNOWN-FINDING line); if it no longer fails the defect has disappeared
    for fid in [k for k in kf_ids if k in open_ids]:
        asm3 = Assembler(scratch.repo, u.path)
        try:
            ftext = asm3.assemble(drop_kf=not_open + [fid])
        except Exception as e:
            continue
        fpath = os.path.join(vdir, '%s_finding_%s.rs' % (u.name, fid))
        open(fpath, 'w').write(ftext)
        fres = V.run_verus(fpath, timeout, extra)
        fc = V.classify(fres, ftext)
        if fc['status'] == 'fail':
            names = sorted(set(f['fn'] for f in fc['failed']))
            outs.append(Outcome(u.name, '%s::finding_%s' % (u.name, fid), 'known', backend='verus/z3', label='proved', finding=fid,
                                attempt=attempt, reason='without the carve-out: ' + ', '.join(names) + ' fail(s)'))
        elif fc['status'] == 'pass':
            outs.append(Outcome(u.name, '%s::finding_%s' % (u.name, fid), 'pass', backend='verus/z3', label='proved', finding=fid,
                                attempt=True, reason='finding %s no longer reproduces (unit verifies without the carve-out)' % fid))
    # vacuity canary: assert(false) at the head of every function under contract and every loop body must FAIL
    if not any(o.status == 'fail' for o in outs):
        asm2 = Assembler(scratch.repo, u.path)
        ctext = asm2.assemble(canary=True, drop_kf=not_open)
        if asm2.canaries:
            cpath = os.path.join(vdir, u.name + '_canary.rs')
            open(cpath, 'w').write(ctext)
            cres = V.run_verus(cpath, timeout, extra, multiple_errors=500)
            canary_lines = set(i + 1 for i, l in enumerate(ctext.split('\n')) if 'RBVERIF_CANARY' in l)
            hit = set()
            for d in cres['diags']:
                if d.get('level') == 'error' and 'assertion failed' in d.get('message', ''):
                    for sp in d.get('spans', []):
                        if sp.get('line_start') in canary_lines:
                            hit.add(sp.get('line_start'))
            info['canaries'] = {'inserted': len(canary_lines), 'failed_as_required': len(hit), 'wall_s': cres['wall_s']}
            if len(hit) < len(canary_lines) and not cres['timed_out']:
                missing = sorted(canary_lines - hit)
                fns = sorted(set(V.enclosing_fn(ctext, l) for l in missing))
                outs.append(Outcome(u.name, u.name + '::canary', 'undecided', backend='verus', attempt=attempt,
                                    reason='vacuous: assert(false) is provable in %s (contradictory precondition/invariant or unreachable code)' % ','.join(fns)))
    return outs, info


# ------------------------------------------------------------------------------------------------
# property check
# ------------------------------------------------------------------------------------------------
def write_replay(prop, o, extra):
    os.makedirs(REPLAY_DIR, exist_ok=True)
    safe = re.sub(r'[^A-Za-z0-9_.-]', '_', o.oblig)
    path = os.path.join(REPLAY_DIR, '%s_%s.json' % (prop, safe))
    d = {'property': prop, 'unit': o.unit, 'obligation': o.oblig, 'backend': o.backend, 'function': o.fn,
         'reason': o.reason, 'detail': o.detail, 'repo_head': repo_head()}
    d.update(extra)
    json.dump(d, open(path, 'w'), indent=1, default=str)
    return path


def _touches(unit_path, files, seen=None):
    """selftest only (RBVERIF_TOUCHING): does the unit's text - with the .vui files it includes - name one of the files?"""
    seen = seen if seen is not None else set()
    if unit_path in seen or not os.path.exists(unit_path):
        return False
    seen.add(unit_path)
    text = open(unit_path).read()
    if any(f in text for f in files):
        return True
    d = os.path.dirname(unit_path)
    for m in re.finditer(r'^//@ include(?:-external)? (\S+)', text, re.M):
        n = m.group(1)
        for cand in (n, n + '.vui', n + '.vu'):
            if _touches(os.path.join(d, cand), files, seen):
                return True
    return False


def check_property(prop, tier, seed, jobs, keep=False, only_units=None, only_harness=None):
    t0 = time.time()
    spec = PROPS[prop]
    kunits = K.load_kani_units()
    vunits = V.load_verus_units()
    findings = load_findings()
    open_ids = open_finding_ids(findings)
    scratch = Scratch(keep=keep)
    outcomes = []
    vinfo = {}
    kinfo = {}
    try:
        # Verus units first (cheap), in parallel
        vsel = [u for u in vunits.values() if prop in u.props and (tier == 'thorough' or u.tier == 'quick')]
        if only_units:
            vsel = [u for u in vsel if u.name in only_units]
        touching = [f for f in os.environ.get('RBVERIF_TOUCHING', '').split(':') if f]
        if touching and not os.environ.get('RBVERIF_EVIDENCE_DIR'):
            raise SystemExit('RBVERIF_TOUCHING is for selftest.sh only (needs RBVERIF_EVIDENCE_DIR): a registered check always runs every unit')
        if touching:
            # development-time self-test only: units that do not name any of the patched files are skipped
            vsel = [u for u in vsel if _touches(u.path, touching)]
        with cf.ThreadPoolExecutor(max_workers=max(1, min(jobs, 8))) as ex:
            for u, (outs, info) in zip(vsel, ex.map(lambda u: run_verus_unit(u, scratch, tier), vsel)):
                rx = u.meta.get('only', {}).get(prop)
                if rx:
                    # the unit serves this property with part of its functions only: the rest is decided under the
                    # properties the unit lists without a filter and is neither counted nor reported here
                    info['only_filter'] = rx
                    outs = [o for o in outs if o.status == 'undecided' or re.search(rx, o.oblig)]
                outcomes += outs
                vinfo[info['unit']] = info
        ksel = [u for u in kunits.values() if any(prop in h.props for h in u.harnesses)]
        if only_units:
            ksel = [u for u in ksel if u.name in only_units]
        if touching:
            ksel = [u for u in ksel if _touches(u.path, touching)]
        kouts, kinfo, preps = run_kani_units(ksel, prop, tier, scratch, jobs, only=only_harness)
        outcomes += kouts
        # counterexamples for failed Kani obligations
        violations = []
        for o in outcomes:
            if o.status != 'fail':
                continue
            extra = {}
            if o.backend.startswith('kani'):
                u = kunits[o.unit]
                h = next(h for h in u.harnesses if h.oblig == o.oblig)
                vals, desc, tail = kani_counterexample(u, h, preps[u.name], scratch)
                extra = {'kind': 'kani', 'harness': h.name, 'values': vals, 'failed_check': desc, 'playback_log_tail': tail}
                if vals is not None:
                    status, out = K.native_replay(u, scratch, h.name, vals)
                    extra['native_replay'] = status
                    extra['native_replay_log_tail'] = out[-1500:]
                    o.has_input = (status == 'fail')
            else:
                extra = {'kind': 'verus'}
            o.replay = write_replay(prop, o, extra)
            violations.append(o)
    finally:
        scratch.cleanup()
    # ---- report -----------------------------------------------------------------------------
    rc = 0
    known_seen = []
    for o in outcomes:
        if o.status == 'known':
            f = open_ids.get(o.finding, {})
            print('KNOWN-FINDING: property=%s %s %s' % (prop, o.oblig, f.get('what', o.reason)))
            known_seen.append(o.finding)
    for o in outcomes:
        if o.status == 'fail':
            line = 'VIOLATION property=%s replay=%s' % (prop, o.replay)
            if not o.has_input:
                line += ' no-failing-input-found'
            print(line)
            print('  failed obligation: %s  [%s]  %s' % (o.oblig, o.backend, o.reason))
            rc = 1
    undecided = [o for o in outcomes if o.status == 'undecided']
    for o in undecided:
        print('UNDECIDED property=%s unit=%s obligation=%s reason=%s%s' % (prop, o.unit, o.oblig, o.reason,
                                                                           ' (attempt unit: not counted)' if o.attempt else ''))
        if not o.attempt and rc == 0:
            rc = 2
    wall = time.time() - t0
    write_evidence(prop, spec, tier, seed, outcomes, vinfo, kinfo, wall, known_seen, kunits, vunits)
    proved = [o for o in outcomes if o.status == 'pass' and not o.label.startswith('bounded')]
    bounded = [o for o in outcomes if o.status == 'pass' and o.label.startswith('bounded')]
    print('%s tier=%s: %d obligations discharged (%d more bounded stand-ins passed), %d known findings, %d violations, %d undecided; %.0fs'
          % (prop, tier, len(proved), len(bounded), len(known_seen), sum(1 for o in outcomes if o.status == 'fail'),
             len(undecided), wall))
    return rc


def write_evidence(prop, spec, tier, seed, outcomes, vinfo, kinfo, wall, known_seen, kunits, vunits):
    os.makedirs(EVIDENCE_DIR, exist_ok=True)
    # a reproduction of a LISTED known finding (status 'known') is not an obligation of this run: the obligations are
    # stated on the complement of the listed findings' input sets and the reproductions are reported separately
    counted = [o for o in outcomes if o.status in ('pass', 'fail', 'undecided') and not o.label.startswith('bounded')
               and not (o.status == 'undecided' and o.attempt)]
    reproduced = [o for o in outcomes if o.status == 'known']
    discharged = [o for o in counted if o.status == 'pass']
    bounded = [o for o in outcomes if o.label.startswith('bounded')]
    fns = {}
    for o in outcomes:
        if o.fn:
            fns.setdefault(o.fn, {'obligations': 0, 'backends': set(), 'labels': set()})
            fns[o.fn]['obligations'] += 1
            fns[o.fn]['backends'].add(o.backend)
            fns[o.fn]['labels'].add(o.label)
    extracted = []
    dropped = []
    rewrites = []
    trusted_counts = {}
    canaries = {}
    smt_ms = 0
    assumptions = list(spec.get('assumptions', []))
    for name, info in vinfo.items():
        extracted += [dict(e, unit=name) for e in info.get('extracted', [])]
        dropped += info.get('dropped', [])
        rewrites += info.get('rewrites', [])
        trusted_counts[name] = info.get('trusted', {})
        canaries[name] = info.get('canaries')
        smt_ms += info.get('smt_ms') or 0
        assumptions += ['[%s] %s' % (name, n) for n in vunits[name].notes]
    for o in outcomes:
        if o.backend.startswith('kani') and o.unit in kunits:
            for n in kunits[o.unit].notes:
                s = '[%s] %s' % (o.unit, n)
                if s not in assumptions:
                    assumptions.append(s)
    samples = []
    for o in (discharged[:2] + [x for x in discharged if x.backend.startswith('verus')][:2] + bounded[:1]):
        samples.append({'obligation': o.oblig, 'function': o.fn, 'backend': o.backend, 'completeness': o.label,
                        'solver_time_s': o.time_s, 'detail': {k: v for k, v in o.detail.items() if k in ('cbmc_properties', 'covers', 'mode', 'rlimit')}})
    if not samples:
        samples = [{'obligation': o.oblig, 'status': o.status, 'reason': o.reason} for o in outcomes[:3]]
    ev = {
        'property_id': prop,
        'tier': tier,
        'seed': seed,
        'level': 'proof',
        'wall_s': round(wall, 1),
        'violations': sum(1 for o in outcomes if o.status == 'fail'),
        'coverage': {
            'obligations': len(counted),
            'discharged': len(discharged),
            'checker_cmd': 'verus <assembled unit>.rs --output-json --time-expanded  |  cargo kani [-p crate] --harness <h> --exact  (driven by /verif/check %s --tier %s)' % (prop, tier),
            'trusted_base': TRUSTED_BASE + spec.get('trusted', []),
            'samples': samples,
            'explanation': spec['decides'],
            'not_decided': spec['not_decided'],
            'functions_under_contract': [dict(function=k, obligations=v['obligations'], backends=sorted(v['backends']),
                                              completeness=sorted(v['labels'])) for k, v in sorted(fns.items())],
            'obligation_list': [dict(obligation=o.oblig, status=o.status, backend=o.backend, completeness=o.label,
                                     solver_time_s=o.time_s, reason=o.reason, function=o.fn,
                                     counted=(o in counted)) for o in outcomes],
            'bounded_units': [dict(obligation=o.oblig, bound=o.label, status=o.status, solver_time_s=o.time_s) for o in bounded],
            'solver_time_s': round(sum((o.time_s or 0) for o in outcomes), 2),
            'verus_smt_ms': smt_ms,
            'kani_build_s': kinfo.get('build_s', {}),
            'extracted_items': extracted,
            'dropped_by_extraction': dropped,
            'rewrites_applied': rewrites,
            'trusted_items_in_verus_units': trusted_counts,
            'vacuity_canaries': canaries,
            'injected_file_sha256_before': kinfo.get('sha_before', {}),
            'known_findings_seen': known_seen,
            'known_finding_reproductions': len(reproduced),
            'known_finding_note': ('%d obligation(s) of this run are reproductions of findings listed in known_findings.json: they '
                                   'fail as listed, are not counted under obligations/discharged, and the property is decided only '
                                   'on the complement of their input sets' % len(reproduced)) if reproduced else '',
            'undecided': [dict(obligation=o.oblig, reason=o.reason, attempt=o.attempt) for o in outcomes if o.status == 'undecided'],
            'repo_head': repo_head(),
            'repo_dirty_files': repo_dirty()[:20],
        },
        'assumptions': assumptions,
    }
    json.dump(ev, open(os.path.join(EVIDENCE_DIR, prop + '.json'), 'w'), indent=1, default=str)


# ------------------------------------------------------------------------------------------------
# replay
# ------------------------------------------------------------------------------------------------
def replay(path):
    d = json.load(open(path))
    prop = d['property']
    print('replaying %s: obligation %s (%s)' % (path, d['obligation'], d.get('reason', '')))
    scratch = Scratch()
    try:
        if d.get('kind') == 'kani' and d.get('values') is not None:
            u = K.load_kani_units()[d['unit']]
            status, out = K.native_replay(u, scratch, d['harness'], d['values'])
            print('\n'.join(out.strip().split('\n')[-15:]))
            if status == 'fail':
                print('VIOLATION property=%s replay=%s' % (prop, path))
                print('the real code, run natively on the recorded counterexample, violates obligation %s' % d['obligation'])
                return 1
            if status == 'pass':
                print('obligation %s holds on the recorded input with the current tree' % d['obligation'])
                return 0
            print('UNDECIDED replay status=%s' % status)
            return 2
        # no concrete input: re-run the obligation itself on the current tree
        unit = d['unit']
        kunits = K.load_kani_units()
        vunits = V.load_verus_units()
        if unit in vunits:
            outs, _ = run_verus_unit(vunits[unit], scratch, 'thorough')
        else:
            h = d['obligation'].split('::', 1)[1]
            outs, _, _ = run_kani_units([kunits[unit]], None, 'thorough', scratch, 4, only=[h])
        for o in outs:
            if o.oblig == d['obligation'] or o.oblig.endswith('::*'):
                print('%s: %s %s' % (o.oblig, o.status, o.reason))
                if o.status == 'fail':
                    print('VIOLATION property=%s replay=%s no-failing-input-found' % (prop, path))
                    return 1
                if o.status == 'undecided':
                    return 2
        print('obligation %s is discharged on the current tree' % d['obligation'])
        return 0
    finally:
        scratch.cleanup()


def main(argv=None):
    ap = argparse.ArgumentParser(prog='check')
    ap.add_argument('prop', nargs='?')
    ap.add_argument('--tier', default=os.environ.get('VERIF_TIER', 'quick'), choices=['quick', 'thorough'])
    ap.add_argument('--replay')
    ap.add_argument('--unit', action='append')
    ap.add_argument('--harness', action='append')
    ap.add_argument('--keep', action='store_true')
    ap.add_argument('--jobs', type=int, default=int(os.environ.get('RBVERIF_JOBS', str(NCPU))))
    ap.add_argument('--gen-manifest', action='store_true')
    ap.add_argument('--list', action='store_true')
    a = ap.parse_args(argv)
    seed = int(os.environ.get('VERIF_SEED', '0') or 0)
    if a.gen_manifest:
        from .manifest import gen
        gen()
        return 0
    if a.replay:
        return replay(a.replay)
    if a.list:
        ku = K.load_kani_units()
        vu = V.load_verus_units()
        for p in sorted(PROPS):
            ks = sorted(set(u.name for u in ku.values() if any(p in h.props for h in u.harnesses)))
            vs = sorted(u.name for u in vu.values() if p in u.props)
            print(p, 'kani:', ks, 'verus:', vs)
        return 0
    if not a.prop or a.prop not in PROPS:
        ap.error('property id required (one of %s)' % ' '.join(sorted(PROPS)))
    return check_property(a.prop, a.tier, seed, a.jobs, keep=a.keep, only_units=a.unit, only_harness=a.harness)
