//# unit qb_divide kind=kani_in crate=rusty_linter inject=rusty_linter/src/core/casting.rs stubbing=1
//# assume "modular obligation: Variant::divide is replaced (Kani stub) by an arbitrary deterministic function of its two operands (kind and payload bits); its body is under contract in unit variant_arith (SINGLE x SINGLE and DOUBLE x DOUBLE are the only pairs qb_divide hands it).  What is proved here is the glue: WHICH operands Variant::divide receives and what happens to its outcome"
//# assume "exact conversions of the reference: INTEGER/LONG/SINGLE -> SINGLE/DOUBLE by `as` (INTEGER and SINGLE are exact in SINGLE, everything is exact in DOUBLE); that CastVariant::cast does the same is proved in unit casts"
// C01 / C06 / C12 -- `rusty_linter::core::qb_divide`, the floating-point division that the handler of the Divide
// instruction (handlers/math.rs, unit handlers) and the constant folder (unit const_step) both call.  Contract, from
// the language semantics: `/` converts BOTH operands to the type t of the quotient (SINGLE when both are INTEGER or
// SINGLE, DOUBLE when either is LONG or DOUBLE), divides in that type, and the value left in A has type t:
//   qb_divide(a: k1, b: k2) == convert_t( Variant::divide( V_t(a as t), V_t(b as t) ) )      errors passed on unchanged.
// One harness per kind pair, payloads fully symbolic and valid: loop-free, complete.

use rusty_parser::TypeQualifier as Q;
use rusty_variant::VariantError;

#[cfg(kani)]
static mut QD_MEMO: Option<(u8, u64, u8, u64, u8, u64)> = None;

#[cfg(kani)]
fn qd_key(v: &Variant) -> (u8, u64) {
    match v {
        Variant::VSingle(f) => (0, f.to_bits() as u64),
        Variant::VDouble(f) => (1, f.to_bits()),
        Variant::VInteger(i) => (2, *i as u32 as u64),
        Variant::VLong(i) => (3, *i as u64),
        _ => (4, 0),
    }
}

#[cfg(kani)]
fn qd_outcome(k: u8, p: u64) -> Result<Variant, VariantError> {
    match k {
        0 => Ok(Variant::VSingle(f32::from_bits(p as u32))),
        1 => Ok(Variant::VDouble(f64::from_bits(p))),
        2 => Ok(Variant::VInteger(p as u32 as i32)),
        3 => Ok(Variant::VLong(p as i64)),
        4 => Err(VariantError::DivisionByZero),
        5 => Err(VariantError::Overflow),
        _ => Err(VariantError::TypeMismatch),
    }
}

// an arbitrary deterministic function of (kind, payload bits) of both operands: the first call picks any outcome
// (any valid numeric value of any kind, or any of the three errors) and remembers it for these operands; a later call
// with the same operands returns the same outcome, with other operands an unrelated one
#[cfg(kani)]
fn any_divide(a: Variant, b: Variant) -> Result<Variant, VariantError> {
    let (ka, pa) = qd_key(&a);
    let (kb, pb) = qd_key(&b);
    std::mem::forget(a);
    std::mem::forget(b);
    unsafe {
        if let Some((ma, mpa, mb, mpb, rk, rp)) = QD_MEMO {
            if ma == ka && mpa == pa && mb == kb && mpb == pb {
                return qd_outcome(rk, rp);
            }
        }
        let rk: u8 = kani::any();
        kani::assume(rk < 7);
        let rp: u64 = kani::any();
        QD_MEMO = Some((ka, pa, kb, pb, rk, rp));
        qd_outcome(rk, rp)
    }
}

fn qd_valid(v: &Variant) -> bool {
    match v {
        Variant::VInteger(i) => (-32768..=32767).contains(i),
        Variant::VLong(l) => (-2147483648..=2147483647).contains(l),
        Variant::VSingle(f) => f.is_finite(),
        Variant::VDouble(d) => d.is_finite(),
        _ => true,
    }
}

/// the obligation: `got` is `inner` (what Variant::divide answered for the converted operands) converted to SINGLE
fn qd_check_single(got: &Result<Variant, LintError>, inner: &Result<Variant, VariantError>) {
    match inner {
        Ok(v) => {
            let expected: f32 = match v {
                Variant::VInteger(i) => *i as f32,
                Variant::VLong(l) => *l as f32,
                Variant::VSingle(f) => *f,
                _ => 0.0, // excluded by the harness: a DOUBLE quotient of two SINGLEs
            };
            assert!(matches!(got, Ok(Variant::VSingle(f)) if f.to_bits() == expected.to_bits()), "the quotient is not converted to SINGLE / not the quotient of the converted operands");
        }
        Err(VariantError::DivisionByZero) => assert!(matches!(got, Err(LintError::DivisionByZero)), "Division by zero not passed on"),
        Err(VariantError::Overflow) => assert!(matches!(got, Err(LintError::Overflow)), "Overflow not passed on"),
        Err(VariantError::TypeMismatch) => assert!(matches!(got, Err(LintError::TypeMismatch)), "Type mismatch not passed on"),
    }
}

/// ... converted to DOUBLE
fn qd_check_double(got: &Result<Variant, LintError>, inner: &Result<Variant, VariantError>) {
    match inner {
        Ok(v) => {
            let expected: f64 = match v {
                Variant::VInteger(i) => *i as f64,
                Variant::VLong(l) => *l as f64,
                Variant::VSingle(f) => *f as f64,
                Variant::VDouble(d) => *d,
                _ => 0.0,
            };
            assert!(matches!(got, Ok(Variant::VDouble(f)) if f.to_bits() == expected.to_bits()), "the quotient is not converted to DOUBLE / not the quotient of the converted operands");
        }
        Err(VariantError::DivisionByZero) => assert!(matches!(got, Err(LintError::DivisionByZero)), "Division by zero not passed on"),
        Err(VariantError::Overflow) => assert!(matches!(got, Err(LintError::Overflow)), "Overflow not passed on"),
        Err(VariantError::TypeMismatch) => assert!(matches!(got, Err(LintError::TypeMismatch)), "Type mismatch not passed on"),
    }
}

//# harness qb_divide_integer_integer tier=quick tier.C01=thorough tier.C06=thorough label=complete props=C01,C06,C12 fn=rusty_linter/src/core/casting.rs::qb_divide
harness!(qb_divide_integer_integer, 2, stub(rusty_variant::Variant::divide, any_divide), {
    let a = vs::i32();
    vs::assume(a >= -32768 && a <= 32767);
    let b = vs::i32();
    vs::assume(b >= -32768 && b <= 32767);
    // the reference: both operands converted (exactly) to the type of the quotient, then Variant::divide
    let inner = Variant::VSingle(a as f32).divide(Variant::VSingle(b as f32));
    if let Ok(v) = &inner {
        vs::assume(qd_valid(v)); // C06 of Variant::divide (unit variant_arith)
        vs::assume(!matches!(v, Variant::VDouble(_))); // SINGLE / SINGLE is never a DOUBLE (unit variant_arith: exact(v) == the SINGLE quotient)
    }
    let got = qb_divide(Variant::VInteger(a), Variant::VInteger(b));
    assert!(cast_binary_op_q(Q::PercentInteger, Q::PercentInteger, Operator::Divide) == Some(Q::BangSingle), "the table types this quotient differently");
    qd_check_single(&got, &inner);
    reach!(matches!(&got, Ok(_)));
    reach!(matches!(&got, Err(LintError::DivisionByZero)));
    reach!(matches!(&got, Err(LintError::Overflow)));
    reach!(matches!(&inner, Ok(Variant::VInteger(_))));
    std::mem::forget(got);
    std::mem::forget(inner);
});

//# harness qb_divide_integer_long tier=quick tier.C01=thorough tier.C06=thorough label=complete props=C01,C06,C12 fn=rusty_linter/src/core/casting.rs::qb_divide
harness!(qb_divide_integer_long, 2, stub(rusty_variant::Variant::divide, any_divide), {
    let a = vs::i32();
    vs::assume(a >= -32768 && a <= 32767);
    let b = vs::i64();
    vs::assume(b >= -2147483648 && b <= 2147483647);
    // the reference: both operands converted (exactly) to the type of the quotient, then Variant::divide
    let inner = Variant::VDouble(a as f64).divide(Variant::VDouble(b as f64));
    if let Ok(v) = &inner {
        vs::assume(qd_valid(v)); // C06 of Variant::divide (unit variant_arith)
    }
    let got = qb_divide(Variant::VInteger(a), Variant::VLong(b));
    assert!(cast_binary_op_q(Q::PercentInteger, Q::AmpersandLong, Operator::Divide) == Some(Q::HashDouble), "the table types this quotient differently");
    qd_check_double(&got, &inner);
    reach!(matches!(&got, Ok(_)));
    reach!(matches!(&got, Err(LintError::DivisionByZero)));
    reach!(matches!(&got, Err(LintError::Overflow)));
    reach!(matches!(&inner, Ok(Variant::VInteger(_))));
    std::mem::forget(got);
    std::mem::forget(inner);
});

//# harness qb_divide_integer_single tier=quick tier.C01=thorough tier.C06=thorough label=complete props=C01,C06,C12 fn=rusty_linter/src/core/casting.rs::qb_divide
harness!(qb_divide_integer_single, 2, stub(rusty_variant::Variant::divide, any_divide), {
    let a = vs::i32();
    vs::assume(a >= -32768 && a <= 32767);
    let b = vs::f32();
    vs::assume(b.is_finite());
    // the reference: both operands converted (exactly) to the type of the quotient, then Variant::divide
    let inner = Variant::VSingle(a as f32).divide(Variant::VSingle(b as f32));
    if let Ok(v) = &inner {
        vs::assume(qd_valid(v)); // C06 of Variant::divide (unit variant_arith)
        vs::assume(!matches!(v, Variant::VDouble(_))); // SINGLE / SINGLE is never a DOUBLE (unit variant_arith: exact(v) == the SINGLE quotient)
    }
    let got = qb_divide(Variant::VInteger(a), Variant::VSingle(b));
    assert!(cast_binary_op_q(Q::PercentInteger, Q::BangSingle, Operator::Divide) == Some(Q::BangSingle), "the table types this quotient differently");
    qd_check_single(&got, &inner);
    reach!(matches!(&got, Ok(_)));
    reach!(matches!(&got, Err(LintError::DivisionByZero)));
    reach!(matches!(&got, Err(LintError::Overflow)));
    reach!(matches!(&inner, Ok(Variant::VInteger(_))));
    std::mem::forget(got);
    std::mem::forget(inner);
});

//# harness qb_divide_integer_double tier=quick tier.C01=thorough tier.C06=thorough label=complete props=C01,C06,C12 fn=rusty_linter/src/core/casting.rs::qb_divide
harness!(qb_divide_integer_double, 2, stub(rusty_variant::Variant::divide, any_divide), {
    let a = vs::i32();
    vs::assume(a >= -32768 && a <= 32767);
    let b = vs::f64();
    vs::assume(b.is_finite());
    // the reference: both operands converted (exactly) to the type of the quotient, then Variant::divide
    let inner = Variant::VDouble(a as f64).divide(Variant::VDouble(b as f64));
    if let Ok(v) = &inner {
        vs::assume(qd_valid(v)); // C06 of Variant::divide (unit variant_arith)
    }
    let got = qb_divide(Variant::VInteger(a), Variant::VDouble(b));
    assert!(cast_binary_op_q(Q::PercentInteger, Q::HashDouble, Operator::Divide) == Some(Q::HashDouble), "the table types this quotient differently");
    qd_check_double(&got, &inner);
    reach!(matches!(&got, Ok(_)));
    reach!(matches!(&got, Err(LintError::DivisionByZero)));
    reach!(matches!(&got, Err(LintError::Overflow)));
    reach!(matches!(&inner, Ok(Variant::VInteger(_))));
    std::mem::forget(got);
    std::mem::forget(inner);
});

//# harness qb_divide_long_integer tier=quick tier.C01=thorough tier.C06=thorough label=complete props=C01,C06,C12 fn=rusty_linter/src/core/casting.rs::qb_divide
harness!(qb_divide_long_integer, 2, stub(rusty_variant::Variant::divide, any_divide), {
    let a = vs::i64();
    vs::assume(a >= -2147483648 && a <= 2147483647);
    let b = vs::i32();
    vs::assume(b >= -32768 && b <= 32767);
    // the reference: both operands converted (exactly) to the type of the quotient, then Variant::divide
    let inner = Variant::VDouble(a as f64).divide(Variant::VDouble(b as f64));
    if let Ok(v) = &inner {
        vs::assume(qd_valid(v)); // C06 of Variant::divide (unit variant_arith)
    }
    let got = qb_divide(Variant::VLong(a), Variant::VInteger(b));
    assert!(cast_binary_op_q(Q::AmpersandLong, Q::PercentInteger, Operator::Divide) == Some(Q::HashDouble), "the table types this quotient differently");
    qd_check_double(&got, &inner);
    reach!(matches!(&got, Ok(_)));
    reach!(matches!(&got, Err(LintError::DivisionByZero)));
    reach!(matches!(&got, Err(LintError::Overflow)));
    reach!(matches!(&inner, Ok(Variant::VInteger(_))));
    std::mem::forget(got);
    std::mem::forget(inner);
});

//# harness qb_divide_long_long tier=quick tier.C01=thorough tier.C06=thorough label=complete props=C01,C06,C12 fn=rusty_linter/src/core/casting.rs::qb_divide
harness!(qb_divide_long_long, 2, stub(rusty_variant::Variant::divide, any_divide), {
    let a = vs::i64();
    vs::assume(a >= -2147483648 && a <= 2147483647);
    let b = vs::i64();
    vs::assume(b >= -2147483648 && b <= 2147483647);
    // the reference: both operands converted (exactly) to the type of the quotient, then Variant::divide
    let inner = Variant::VDouble(a as f64).divide(Variant::VDouble(b as f64));
    if let Ok(v) = &inner {
        vs::assume(qd_valid(v)); // C06 of Variant::divide (unit variant_arith)
    }
    let got = qb_divide(Variant::VLong(a), Variant::VLong(b));
    assert!(cast_binary_op_q(Q::AmpersandLong, Q::AmpersandLong, Operator::Divide) == Some(Q::HashDouble), "the table types this quotient differently");
    qd_check_double(&got, &inner);
    reach!(matches!(&got, Ok(_)));
    reach!(matches!(&got, Err(LintError::DivisionByZero)));
    reach!(matches!(&got, Err(LintError::Overflow)));
    reach!(matches!(&inner, Ok(Variant::VInteger(_))));
    std::mem::forget(got);
    std::mem::forget(inner);
});

//# harness qb_divide_long_single tier=quick tier.C01=thorough tier.C06=thorough label=complete props=C01,C06,C12 fn=rusty_linter/src/core/casting.rs::qb_divide
harness!(qb_divide_long_single, 2, stub(rusty_variant::Variant::divide, any_divide), {
    let a = vs::i64();
    vs::assume(a >= -2147483648 && a <= 2147483647);
    let b = vs::f32();
    vs::assume(b.is_finite());
    // the reference: both operands converted (exactly) to the type of the quotient, then Variant::divide
    let inner = Variant::VDouble(a as f64).divide(Variant::VDouble(b as f64));
    if let Ok(v) = &inner {
        vs::assume(qd_valid(v)); // C06 of Variant::divide (unit variant_arith)
    }
    let got = qb_divide(Variant::VLong(a), Variant::VSingle(b));
    assert!(cast_binary_op_q(Q::AmpersandLong, Q::BangSingle, Operator::Divide) == Some(Q::HashDouble), "the table types this quotient differently");
    qd_check_double(&got, &inner);
    reach!(matches!(&got, Ok(_)));
    reach!(matches!(&got, Err(LintError::DivisionByZero)));
    reach!(matches!(&got, Err(LintError::Overflow)));
    reach!(matches!(&inner, Ok(Variant::VInteger(_))));
    std::mem::forget(got);
    std::mem::forget(inner);
});

//# harness qb_divide_long_double tier=quick tier.C01=thorough tier.C06=thorough label=complete props=C01,C06,C12 fn=rusty_linter/src/core/casting.rs::qb_divide
harness!(qb_divide_long_double, 2, stub(rusty_variant::Variant::divide, any_divide), {
    let a = vs::i64();
    vs::assume(a >= -2147483648 && a <= 2147483647);
    let b = vs::f64();
    vs::assume(b.is_finite());
    // the reference: both operands converted (exactly) to the type of the quotient, then Variant::divide
    let inner = Variant::VDouble(a as f64).divide(Variant::VDouble(b as f64));
    if let Ok(v) = &inner {
        vs::assume(qd_valid(v)); // C06 of Variant::divide (unit variant_arith)
    }
    let got = qb_divide(Variant::VLong(a), Variant::VDouble(b));
    assert!(cast_binary_op_q(Q::AmpersandLong, Q::HashDouble, Operator::Divide) == Some(Q::HashDouble), "the table types this quotient differently");
    qd_check_double(&got, &inner);
    reach!(matches!(&got, Ok(_)));
    reach!(matches!(&got, Err(LintError::DivisionByZero)));
    reach!(matches!(&got, Err(LintError::Overflow)));
    reach!(matches!(&inner, Ok(Variant::VInteger(_))));
    std::mem::forget(got);
    std::mem::forget(inner);
});

//# harness qb_divide_single_integer tier=quick tier.C01=thorough tier.C06=thorough label=complete props=C01,C06,C12 fn=rusty_linter/src/core/casting.rs::qb_divide
harness!(qb_divide_single_integer, 2, stub(rusty_variant::Variant::divide, any_divide), {
    let a = vs::f32();
    vs::assume(a.is_finite());
    let b = vs::i32();
    vs::assume(b >= -32768 && b <= 32767);
    // the reference: both operands converted (exactly) to the type of the quotient, then Variant::divide
    let inner = Variant::VSingle(a as f32).divide(Variant::VSingle(b as f32));
    if let Ok(v) = &inner {
        vs::assume(qd_valid(v)); // C06 of Variant::divide (unit variant_arith)
        vs::assume(!matches!(v, Variant::VDouble(_))); // SINGLE / SINGLE is never a DOUBLE (unit variant_arith: exact(v) == the SINGLE quotient)
    }
    let got = qb_divide(Variant::VSingle(a), Variant::VInteger(b));
    assert!(cast_binary_op_q(Q::BangSingle, Q::PercentInteger, Operator::Divide) == Some(Q::BangSingle), "the table types this quotient differently");
    qd_check_single(&got, &inner);
    reach!(matches!(&got, Ok(_)));
    reach!(matches!(&got, Err(LintError::DivisionByZero)));
    reach!(matches!(&got, Err(LintError::Overflow)));
    reach!(matches!(&inner, Ok(Variant::VInteger(_))));
    std::mem::forget(got);
    std::mem::forget(inner);
});

//# harness qb_divide_single_long tier=quick tier.C01=thorough tier.C06=thorough label=complete props=C01,C06,C12 fn=rusty_linter/src/core/casting.rs::qb_divide
harness!(qb_divide_single_long, 2, stub(rusty_variant::Variant::divide, any_divide), {
    let a = vs::f32();
    vs::assume(a.is_finite());
    let b = vs::i64();
    vs::assume(b >= -2147483648 && b <= 2147483647);
    // the reference: both operands converted (exactly) to the type of the quotient, then Variant::divide
    let inner = Variant::VDouble(a as f64).divide(Variant::VDouble(b as f64));
    if let Ok(v) = &inner {
        vs::assume(qd_valid(v)); // C06 of Variant::divide (unit variant_arith)
    }
    let got = qb_divide(Variant::VSingle(a), Variant::VLong(b));
    assert!(cast_binary_op_q(Q::BangSingle, Q::AmpersandLong, Operator::Divide) == Some(Q::HashDouble), "the table types this quotient differently");
    qd_check_double(&got, &inner);
    reach!(matches!(&got, Ok(_)));
    reach!(matches!(&got, Err(LintError::DivisionByZero)));
    reach!(matches!(&got, Err(LintError::Overflow)));
    reach!(matches!(&inner, Ok(Variant::VInteger(_))));
    std::mem::forget(got);
    std::mem::forget(inner);
});

//# harness qb_divide_single_single tier=quick tier.C01=thorough tier.C06=thorough label=complete props=C01,C06,C12 fn=rusty_linter/src/core/casting.rs::qb_divide
harness!(qb_divide_single_single, 2, stub(rusty_variant::Variant::divide, any_divide), {
    let a = vs::f32();
    vs::assume(a.is_finite());
    let b = vs::f32();
    vs::assume(b.is_finite());
    // the reference: both operands converted (exactly) to the type of the quotient, then Variant::divide
    let inner = Variant::VSingle(a as f32).divide(Variant::VSingle(b as f32));
    if let Ok(v) = &inner {
        vs::assume(qd_valid(v)); // C06 of Variant::divide (unit variant_arith)
        vs::assume(!matches!(v, Variant::VDouble(_))); // SINGLE / SINGLE is never a DOUBLE (unit variant_arith: exact(v) == the SINGLE quotient)
    }
    let got = qb_divide(Variant::VSingle(a), Variant::VSingle(b));
    assert!(cast_binary_op_q(Q::BangSingle, Q::BangSingle, Operator::Divide) == Some(Q::BangSingle), "the table types this quotient differently");
    qd_check_single(&got, &inner);
    reach!(matches!(&got, Ok(_)));
    reach!(matches!(&got, Err(LintError::DivisionByZero)));
    reach!(matches!(&got, Err(LintError::Overflow)));
    reach!(matches!(&inner, Ok(Variant::VInteger(_))));
    std::mem::forget(got);
    std::mem::forget(inner);
});

//# harness qb_divide_single_double tier=quick tier.C01=thorough tier.C06=thorough label=complete props=C01,C06,C12 fn=rusty_linter/src/core/casting.rs::qb_divide
harness!(qb_divide_single_double, 2, stub(rusty_variant::Variant::divide, any_divide), {
    let a = vs::f32();
    vs::assume(a.is_finite());
    let b = vs::f64();
    vs::assume(b.is_finite());
    // the reference: both operands converted (exactly) to the type of the quotient, then Variant::divide
    let inner = Variant::VDouble(a as f64).divide(Variant::VDouble(b as f64));
    if let Ok(v) = &inner {
        vs::assume(qd_valid(v)); // C06 of Variant::divide (unit variant_arith)
    }
    let got = qb_divide(Variant::VSingle(a), Variant::VDouble(b));
    assert!(cast_binary_op_q(Q::BangSingle, Q::HashDouble, Operator::Divide) == Some(Q::HashDouble), "the table types this quotient differently");
    qd_check_double(&got, &inner);
    reach!(matches!(&got, Ok(_)));
    reach!(matches!(&got, Err(LintError::DivisionByZero)));
    reach!(matches!(&got, Err(LintError::Overflow)));
    reach!(matches!(&inner, Ok(Variant::VInteger(_))));
    std::mem::forget(got);
    std::mem::forget(inner);
});

//# harness qb_divide_double_integer tier=quick tier.C01=thorough tier.C06=thorough label=complete props=C01,C06,C12 fn=rusty_linter/src/core/casting.rs::qb_divide
harness!(qb_divide_double_integer, 2, stub(rusty_variant::Variant::divide, any_divide), {
    let a = vs::f64();
    vs::assume(a.is_finite());
    let b = vs::i32();
    vs::assume(b >= -32768 && b <= 32767);
    // the reference: both operands converted (exactly) to the type of the quotient, then Variant::divide
    let inner = Variant::VDouble(a as f64).divide(Variant::VDouble(b as f64));
    if let Ok(v) = &inner {
        vs::assume(qd_valid(v)); // C06 of Variant::divide (unit variant_arith)
    }
    let got = qb_divide(Variant::VDouble(a), Variant::VInteger(b));
    assert!(cast_binary_op_q(Q::HashDouble, Q::PercentInteger, Operator::Divide) == Some(Q::HashDouble), "the table types this quotient differently");
    qd_check_double(&got, &inner);
    reach!(matches!(&got, Ok(_)));
    reach!(matches!(&got, Err(LintError::DivisionByZero)));
    reach!(matches!(&got, Err(LintError::Overflow)));
    reach!(matches!(&inner, Ok(Variant::VInteger(_))));
    std::mem::forget(got);
    std::mem::forget(inner);
});

//# harness qb_divide_double_long tier=quick tier.C01=thorough tier.C06=thorough label=complete props=C01,C06,C12 fn=rusty_linter/src/core/casting.rs::qb_divide
harness!(qb_divide_double_long, 2, stub(rusty_variant::Variant::divide, any_divide), {
    let a = vs::f64();
    vs::assume(a.is_finite());
    let b = vs::i64();
    vs::assume(b >= -2147483648 && b <= 2147483647);
    // the reference: both operands converted (exactly) to the type of the quotient, then Variant::divide
    let inner = Variant::VDouble(a as f64).divide(Variant::VDouble(b as f64));
    if let Ok(v) = &inner {
        vs::assume(qd_valid(v)); // C06 of Variant::divide (unit variant_arith)
    }
    let got = qb_divide(Variant::VDouble(a), Variant::VLong(b));
    assert!(cast_binary_op_q(Q::HashDouble, Q::AmpersandLong, Operator::Divide) == Some(Q::HashDouble), "the table types this quotient differently");
    qd_check_double(&got, &inner);
    reach!(matches!(&got, Ok(_)));
    reach!(matches!(&got, Err(LintError::DivisionByZero)));
    reach!(matches!(&got, Err(LintError::Overflow)));
    reach!(matches!(&inner, Ok(Variant::VInteger(_))));
    std::mem::forget(got);
    std::mem::forget(inner);
});

//# harness qb_divide_double_single tier=quick tier.C01=thorough tier.C06=thorough label=complete props=C01,C06,C12 fn=rusty_linter/src/core/casting.rs::qb_divide
harness!(qb_divide_double_single, 2, stub(rusty_variant::Variant::divide, any_divide), {
    let a = vs::f64();
    vs::assume(a.is_finite());
    let b = vs::f32();
    vs::assume(b.is_finite());
    // the reference: both operands converted (exactly) to the type of the quotient, then Variant::divide
    let inner = Variant::VDouble(a as f64).divide(Variant::VDouble(b as f64));
    if let Ok(v) = &inner {
        vs::assume(qd_valid(v)); // C06 of Variant::divide (unit variant_arith)
    }
    let got = qb_divide(Variant::VDouble(a), Variant::VSingle(b));
    assert!(cast_binary_op_q(Q::HashDouble, Q::BangSingle, Operator::Divide) == Some(Q::HashDouble), "the table types this quotient differently");
    qd_check_double(&got, &inner);
    reach!(matches!(&got, Ok(_)));
    reach!(matches!(&got, Err(LintError::DivisionByZero)));
    reach!(matches!(&got, Err(LintError::Overflow)));
    reach!(matches!(&inner, Ok(Variant::VInteger(_))));
    std::mem::forget(got);
    std::mem::forget(inner);
});

//# harness qb_divide_double_double tier=quick tier.C01=thorough tier.C06=thorough label=complete props=C01,C06,C12 fn=rusty_linter/src/core/casting.rs::qb_divide
harness!(qb_divide_double_double, 2, stub(rusty_variant::Variant::divide, any_divide), {
    let a = vs::f64();
    vs::assume(a.is_finite());
    let b = vs::f64();
    vs::assume(b.is_finite());
    // the reference: both operands converted (exactly) to the type of the quotient, then Variant::divide
    let inner = Variant::VDouble(a as f64).divide(Variant::VDouble(b as f64));
    if let Ok(v) = &inner {
        vs::assume(qd_valid(v)); // C06 of Variant::divide (unit variant_arith)
    }
    let got = qb_divide(Variant::VDouble(a), Variant::VDouble(b));
    assert!(cast_binary_op_q(Q::HashDouble, Q::HashDouble, Operator::Divide) == Some(Q::HashDouble), "the table types this quotient differently");
    qd_check_double(&got, &inner);
    reach!(matches!(&got, Ok(_)));
    reach!(matches!(&got, Err(LintError::DivisionByZero)));
    reach!(matches!(&got, Err(LintError::Overflow)));
    reach!(matches!(&inner, Ok(Variant::VInteger(_))));
    std::mem::forget(got);
    std::mem::forget(inner);
});
