#!/usr/bin/env python3
"""assemble DESIGN.md from its parts and fill the seeded-changes table from seeded/RESULTS.txt"""
import json, os, re
R = os.path.dirname(os.path.dirname(os.path.abspath(__file__)))
parts = [open(os.path.join(R, f)).read() for f in ('DESIGN_head.md', 'DESIGN_props.md', 'DESIGN_defects.md', 'DESIGN_tail.md')]
doc = '\n'.join(p.rstrip() + '\n' for p in parts)
rows = ['| seed | property | what it changes (needs … to manifest) | caught by | obligation that failed |', '|---|---|---|---|---|']
res = {}
try:
    for l in open(os.path.join(R, 'seeded', 'RESULTS.txt')):
        m = re.match(r'SELFTEST (\S+): (caught by (\S+):\s*(.*)|NOT caught by (\S+) \(exit (\d)\))', l.strip())
        if m:
            res[m.group(1)] = m
except FileNotFoundError:
    pass
for sid in sorted(os.listdir(os.path.join(R, 'seeded'))):
    mp = os.path.join(R, 'seeded', sid, 'meta.json')
    if not os.path.exists(mp):
        continue
    meta = json.load(open(mp))
    what = meta.get('summary', '')
    m = res.get(sid)
    if m is None:
        caught, ob = '(not run)', ''
    elif m.group(3):
        obs = re.findall(r'failed obligation: (\S+)', m.group(4))
        caught, ob = 'yes', ', '.join(dict.fromkeys(obs))[:160]
    else:
        caught, ob = ('no — UNDECIDED (exit 2)' if m.group(6) == '2' else 'no'), meta.get('why_missed', '')
    rows.append('| %s | %s | %s | %s | %s |' % (sid, meta['property'], what, caught, ob))
doc = doc.replace('@SEEDED_TABLE@', '\n'.join(rows))
kf = json.load(open(os.path.join(R, 'known_findings.json')))
nfixed = len(re.findall(r'^\| \d+ \|', parts[2], re.M))      # rows of table 7.1 (one per fix: commit)
nopen = len(kf['findings'])
doc = doc.replace('@NFIXED@', str(nfixed)).replace('@NOPEN@', str(nopen)).replace('@NDEFECTS@', str(nfixed + nopen))
open(os.path.join(R, 'DESIGN.md'), 'w').write(doc)
print('DESIGN.md written: %d lines, %d seeds' % (doc.count('\n'), len(rows) - 2))
