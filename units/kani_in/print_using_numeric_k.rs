//# unit print_using_numeric_k kind=kani_in crate=rusty_basic inject=rusty_basic/src/interpreter/print.rs stubbing=1
//# assume "modular obligation: numeric_formatting::format_variant (format!/to_string: core::fmt, outside both tools) is replaced (Kani stub) by a function that returns the decimal text the harness chose: optional minus sign, 1..=4 digits without a leading zero, and for a field with fraction a point and exactly as many digits as asked for (what `{:.n}` / i64::to_string produce for a finite value: trusted library fact).  Natively (replay) the real format_variant runs on the value with exactly that decimal text"
//# assume "bounded, CONCRETE inputs (CBMC does not finish with symbolic digits: 24 min, out of memory): the fields  #,###.##  ##.#  #,###  embedded in a format with literal text around them; the number texts 7 / 72 / 725 / 7259 with both signs and the fraction digits 3 / 38"
// C16 -- the NUMERIC field of PRINT USING, black box through the public entry numeric_formatting::print_digit_formatting_chars.
// Companion of the Verus unit print_using_numeric (same contract, executable oracle, independent of the code's shape) and
// the place where fmt_with_fractional_part is checked (Verus does not read its iterator adapters):
//   * the cursor is left right after the field (maximal run of # , .);
//   * a field <int part>.<n x #>: the integer digits of the number text right-justified in |int part| columns, with
//     thousands separators between digits when the integer part holds a comma, then a point, then exactly n fraction digits;
//   * a field <int part>: the same without point and fraction.
// F110 (open): commas are written where the FORMAT has them; while it is listed open the main harnesses assume the inputs on
// which that coincides with thousands grouping (a minus sign does not meet a comma position and the number fits), and
// finding_f110_sign_meets_comma asserts the contract on  PRINT USING "#,###"; -100  (expected " -100", the tree writes "-,100").

#[cfg(kani)]
static mut NK_TEXT: [u8; 10] = [0; 10];
#[cfg(kani)]
static mut NK_LEN: usize = 0;

/// stand-in for format_variant under Kani: the text chosen by the harness
#[cfg(kani)]
fn nk_format_variant(v: Variant, _fractional_digits: usize) -> Result<String, RuntimeError> {
    std::mem::forget(v);
    let mut bytes: Vec<u8> = Vec::with_capacity(16);
    let mut i = 0;
    unsafe {
        while i < NK_LEN {
            bytes.push(NK_TEXT[i]);
            i += 1;
        }
        Ok(String::from_utf8_unchecked(bytes))
    }
}

struct NumText {
    negative: bool,
    nd: usize,
    d: [u8; 4], // integer digits, most significant first, d[0..nd]
    nf: usize,
    f: [u8; 2], // fraction digits f[0..nf]
}

/// the concrete number texts of the bounded domain: nd = 1..=4 integer digits (distinct, so that a permutation shows),
/// both signs, nf fraction digits
fn num_text(negative: bool, nd: usize, nf: usize) -> NumText {
    NumText { negative, nd, d: [7, 2, 5, 9], nf, f: [3, 8] }
}

/// runs the texts (sign, number of integer digits) through the field fmt[start..end) and compares with the oracle
fn run_cases(fmt: &[char], start: usize, end: usize, width: usize, thousands: bool, nf: usize, cases: &[(bool, usize)]) {
    let mut c = 0;
    while c < cases.len() {
        let t = num_text(cases[c].0, cases[c].1, nf);
        // F110: a minus sign on a comma position / a number that does not fit: the tree's commas are not the grouping
        let carved_out = KF_F110 && thousands && t.negative && t.nd >= 3;
        if !carved_out {
            let x = value_of(&t);
            let mut index: usize = start;
            let r = numeric_formatting::print_digit_formatting_chars(fmt, &mut index, Variant::VDouble(x));
            assert!(index == end, "the cursor is left right after the field");
            let e = expected_text(&t, width, thousands);
            check_text(&r, &e);
            std::mem::forget(r);
        }
        c += 1;
    }
}

const ALL_CASES: [(bool, usize); 8] = [(false, 1), (true, 1), (false, 2), (true, 2), (false, 3), (true, 3), (false, 4), (true, 4)];

/// hands the text to the stub (Kani) and returns the value that has this decimal text (native replay)
fn value_of(t: &NumText) -> f64 {
    let mut n = 0usize;
    #[cfg(kani)]
    unsafe {
        if t.negative {
            NK_TEXT[n] = b'-';
            n += 1;
        }
        let mut i = 0;
        while i < 4 {
            if i < t.nd {
                NK_TEXT[n] = b'0' + t.d[i];
                n += 1;
            }
            i += 1;
        }
        if t.nf > 0 {
            NK_TEXT[n] = b'.';
            n += 1;
            let mut i = 0;
            while i < 2 {
                if i < t.nf {
                    NK_TEXT[n] = b'0' + t.f[i];
                    n += 1;
                }
                i += 1;
            }
        }
        NK_LEN = n;
    }
    let mut scaled: i64 = 0;
    let mut i = 0;
    while i < 4 {
        if i < t.nd {
            scaled = scaled * 10 + t.d[i] as i64;
        }
        i += 1;
    }
    let mut div = 1.0f64;
    let mut i = 0;
    while i < 2 {
        if i < t.nf {
            scaled = scaled * 10 + t.f[i] as i64;
            div *= 10.0;
        }
        i += 1;
    }
    let x = scaled as f64 / div;
    if t.negative { -x } else { x }
}

/// THE ORACLE, written from the property: the text of a numeric field of `width` integer columns
/// (thousands separators iff `thousands`), `nf` fraction digits.
struct Expected {
    data: [u8; 16],
    n: usize,
}

fn expected_text(t: &NumText, width: usize, thousands: bool) -> Expected {
    // the integer digits with separators, left to right
    let mut body = [0u8; 8];
    let mut bn = 0;
    if t.negative {
        body[bn] = b'-';
        bn += 1;
    }
    let mut i = 0;
    while i < 4 {
        if i < t.nd {
            // a separator stands before a digit that has a multiple of three digits to its right (itself included) and
            // a digit to its left
            if thousands && i > 0 && (t.nd - i) % 3 == 0 {
                body[bn] = b',';
                bn += 1;
            }
            body[bn] = b'0' + t.d[i];
            bn += 1;
        }
        i += 1;
    }
    let mut e = Expected { data: [0; 16], n: 0 };
    // right-justified in the width of the integer part
    let mut pad = if width > bn { width - bn } else { 0 };
    while pad > 0 {
        e.data[e.n] = b' ';
        e.n += 1;
        pad -= 1;
    }
    let mut i = 0;
    while i < 8 {
        if i < bn {
            e.data[e.n] = body[i];
            e.n += 1;
        }
        i += 1;
    }
    if t.nf > 0 {
        e.data[e.n] = b'.';
        e.n += 1;
        let mut i = 0;
        while i < 2 {
            if i < t.nf {
                e.data[e.n] = b'0' + t.f[i];
                e.n += 1;
            }
            i += 1;
        }
    }
    e
}

fn check_text(r: &Result<String, RuntimeError>, e: &Expected) {
    match r {
        Ok(s) => {
            let b = s.as_bytes();
            assert!(b.len() == e.n, "width: integer part right-justified (written in full when longer), point, n fraction digits");
            let mut i = 0;
            while i < 16 {
                if i < e.n {
                    assert!(b[i] == e.data[i], "the number text through the field: blanks, sign, digits with thousands separators, point, fraction digits");
                }
                i += 1;
            }
        }
        Err(_) => {
            assert!(false, "a number through a well-formed numeric field is rendered");
        }
    }
}

//# harness frac_field_grouped tier=quick label=bounded(field_#,###.##_texts_7259.38_-72.38) props=C16 fn=rusty_basic/src/interpreter/print.rs::numeric_formatting::fmt_with_fractional_part timeout=900
harness!(frac_field_grouped, 18, stub(numeric_formatting::format_variant, nk_format_variant), {
    let fmt: [char; 10] = ['x', '#', ',', '#', '#', '#', '.', '#', '#', 'y'];
    run_cases(&fmt, 1, 9, 5, true, 2, &[(false, 4), (true, 2)]);
    reach!(fmt[1] == '#');
});

//# harness frac_field_plain tier=quick label=bounded(field_##.#_texts_-7.3_725.3) props=C16 fn=rusty_basic/src/interpreter/print.rs::numeric_formatting::fmt_with_fractional_part timeout=900
harness!(frac_field_plain, 18, stub(numeric_formatting::format_variant, nk_format_variant), {
    // the field ends at the end of the format; a number of 3 digits does not fit and is written in full
    let fmt: [char; 6] = ['a', ' ', '#', '#', '.', '#'];
    run_cases(&fmt, 2, 6, 2, false, 1, &[(true, 1), (false, 3)]);
    reach!(fmt[2] == '#');
});

//# harness int_field_grouped tier=quick label=bounded(field_#,###_texts_7259_-72) props=C16 fn=rusty_basic/src/interpreter/print.rs::numeric_formatting::fmt_integer_part timeout=900
harness!(int_field_grouped, 18, stub(numeric_formatting::format_variant, nk_format_variant), {
    let fmt: [char; 7] = ['#', ',', '#', '#', '#', ' ', '!'];
    run_cases(&fmt, 0, 5, 5, true, 0, &[(false, 4), (true, 2)]);
    reach!(fmt[0] == '#');
});

//# harness frac_field_grouped_all tier=thorough label=bounded(field_#,###.##_x_8_concrete_texts) props=C16 fn=rusty_basic/src/interpreter/print.rs::numeric_formatting::fmt_with_fractional_part timeout=1800
harness!(frac_field_grouped_all, 18, stub(numeric_formatting::format_variant, nk_format_variant), {
    let fmt: [char; 10] = ['x', '#', ',', '#', '#', '#', '.', '#', '#', 'y'];
    run_cases(&fmt, 1, 9, 5, true, 2, &ALL_CASES);
    reach!(fmt[1] == '#');
});

//# harness frac_field_plain_all tier=thorough label=bounded(field_##.#_x_8_concrete_texts) props=C16 fn=rusty_basic/src/interpreter/print.rs::numeric_formatting::fmt_with_fractional_part timeout=1800
harness!(frac_field_plain_all, 18, stub(numeric_formatting::format_variant, nk_format_variant), {
    let fmt: [char; 6] = ['a', ' ', '#', '#', '.', '#'];
    run_cases(&fmt, 2, 6, 2, false, 1, &ALL_CASES);
    reach!(fmt[2] == '#');
});

//# harness finding_f110_sign_meets_comma tier=quick label=bounded(PRINT_USING_#,###_-725) props=C16 fn=rusty_basic/src/interpreter/print.rs::numeric_formatting::fmt_integer_part timeout=900 expect=finding:F110
harness!(finding_f110_sign_meets_comma, 18, stub(numeric_formatting::format_variant, nk_format_variant), {
    let fmt: [char; 5] = ['#', ',', '#', '#', '#'];
    let t = num_text(true, 3, 0);
    let x = value_of(&t);
    let mut index: usize = 0;
    let r = numeric_formatting::print_digit_formatting_chars(&fmt, &mut index, Variant::VDouble(x));
    let e = expected_text(&t, 5, true);
    check_text(&r, &e);
    std::mem::forget(r);
});
