#!/bin/bash
# Development-time self-test: every seeded property-breaking change under seeded/<id>/ is applied to a scratch
# copy of /repo (never to /repo itself) and the checks named in its meta.json must report a VIOLATION;
# evidence/ and replays/ of /verif are not touched.
# usage: ./selftest.sh [seed-id ...]        SELFTEST_JOBS=<n> seeds are processed side by side (default 2)
cd "$(dirname "$0")"
ids=${@:-$(ls seeded)}
jobs=${SELFTEST_JOBS:-2}
tmp=$(mktemp -d /var/tmp/rbverif-selftest.XXXXXX)
trap 'rm -rf "$tmp"' EXIT
results=seeded/RESULTS.txt
[ $# -eq 0 ] && : > $results

one_seed() {
  id=$1; tmp=$2
  [ -f seeded/$id/meta.json ] || return 0
  t=$tmp/$id; mkdir -p $t
  props=$(python3 -c "import json;print(' '.join(json.load(open('seeded/$id/meta.json'))['detected_by_checks']))")
  rsync -a --exclude /target --exclude .git ${VP_RUN_REPO:-/repo}/ $t/repo/
  if ! (cd $t/repo && patch -p1 -s < "$OLDPWD/seeded/$id/patch.diff"); then echo "SELFTEST $id: patch does not apply"; rm -rf $t; return 0; fi
  files=$(grep '^+++ b/' seeded/$id/patch.diff | sed 's|^+++ b/||' | tr '\n' ':')
  for p in $props; do
    # pass 1: only the units that name a patched file (fast); pass 2 (every unit of the property) only if pass 1 saw nothing
    for pass in touching full; do
      if [ $pass = touching ]; then export RBVERIF_TOUCHING="$files"; else unset RBVERIF_TOUCHING; [ "${SELFTEST_FULL:-1}" = 0 ] && break; fi
      RBVERIF_REPO=$t/repo RBVERIF_EVIDENCE_DIR=$t/ev RBVERIF_REPLAY_DIR=$t/replays RBVERIF_SCRATCH=$t/scratch ./check $p --tier quick > $t/out.log 2>&1; rc=$?
      [ $rc -eq 1 ] && grep -q "^VIOLATION property=$p" $t/out.log && break
    done
    unset RBVERIF_TOUCHING
    if [ $rc -eq 1 ] && grep -q "^VIOLATION property=$p" $t/out.log; then
      echo "SELFTEST $id: caught by $p: $(grep -A1 '^VIOLATION' $t/out.log | grep 'failed obligation' | head -2 | tr '\n' ' ')"
    else
      echo "SELFTEST $id: NOT caught by $p (exit $rc) $(grep '^UNDECIDED' $t/out.log | head -1 | sed 's/^UNDECIDED property=[A-Z0-9]* //' | cut -c1-160)"
    fi
  done
  rm -rf $t
}
export -f one_seed

printf '%s\n' $ids | xargs -P $jobs -I{} bash -c 'one_seed {} '"$tmp" | tee -a $results.tmp
sort $results.tmp >> $results; rm -f $results.tmp
grep -q "NOT caught\|does not apply" $results && exit 1
exit 0
