// mock_interpreter.rs -- shared by the Kani units that put a built-in SUB/FUNCTION wrapper (`built_ins::*::run<S: InterpreterTrait>`)
// under contract (`//# support mock_interpreter.rs`, crate rusty_basic only, `stubbing=1`).
//
// `MockI` implements InterpreterTrait around a REAL `Context`; everything a built-in function wrapper does not touch is
// `unimplemented!()` (reaching it fails the obligation).  Under Kani the two places where a wrapper meets the variable
// store are replaced by CONTRACT STUBS (modular verification: the callee is replaced by what other units prove of it):
//   * `Variables::get(index)`               -> "the index-th argument of the call"          (ARGS; context_blocks + indexed_map:
//                                              positional parameters keep their index)
//   * `Context::set_built_in_function_result(f, v)` -> "the result slot of f holds v"      (RES)
//   * `RandomState::new`                    -> a fixed hasher state (Kani cannot model getrandom; no hash is computed
//                                              on the stubbed paths)
// because CBMC does not get through the real `HashMap` inserts (> 15 min for one argument).  Natively (replay of a
// counterexample, `--cfg rbverif_replay`) no stub is applied: `mock_with_args` pushes the arguments through the real
// `begin_collecting_arguments / push_unnamed_by_val / stop_collecting_arguments` and `result_of` reads the real variable, so a
// reported input is a failing input of the whole real wrapper.
// Every harness using it must list the three stubs:  stub(std::hash::RandomState::new, fixed_random_state),
//   stub(crate::interpreter::variables::Variables::get, stub_variables_get),
//   stub(crate::interpreter::context::Context::set_built_in_function_result, stub_set_result)
use crate::interpreter::context::Context;
use crate::interpreter::interpreter_trait::InterpreterTrait;
use crate::interpreter::data_segment::DataSegment;
use crate::interpreter::default_stdlib::DefaultStdlib;
use crate::interpreter::io::FileManager;
use crate::interpreter::read_input::ReadInputSource;
use crate::interpreter::registers::{RegisterStack, Registers};
use crate::interpreter::screen::Screen;
use crate::interpreter::write_printer::WritePrinter;
use rusty_variant::Variant;
use crate::interpreter::variables::Variables;
use rusty_parser::{BareName, TypeQualifier};

fn fixed_random_state() -> std::hash::RandomState { unsafe { std::mem::transmute::<(u64, u64), std::hash::RandomState>((0u64, 0u64)) } }

pub struct MockI {
    pub ctx: Context,
    /// number of positional arguments the context was created with
    pub nargs: usize,
}

impl InterpreterTrait for MockI {
    type TStdlib = DefaultStdlib;
    type TStdIn = ReadInputSource<std::io::Stdin>;
    type TStdOut = WritePrinter<std::io::Stdout>;
    type TLpt1 = WritePrinter<std::io::Stdout>;
    fn stdlib(&self) -> &Self::TStdlib { unimplemented!() }
    fn stdlib_mut(&mut self) -> &mut Self::TStdlib { unimplemented!() }
    fn file_manager(&mut self) -> &mut FileManager { unimplemented!() }
    fn stdin(&mut self) -> &mut Self::TStdIn { unimplemented!() }
    fn stdout(&mut self) -> &mut Self::TStdOut { unimplemented!() }
    fn lpt1(&mut self) -> &mut Self::TLpt1 { unimplemented!() }
    fn screen(&self) -> &dyn Screen { unimplemented!() }
    fn screen_mut(&mut self) -> &mut dyn Screen { unimplemented!() }
    fn context(&self) -> &Context { &self.ctx }
    fn context_mut(&mut self) -> &mut Context { &mut self.ctx }
    fn registers(&self) -> &Registers { unimplemented!() }
    fn registers_mut(&mut self) -> &mut Registers { unimplemented!() }
    fn register_stack(&mut self) -> &mut RegisterStack { unimplemented!() }
    fn by_ref_stack(&mut self) -> &mut std::collections::VecDeque<Variant> { unimplemented!() }
    fn take_function_result(&mut self) -> Option<Variant> { unimplemented!() }
    fn set_function_result(&mut self, _v: Variant) { unimplemented!() }
    fn var_path_stack(&mut self) -> &mut std::collections::VecDeque<crate::instruction_generator::Path> { unimplemented!() }
    fn data_segment(&mut self) -> &mut DataSegment { unimplemented!() }
    fn get_def_seg(&self) -> Option<usize> { unimplemented!() }
    fn set_def_seg(&mut self, _def_seg: Option<usize>) { unimplemented!() }
    fn get_last_error_code(&self) -> Option<i32> { unimplemented!() }
    fn interpret(&mut self, _r: crate::instruction_generator::InstructionGeneratorResult) -> Result<(), crate::RuntimeErrorPos> { unimplemented!() }
}


// ---- contract stubs (Kani only): the i-th argument of the running built-in / the slot its result is written to ----
// RES remembers WHICH function's slot was written (a wrapper that writes to the slot of another function is caught by
// `result_of(&m, F)` under Kani as it is natively) and HOW OFTEN (`results_written`).
// The arguments live in a TYPED static array, not in a heap Vec: CBMC's constant propagation sees the (concrete) discriminant of
// a Variant stored in a typed object, but not of one read back from a heap allocation -- and with an unknown discriminant every
// `match` of the wrapper on its argument explores all seven kinds (HashMap of records, nested arrays, ...).  Use
// `mock_with_arg1(a)` / `mock_with_arg2(a, b)` to get that benefit; `mock_with_args(vec![..])` still works (values pass through the Vec).
const MAX_ARGS: usize = 4;
static mut ARGS: [Option<Variant>; MAX_ARGS] = [None, None, None, None];
static mut RES: Option<(BuiltInFunction, Variant)> = None;
static mut RES_WRITES: usize = 0;

#[allow(static_mut_refs)]
fn stub_variables_get<'a>(_s: &'a Variables, index: usize) -> Option<&'a Variant> {
    unsafe { if index < MAX_ARGS { ARGS[index].as_ref() } else { None } }
}

#[allow(static_mut_refs)]
fn stub_set_result<V>(_c: &mut Context, f: BuiltInFunction, value: V)
where
    Variant: From<V>,
{
    unsafe {
        // replace + forget: the previous content is never dropped (drop glue of a Variant is what CBMC pays for)
        std::mem::forget(std::mem::replace(&mut RES, Some((f, Variant::from(value)))));
        RES_WRITES += 1;
    }
}

#[allow(static_mut_refs)]
fn kani_reset_slots() {
    #[cfg(kani)]
    unsafe {
        // replace + forget: previous contents are never dropped
        std::mem::forget(std::mem::replace(&mut ARGS[0], None));
        std::mem::forget(std::mem::replace(&mut ARGS[1], None));
        std::mem::forget(std::mem::replace(&mut ARGS[2], None));
        std::mem::forget(std::mem::replace(&mut ARGS[3], None));
        std::mem::forget(std::mem::replace(&mut RES, None));
        RES_WRITES = 0;
    }
}

#[allow(static_mut_refs)]
fn kani_set_arg(_i: usize, _a: Variant) -> Option<Variant> {
    #[cfg(kani)]
    unsafe {
        std::mem::forget(std::mem::replace(&mut ARGS[_i], Some(_a)));
        return None;
    }
    #[cfg(not(kani))]
    { return Some(_a); }
}

fn native_context(args: Vec<Variant>) -> Context {
    #[allow(unused_mut)]
    let mut ctx = Context::new();
    #[cfg(not(kani))]
    {
        ctx.begin_collecting_arguments();
        for a in args { ctx.arguments_mut().push_unnamed_by_val(a); }
        ctx.stop_collecting_arguments();
    }
    #[cfg(kani)]
    std::mem::forget(args);
    ctx
}

/// a fresh mock interpreter whose current context holds `args` as the positional arguments 0, 1, ... of the call;
/// no result slot is written yet.  (May be called several times in one harness: composition of two wrappers.)
fn mock_with_args(args: Vec<Variant>) -> MockI {
    let nargs = args.len();
    kani_reset_slots();
    #[cfg(kani)]
    {
        assert!(nargs <= MAX_ARGS);
        let mut i = 0;
        for a in args {
            kani_set_arg(i, a);
            i += 1;
        }
        return MockI { ctx: native_context(Vec::new()), nargs };
    }
    #[cfg(not(kani))]
    { return MockI { ctx: native_context(args), nargs }; }
}

/// the same for a call with one argument / two arguments; the values never pass through a heap Vec under Kani (see ARGS)
fn mock_with_arg1(a0: Variant) -> MockI {
    kani_reset_slots();
    let mut v: Vec<Variant> = Vec::new();
    if let Some(a) = kani_set_arg(0, a0) { v.push(a); }
    MockI { ctx: native_context(v), nargs: 1 }
}

fn mock_with_arg2(a0: Variant, a1: Variant) -> MockI {
    kani_reset_slots();
    let mut v: Vec<Variant> = Vec::new();
    if let Some(a) = kani_set_arg(0, a0) { v.push(a); }
    if let Some(a) = kani_set_arg(1, a1) { v.push(a); }
    MockI { ctx: native_context(v), nargs: 2 }
}

/// the value in the result slot of built-in function `_f` (None: that slot has not been written)
#[allow(static_mut_refs)]
fn result_of<'a>(_m: &'a MockI, _f: BuiltInFunction) -> Option<&'a Variant> {
    #[cfg(kani)]
    unsafe {
        return match RES.as_ref() {
            Some((g, v)) if *g == _f => Some(v),
            _ => None,
        };
    }
    #[cfg(not(kani))]
    {
        let q = TypeQualifier::from(&_f);
        let b = BareName::from(_f);
        return _m.ctx.variables().get_built_in(&b, q);
    }
}

/// move the value out of the result slot of `_f` (to pass it on as the argument of another wrapper: composition harnesses).
/// Under Kani the slot is emptied; natively the value is cloned (the real Variables has no removal).
#[allow(static_mut_refs)]
fn take_result(_m: &mut MockI, _f: BuiltInFunction) -> Option<Variant> {
    #[cfg(kani)]
    unsafe {
        return match std::mem::replace(&mut RES, None) {
            Some((g, v)) if g == _f => Some(v),
            other => {
                std::mem::forget(other);
                None
            }
        };
    }
    #[cfg(not(kani))]
    { return result_of(_m, _f).cloned(); }
}

/// how many result slots the wrapper has written (Kani: calls of set_built_in_function_result; natively: variables of the
/// context beyond the arguments).  0 after an error = "nothing written to any result slot".
#[allow(static_mut_refs)]
fn results_written(_m: &MockI) -> usize {
    #[cfg(kani)]
    unsafe { return RES_WRITES; }
    #[cfg(not(kani))]
    { return _m.ctx.variables().len() - _m.nargs; }
}


// ---- capacity abstraction of std's growable buffers (Kani only, opt-in: `harness_bi!(name, unwind, std_caps, { .. })`) ----
// `String::push` / `collect::<String>()` / `collect::<Vec<u8>>()` grow their buffer to `max(2 * cap, len + additional)`: with a
// symbolic length (a character with code 128..255 takes two bytes) that is an allocation of SYMBOLIC size at every push, and
// CBMC does not get through three of them.  The three stubs below replace the ALLOCATION POLICY by one that satisfies the
// documented contract of the std function and keeps every size concrete; contents are never touched:
//   String::new()              -> an empty string (std: capacity unspecified; here 32 bytes are reserved at once)
//   String::reserve(n)         -> std: afterwards capacity >= len + n, content unchanged; here: ASSERTS that the capacity
//                                 already suffices (a harness that needs more than 32 bytes fails, it does not pass silently)
//   Vec::with_capacity(n)      -> std: an empty vector with capacity >= n; here: asserts n <= 32 and reserves 32 elements
// The behaviour of safe code does not depend on the capacity; natively (replay) the real std runs.
fn stub_string_new() -> String { stub_string_with_capacity(0) }
//   String::with_capacity(n)   -> std: an empty string with capacity >= n; here: asserts n <= 32 and reserves 32 bytes
fn stub_string_with_capacity(n: usize) -> String {
    assert!(n <= 32, "capacity abstraction: String::with_capacity is asked for at most 32 bytes");
    let mut v: Vec<u8> = Vec::new();
    v.reserve_exact(32);
    unsafe { String::from_utf8_unchecked(v) }
}
//   String::push_str(t)        -> std: appends the bytes of t; here: the same, byte by byte into the reserved capacity (asserted to
//                                 suffice), without the growth path of Vec::extend_from_slice
fn stub_string_push_str(s: &mut String, t: &str) {
    let add = t.as_bytes();
    assert!(s.capacity() - s.len() >= add.len(), "capacity abstraction: the 32 bytes reserved suffice for push_str");
    unsafe {
        let v = s.as_mut_vec();
        let mut i = 0;
        while i < add.len() {
            let len = v.len();
            std::ptr::write(v.as_mut_ptr().add(len), add[i]);
            v.set_len(len + 1);
            i += 1;
        }
    }
}
fn stub_string_reserve(s: &mut String, additional: usize) {
    assert!(s.capacity() - s.len() >= additional, "capacity abstraction: the 32 bytes reserved by String::new() suffice");
}
fn stub_vec_with_capacity<T>(n: usize) -> Vec<T> {
    assert!(n <= 32, "capacity abstraction: Vec::with_capacity is asked for at most 32 elements");
    let mut v: Vec<T> = Vec::new();
    v.reserve_exact(32);
    v
}

/// harness_bi!(name, unwind, { ... }): a harness! with the three contract stubs of this file applied.
#[allow(unused_macros)]
macro_rules! harness_bi {
    ($name:ident, $unwind:expr, $body:block) => {
        harness!($name, $unwind,
            stub(std::hash::RandomState::new, fixed_random_state),
            stub(crate::interpreter::variables::Variables::get, stub_variables_get),
            stub(crate::interpreter::context::Context::set_built_in_function_result, stub_set_result),
            $body);
    };
    // the same plus the capacity abstraction of String / Vec (see above)
    ($name:ident, $unwind:expr, std_caps, $body:block) => {
        harness!($name, $unwind,
            stub(std::hash::RandomState::new, fixed_random_state),
            stub(crate::interpreter::variables::Variables::get, stub_variables_get),
            stub(crate::interpreter::context::Context::set_built_in_function_result, stub_set_result),
            stub(std::string::String::new, stub_string_new),
            stub(std::string::String::reserve, stub_string_reserve),
            stub(std::string::String::with_capacity, stub_string_with_capacity),
            stub(std::string::String::push_str, stub_string_push_str),
            stub(std::vec::Vec::with_capacity, stub_vec_with_capacity),
            $body);
    };
}
