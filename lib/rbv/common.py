import json
import os
import re
import shlex
import shutil
import subprocess
import sys
import time

ROOT = os.path.dirname(os.path.dirname(os.path.dirname(os.path.abspath(__file__))))
REPO = os.environ.get('RBVERIF_REPO', '/repo')
UNITS = os.path.join(ROOT, 'units')
SCRATCH_BASE = os.environ.get('RBVERIF_SCRATCH', '/var/tmp/rbverif')
KNOWN_FINDINGS = os.path.join(ROOT, 'known_findings.json')
REPLAY_DIR = os.environ.get('RBVERIF_REPLAY_DIR') or os.path.join(ROOT, 'replays')
NCPU = os.cpu_count() or 4


def log(*a):
    print(*a, file=sys.stderr, flush=True)


def env_offline(extra=None):
    e = dict(os.environ)
    e['CARGO_NET_OFFLINE'] = 'true'
    e.pop('RUSTFLAGS', None)
    e.pop('CARGO_TARGET_DIR', None)
    if extra:
        e.update(extra)
    return e


def run(cmd, cwd=None, env=None, timeout=None):
    """returns (rc, stdout+stderr text, seconds, timed_out)"""
    t0 = time.time()
    try:
        p = subprocess.Popen(cmd, cwd=cwd, env=env, stdout=subprocess.PIPE, stderr=subprocess.STDOUT,
                             start_new_session=True)
        try:
            out, _ = p.communicate(timeout=timeout)
            return p.returncode, out.decode('utf-8', 'replace'), time.time() - t0, False
        except subprocess.TimeoutExpired:
            try:
                os.killpg(p.pid, 9)
            except ProcessLookupError:
                pass
            out, _ = p.communicate()
            return -9, out.decode('utf-8', 'replace'), time.time() - t0, True
    except FileNotFoundError as e:
        return 127, str(e), time.time() - t0, False


def run2(cmd, cwd=None, env=None, timeout=None):
    """separate stdout / stderr: returns (rc, out, err, seconds, timed_out)"""
    t0 = time.time()
    p = subprocess.Popen(cmd, cwd=cwd, env=env, stdout=subprocess.PIPE, stderr=subprocess.PIPE, start_new_session=True)
    try:
        out, err = p.communicate(timeout=timeout)
        return p.returncode, out.decode('utf-8', 'replace'), err.decode('utf-8', 'replace'), time.time() - t0, False
    except subprocess.TimeoutExpired:
        try:
            os.killpg(p.pid, 9)
        except ProcessLookupError:
            pass
        out, err = p.communicate()
        return -9, out.decode('utf-8', 'replace'), err.decode('utf-8', 'replace'), time.time() - t0, True


def parse_kv(parts):
    d = {}
    for kv in parts:
        a, _, b = kv.partition('=')
        d[a] = b
    return d


class Scratch:
    """A scratch copy of /repo's current working tree (outside /repo and /verif), removed at exit."""

    def __init__(self, keep=False):
        os.makedirs(SCRATCH_BASE, exist_ok=True)
        self.dir = os.path.join(SCRATCH_BASE, 'run.%d' % os.getpid())
        if os.path.exists(self.dir):
            shutil.rmtree(self.dir)
        os.makedirs(self.dir)
        self.repo = os.path.join(self.dir, 'repo')
        self.keep = keep
        rc, out, _, _ = run(['rsync', '-a', '--exclude', '/target', '--exclude', '.git', REPO + '/', self.repo + '/'])
        if rc != 0:
            raise RuntimeError('rsync failed: ' + out)

    def cleanup(self):
        if not self.keep:
            shutil.rmtree(self.dir, ignore_errors=True)
            try:
                os.rmdir(SCRATCH_BASE)
            except OSError:
                pass


def load_findings():
    try:
        d = json.load(open(KNOWN_FINDINGS))
    except FileNotFoundError:
        d = {'findings': [], 'fixed': []}
    return d


def open_finding_ids(d=None):
    d = d or load_findings()
    return {f['id']: f for f in d.get('findings', []) if f.get('status', 'open') == 'open'}


def repo_head():
    rc, out, _, _ = run(['git', '-C', REPO, 'rev-parse', 'HEAD'])
    return out.strip() if rc == 0 else 'unknown'


def repo_dirty():
    rc, out, _, _ = run(['git', '-C', REPO, 'status', '--porcelain'])
    return [l for l in out.splitlines() if l.strip()] if rc == 0 else []
