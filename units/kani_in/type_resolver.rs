//# unit type_resolver kind=kani_in crate=rusty_linter inject=rusty_linter/src/core/type_resolver_impl.rs
//# assume "char_to_alphabet_index / fill_ranges / char_to_qualifier are only called with ASCII letters (caller's obligation: the DEFtype grammar's Letter ::= [a-zA-Z] and the first character of a parsed name); on any other char they panic ('Not a latin letter'), which Kani reports as a failed check, so that half of 'panics exactly on non-letters' cannot be a passing harness and is documented instead"
//! C13 / C09 — the DEFtype table.  Contract (property statements): a bare name has the default type
//! SINGLE unless a DEFINT/DEFLNG/DEFSNG/DEFDBL/DEFSTR range covers its first letter; letter case never matters.
//!   new():                     every letter -> SINGLE
//!   fill_ranges(a, b, q):      letter c -> q  iff idx(a) <= idx(c) <= idx(b); every other letter keeps its entry
//!   set(DefType(q, ranges)):   the ranges applied in order (later wins)
//!   char_to_alphabet_index(c): 0..=25, = position in the alphabet, same for both cases of c
//!   Name::qualify:             a suffixed name has the type of its suffix; a bare name the table entry of its
//!                              first letter  ("A and A! are one variable by default")
//! The table loop runs at most 26 times: unwind 27 with unwinding assertions = complete.

use crate::core::IntoTypeQualifier;
use crate::core::IntoQualified;
use rusty_parser::{BareName, Name};

fn any_q() -> TypeQualifier {
    match vs::choice(5) {
        0 => TypeQualifier::BangSingle,
        1 => TypeQualifier::HashDouble,
        2 => TypeQualifier::DollarString,
        3 => TypeQualifier::PercentInteger,
        _ => TypeQualifier::AmpersandLong,
    }
}
/// any ASCII letter, either case
fn any_letter() -> char {
    let c = vs::ascii();
    vs::assume(('a' <= c && c <= 'z') || ('A' <= c && c <= 'Z'));
    c
}
/// position in the alphabet, written independently of the code (no to_ascii_uppercase)
fn idx(c: char) -> usize {
    let v = c as u32;
    if v >= 'a' as u32 { (v - 'a' as u32) as usize } else { (v - 'A' as u32) as usize }
}
fn other_case(c: char) -> char {
    let v = c as u32;
    char::from_u32(if v >= 'a' as u32 { v - 32 } else { v + 32 }).unwrap()
}
fn any_table() -> TypeResolverImpl {
    let mut t = TypeResolverImpl::new();
    let mut i = 0;
    while i < LETTER_COUNT {
        t.ranges[i] = any_q();
        i += 1;
    }
    t
}

//# harness alphabet_index tier=quick label=complete props=C09,C13,C07 fn=rusty_linter/src/core/type_resolver_impl.rs::char_to_alphabet_index
harness!(alphabet_index, 2, {
    // every Unicode scalar value that is a letter of the Latin alphabet (everything else: caller's obligation)
    let v = vs::u32();
    let c = match char::from_u32(v) {
        Some(c) => c,
        None => {
            vs::assume(false);
            'a'
        }
    };
    vs::assume((v >= 65 && v <= 90) || (v >= 97 && v <= 122));
    let i = char_to_alphabet_index(c);
    assert!(i < 26, "index inside the 26-entry table");
    assert!(i == idx(c), "position in the alphabet");
    assert!(i == char_to_alphabet_index(other_case(c)), "same entry for both letter cases");
    reach!(c == 'A' && i == 0);
    reach!(c == 'z' && i == 25);
});

//# harness new_is_single tier=quick label=complete props=C13 fn=rusty_linter/src/core/type_resolver_impl.rs::TypeResolverImpl::new
harness!(new_is_single, 2, {
    let t = TypeResolverImpl::new();
    let c = any_letter();
    assert!(t.char_to_qualifier(c) == TypeQualifier::BangSingle, "default type of every letter is SINGLE");
    let d = TypeResolverImpl::default();
    assert!(d.char_to_qualifier(c) == TypeQualifier::BangSingle);
    reach!(c == 'q');
});

//# harness fill_ranges_frame tier=quick label=complete props=C13,C09,C07 fn=rusty_linter/src/core/type_resolver_impl.rs::TypeResolverImpl::fill_ranges
harness!(fill_ranges_frame, 27, {
    let mut t = any_table();
    let c = any_letter();
    let old = t.ranges[idx(c)];
    let (a, b, q) = (any_letter(), any_letter(), any_q());
    t.fill_ranges(a, b, q);
    let now = t.char_to_qualifier(c);
    if idx(a) <= idx(c) && idx(c) <= idx(b) {
        assert!(now == q, "a letter inside the range takes the new default type");
    } else {
        assert!(now == old, "a letter outside the range keeps its entry");
    }
    assert!(now == t.char_to_qualifier(other_case(c)), "letter case of the looked-up name is irrelevant");
    reach!(idx(a) == 0 && idx(b) == 25 && a == 'a' && b == 'Z');
    reach!(idx(a) > idx(b));
    reach!(idx(a) == idx(b) && idx(c) == idx(a));
    reach!(idx(c) > idx(b) && idx(a) <= idx(b));
});

//# harness set_def_type tier=thorough timeout=1800 label=bounded(ranges<=2) props=C13,C09 fn=rusty_linter/src/core/type_resolver_impl.rs::TypeResolverImpl::set
harness!(set_def_type, 27, {
    // DEFxxx r1, r2  (a single letter or a letter range each); starting from any table
    let mut t = any_table();
    let c = any_letter();
    let old = t.ranges[idx(c)];
    let q = any_q();
    let (a1, b1) = (any_letter(), any_letter());
    let single1 = vs::bool();
    let r1 = if single1 { LetterRange::Single(a1) } else { LetterRange::Range(a1, b1) };
    let two = vs::bool();
    let (a2, b2) = (any_letter(), any_letter());
    let single2 = vs::bool();
    let r2 = if single2 { LetterRange::Single(a2) } else { LetterRange::Range(a2, b2) };
    let mut v = Vec::with_capacity(2);
    v.push(r1);
    if two {
        v.push(r2);
    }
    let d = DefType::new(q, v);
    t.set(&d);
    let in1 = if single1 { idx(c) == idx(a1) } else { idx(a1) <= idx(c) && idx(c) <= idx(b1) };
    let in2 = two && if single2 { idx(c) == idx(a2) } else { idx(a2) <= idx(c) && idx(c) <= idx(b2) };
    let now = t.char_to_qualifier(c);
    assert!(now == if in1 || in2 { q } else { old }, "covered letters take the statement's type, all others keep theirs");
    reach!(in1 && !in2 && two);
    reach!(!in1 && in2);
    reach!(!in1 && !in2);
    std::mem::forget(d);
});

//# harness set_def_type_one tier=quick label=bounded(ranges<=1) props=C13,C09,C07 fn=rusty_linter/src/core/type_resolver_impl.rs::TypeResolverImpl::set
harness!(set_def_type_one, 27, {
    // DEFxxx r  (a single letter or a letter range); starting from any table
    let mut t = any_table();
    let c = any_letter();
    let old = t.ranges[idx(c)];
    let q = any_q();
    let (a1, b1) = (any_letter(), any_letter());
    let single1 = vs::bool();
    let r1 = if single1 { LetterRange::Single(a1) } else { LetterRange::Range(a1, b1) };
    let mut v = Vec::with_capacity(1);
    v.push(r1);
    let d = DefType::new(q, v);
    t.set(&d);
    let in1 = if single1 { idx(c) == idx(a1) } else { idx(a1) <= idx(c) && idx(c) <= idx(b1) };
    let now = t.char_to_qualifier(c);
    assert!(now == if in1 { q } else { old }, "covered letters take the statement's type, all others keep theirs");
    reach!(in1 && single1);
    reach!(in1 && !single1);
    reach!(!in1);
    std::mem::forget(d);
});

//# harness qualify_name tier=quick label=bounded(len<=2) props=C13,C09,C07 fn=rusty_linter/src/core/type_resolver.rs::IntoTypeQualifier::qualify
harness!(qualify_name, 27, {
    // a name of one or two characters whose first character is any letter
    let t = any_table();
    let c = any_letter();
    let mut s = String::with_capacity(2);
    s.push(c);
    if vs::bool() {
        s.push('1');
    }
    let bare: BareName = BareName::new(s);
    let entry = t.ranges[idx(c)];
    assert!(bare.qualify(&t) == entry, "bare name: table entry of its first letter");
    let suffixed = vs::bool();
    let q = any_q();
    let name = if suffixed { Name::qualified(bare, q) } else { Name::bare(bare) };
    let r = name.qualify(&t);
    if suffixed {
        assert!(r == q, "a suffix decides the type, the table is not consulted");
    } else {
        assert!(r == entry, "bare name: table entry of its first letter");
    }
    // to_qualified: A and A<entry> are one variable
    let full = name.to_qualified(&t);
    assert!(full.qualifier() == Some(r), "to_qualified attaches exactly that type");
    reach!(suffixed && q != entry);
    reach!(!suffixed && entry == TypeQualifier::DollarString);
    std::mem::forget(full);
});
