//# unit token_kernels kind=kani_in crate=rusty_parser inject=rusty_parser/src/tokens/any_token.rs stubbing=1
//# assume "symbolic inputs are ASCII texts (1 byte per char) of at most the stated number of characters, so that the harness can build the &str for StringView::from without UTF-8 validation; non-ASCII input is covered by the concrete harnesses ident_non_ascii only"
//# assume "harnesses on whitespace() and any_keyword() replace alloc::fmt::format (the format! inside ParserError::from(&str), called once while the parser value is BUILT by with_expected_message) by an abstraction that returns an empty String: the TEXT of a soft 'Expected: ..' error is not under contract, only its softness; natively (replay of a counterexample) the real format! runs"
//! C07 / C09 / C20 — the token recognisers of the real tokenizer (private fns of any_token.rs, built from rusty_pc
//! combinators) run on a real StringView over EVERY ASCII text of up to N characters.  What the properties demand:
//!  * a recogniser either yields ONE token whose text is exactly the characters it consumed, of the kind named, and
//!    leaves the input right behind them, or fails SOFTLY and leaves the input where it started (C20);
//!  * identifier (C07 "no input makes them panic": the checker's char_to_alphabet_index panics on a first character
//!    outside A-Z/a-z): first char an ASCII letter, then the MAXIMAL run of ASCII letters, digits and '.', at most 40
//!    characters (longer: IdentifierTooLong, a hard error); anything else at the start: soft failure;
//!  * whitespace (C09 "the amount of blanks or tabs where one is allowed"): the maximal run of ' ' and TAB, nothing else;
//!  * digits: the maximal run of ASCII digits;
//!  * keyword (C09 "changing the case of keywords"): every case spelling of a keyword is ONE Keyword token, provided the
//!    next character cannot continue a name (letter, digit, '.', '$'); otherwise no keyword token (soft failure);
//!  * > >= < <= <> = : the longest operator wins, token kinds as named.


fn make_input<const N: usize>(b: &[u8; N]) -> StringView {
    let s = unsafe { std::str::from_utf8_unchecked(&b[..]) };
    StringView::from(s)
}

/// symbolic ASCII text of exactly N characters
fn any_text<const N: usize>() -> [u8; N] {
    let mut b = [0u8; N];
    let mut i = 0;
    while i < N {
        // (masking instead of assuming `< 128`: the top bit is a constant for the bit-level solver, which folds the
        // multi-byte branches of the UTF-8 encoder / decoder away)
        b[i] = vs::u8() & 0x7f;
        i += 1;
    }
    b
}

fn no_format(_args: std::fmt::Arguments<'_>) -> String {
    String::new()
}

/// contract of TokenType::get_index (a binary search in ALL_TOKEN_TYPES): the position of the variant in the enum.
/// Proved by harness get_index_contract; the recogniser harnesses use it in place of the search so that their unwind
/// bound follows the text length, not the 4 iterations of the search.
fn get_index_is_discriminant(t: &TokenType) -> u8 {
    *t as u8
}

fn is_letter(c: u8) -> bool {
    (b'A' <= c && c <= b'Z') || (b'a' <= c && c <= b'z')
}
fn is_digit(c: u8) -> bool {
    b'0' <= c && c <= b'9'
}
fn is_blank(c: u8) -> bool {
    c == b' ' || c == b'\t'
}
fn is_name_char(c: u8) -> bool {
    is_letter(c) || is_digit(c) || c == b'.'
}

/// length of the maximal prefix of b whose first char satisfies `first` and whose other chars satisfy `rest`
fn run_len<const N: usize>(b: &[u8; N], first: impl Fn(u8) -> bool, rest: impl Fn(u8) -> bool) -> usize {
    let mut k = 0;
    let mut open = true;
    let mut i = 0;
    while i < N {
        if open && (if i == 0 { first(b[i]) } else { rest(b[i]) }) {
            k = i + 1;
        } else {
            open = false;
        }
        i += 1;
    }
    k
}

/// The contract of a token recogniser started at position 0 of the text b:
/// used == 0: soft failure, nothing consumed; used > 0: one token of `kind` whose text is b[..used], input at `used`.
fn check_token<P, const N: usize>(p: &mut P, input: &mut StringView, b: &[u8; N], kind: TokenType, used: usize)
where
    P: Parser<StringView, Output = Token, Error = ParserError>,
{
    input.set_position(0);
    let r = p.parse(input);
    match &r {
        Ok(tok) => {
            assert!(used > 0, "no token may be recognised here");
            assert!(tok.kind() == kind.get_index(), "token kind");
            let t = tok.as_str().as_bytes();
            assert!(t.len() == used, "token length = maximal run");
            let mut i = 0;
            while i < N {
                if i < used {
                    assert!(t[i] == b[i], "token text is the consumed text, verbatim");
                }
                i += 1;
            }
        }
        Err(e) => {
            assert!(used == 0, "a token must be recognised here");
            assert!(e.is_soft(), "not this token: soft failure");
        }
    }
    assert!(input.get_position() == used, "exactly the token is consumed (nothing on a soft failure)");
    std::mem::forget(r);
}

// ---------------------------------------------------------------------------------------------- identifier

fn ident_body<const N: usize>() -> ([u8; N], usize) {
    let b = any_text::<N>();
    let mut input = make_input(&b);
    let used = run_len(&b, is_letter, is_name_char);
    let mut p = identifier();
    check_token(&mut p, &mut input, &b, TokenType::Identifier, used);
    std::mem::forget(p);
    std::mem::forget(input);
    (b, used)
}

//# harness get_index_contract tier=quick label=complete props=C07,C09,C20 fn=rusty_parser/src/tokens/token_type.rs::TokenType::get_index
harness!(get_index_contract, 6, {
    let i = vs::choice(14);
    let t = TokenType::from_index(i);
    assert!(t as u8 == i, "from_index(i) is the i-th variant");
    assert!(t.get_index() == get_index_is_discriminant(&t), "get_index is the position of the variant in the enum");
    assert!(TokenType::Symbol as u8 == 13 && TokenType::Eol as u8 == 0, "14 token types");
    reach!(t == TokenType::Symbol);
    reach!(t == TokenType::Eol);
    reach!(t == TokenType::Identifier);
});

//# harness ident_1 tier=quick label=bounded(1-chars,ascii) props=C07,C09,C20 fn=rusty_parser/src/tokens/any_token.rs::identifier timeout=600
harness!(ident_1, 2, stub(crate::tokens::token_type::TokenType::get_index, get_index_is_discriminant), {
    // texts of 0 and of 1 character (end of input instead of / right after the token)
    let (_, used0) = ident_body::<0>();
    assert!(used0 == 0);
    let (b, used) = ident_body::<1>();
    reach!(used == 0);
    reach!(used == 1 && b[0] == b'z');
    reach!(used == 1 && b[0] == b'A');
});

//# harness ident_2 tier=quick label=bounded(2-chars,ascii) props=C07,C09,C20 fn=rusty_parser/src/tokens/any_token.rs::identifier timeout=900
harness!(ident_2, 3, stub(crate::tokens::token_type::TokenType::get_index, get_index_is_discriminant), {
    let (b, used) = ident_body::<2>();
    reach!(used == 0);
    reach!(used == 1);
    reach!(used == 2 && b[1] == b'.');
    reach!(used == 2 && b[1] == b'7');
});

//# harness ident_3 tier=thorough label=bounded(3-chars,ascii) props=C07,C09,C20 fn=rusty_parser/src/tokens/any_token.rs::identifier timeout=1800
harness!(ident_3, 4, stub(crate::tokens::token_type::TokenType::get_index, get_index_is_discriminant), {
    let (b, used) = ident_body::<3>();
    reach!(used == 0);
    reach!(used == 1);
    reach!(used == 2 && b[2] == b'$');
    reach!(used == 3 && b[1] == b'.' && b[2] == b'Z');
});

//# harness ident_non_ascii tier=quick label=bounded(1-input) props=C07,C09 fn=rusty_parser/src/tokens/any_token.rs::identifier timeout=900
harness!(ident_non_ascii, 24, stub(crate::tokens::token_type::TokenType::get_index, get_index_is_discriminant), {
    // a letter outside ASCII never starts an identifier: the checker's char_to_alphabet_index panics on such a name
    // (unwind 24, far more than the clean tree needs: a tree that accepts the letter goes on into the Unicode table search of char::is_alphabetic and the loops of the
    // recogniser, and the verdict must then be the failed clause, not an unwinding assertion)
    let mut a = StringView::from("\u{e9}1");
    let ra = identifier().parse(&mut a);
    assert!(matches!(&ra, Err(e) if e.is_soft()), "e-acute cannot start an identifier: soft failure");
    assert!(a.get_position() == 0, "nothing consumed");
    std::mem::forget((ra, a));
});

//# harness ident_non_ascii_more tier=thorough label=bounded(3-inputs) props=C07,C09 fn=rusty_parser/src/tokens/any_token.rs::identifier timeout=1800
harness!(ident_non_ascii_more, 5, stub(crate::tokens::token_type::TokenType::get_index, get_index_is_discriminant), {
    let mut b = StringView::from("\u{3a9}");
    let rb = identifier().parse(&mut b);
    assert!(matches!(&rb, Err(e) if e.is_soft()) && b.get_position() == 0, "Greek capital omega cannot start an identifier");
    let mut c = StringView::from("a\u{e9}");
    let rc = identifier().parse(&mut c);
    assert!(matches!(&rc, Ok(t) if t.as_str().as_bytes().len() == 1 && t.as_str().as_bytes()[0] == b'a') && c.get_position() == 1, "e-acute does not continue an identifier");
    let mut d = StringView::from("a\u{663}");
    let rd = identifier().parse(&mut d);
    assert!(matches!(&rd, Ok(t) if t.as_str().as_bytes().len() == 1) && d.get_position() == 1, "an Arabic-Indic digit does not continue an identifier");
    std::mem::forget((rb, rc, rd, b, c, d));
});

// ---------------------------------------------------------------------------------------------- whitespace, digits

fn ws_body<const N: usize>() -> ([u8; N], usize) {
    let b = any_text::<N>();
    let mut input = make_input(&b);
    let used = run_len(&b, is_blank, is_blank);
    let mut p = whitespace();
    check_token(&mut p, &mut input, &b, TokenType::Whitespace, used);
    std::mem::forget(p);
    std::mem::forget(input);
    (b, used)
}

fn digits_body<const N: usize>() -> ([u8; N], usize) {
    let b = any_text::<N>();
    let mut input = make_input(&b);
    let used = run_len(&b, is_digit, is_digit);
    let mut p = digits();
    check_token(&mut p, &mut input, &b, TokenType::Digits, used);
    std::mem::forget(p);
    std::mem::forget(input);
    (b, used)
}

//# harness whitespace_2 tier=quick label=bounded(2-chars,ascii) props=C09,C20 fn=rusty_parser/src/tokens/any_token.rs::whitespace timeout=900
harness!(whitespace_2, 3, stub(crate::tokens::token_type::TokenType::get_index, get_index_is_discriminant), stub(alloc::fmt::format, no_format), {
    let (b, used) = ws_body::<2>();
    reach!(used == 0);
    reach!(used == 1 && b[0] == b'\t');
    reach!(used == 2 && b[0] == b' ' && b[1] == b'\t');
    reach!(used == 2 && b[0] == b'\t' && b[1] == b' ');
});

//# harness whitespace_1 tier=thorough label=bounded(1-chars,ascii) props=C09,C20 fn=rusty_parser/src/tokens/any_token.rs::whitespace timeout=1800
harness!(whitespace_1, 2, stub(crate::tokens::token_type::TokenType::get_index, get_index_is_discriminant), stub(alloc::fmt::format, no_format), {
    let (_, u0) = ws_body::<0>();
    assert!(u0 == 0);
    let (b1, u1) = ws_body::<1>();
    reach!(u1 == 1 && b1[0] == b'\t');
    reach!(u1 == 0);
});

//# harness whitespace_3 tier=thorough label=bounded(3-chars,ascii) props=C09,C20 fn=rusty_parser/src/tokens/any_token.rs::whitespace timeout=1800
harness!(whitespace_3, 4, stub(crate::tokens::token_type::TokenType::get_index, get_index_is_discriminant), stub(alloc::fmt::format, no_format), {
    let (b, used) = ws_body::<3>();
    reach!(used == 0);
    reach!(used == 2 && b[2] == b'\n');
    reach!(used == 3 && b[1] == b'\t');
});

//# harness digits_2 tier=thorough label=bounded(2-chars,ascii) props=C09,C10,C20 fn=rusty_parser/src/tokens/any_token.rs::digits timeout=1800
harness!(digits_2, 3, stub(crate::tokens::token_type::TokenType::get_index, get_index_is_discriminant), {
    let (_, u0) = digits_body::<0>();
    assert!(u0 == 0);
    let (b, used) = digits_body::<2>();
    reach!(used == 0);
    reach!(used == 1 && b[0] == b'0' && b[1] == b'.');
    reach!(used == 2 && b[0] == b'9' && b[1] == b'0');
});

//# harness digits_3 tier=thorough label=bounded(3-chars,ascii) props=C09,C10,C20 fn=rusty_parser/src/tokens/any_token.rs::digits timeout=1800
harness!(digits_3, 4, stub(crate::tokens::token_type::TokenType::get_index, get_index_is_discriminant), {
    let (b1, u1) = digits_body::<1>();
    reach!(u1 == 1);
    let (b, used) = digits_body::<3>();
    reach!(used == 0);
    reach!(used == 2 && b[2] == b'e');
    reach!(used == 3);
});

// ---------------------------------------------------------------------------------------------- relational operators

/// what the property demands at the start of the text b: (kind, characters consumed) of > >= / < <= <> / =
fn expect_gt<const N: usize>(b: &[u8; N]) -> (TokenType, usize) {
    let c0 = if N > 0 { b[0] } else { 0 };
    let c1 = if N > 1 { b[1] } else { 0 };
    if c0 == b'>' && c1 == b'=' {
        (TokenType::GreaterEquals, 2)
    } else if c0 == b'>' {
        (TokenType::Greater, 1)
    } else {
        (TokenType::Greater, 0)
    }
}
fn expect_lt<const N: usize>(b: &[u8; N]) -> (TokenType, usize) {
    let c0 = if N > 0 { b[0] } else { 0 };
    let c1 = if N > 1 { b[1] } else { 0 };
    if c0 == b'<' && c1 == b'=' {
        (TokenType::LessEquals, 2)
    } else if c0 == b'<' && c1 == b'>' {
        (TokenType::NotEquals, 2)
    } else if c0 == b'<' {
        (TokenType::Less, 1)
    } else {
        (TokenType::Less, 0)
    }
}

fn gt_body<const N: usize>() -> [u8; N] {
    let b = any_text::<N>();
    let mut input = make_input(&b);
    let (kind, used) = expect_gt(&b);
    let mut p = gt_or_ge();
    check_token(&mut p, &mut input, &b, kind, used);
    std::mem::forget(p);
    std::mem::forget(input);
    b
}
fn lt_body<const N: usize>() -> [u8; N] {
    let b = any_text::<N>();
    let mut input = make_input(&b);
    let (kind, used) = expect_lt(&b);
    let mut p = lt_or_le_or_ne();
    check_token(&mut p, &mut input, &b, kind, used);
    std::mem::forget(p);
    std::mem::forget(input);
    b
}
fn eq_body<const N: usize>() -> [u8; N] {
    let b = any_text::<N>();
    let mut input = make_input(&b);
    let mut p = equals();
    check_token(&mut p, &mut input, &b, TokenType::Equals, if N > 0 && b[0] == b'=' { 1 } else { 0 });
    std::mem::forget(p);
    std::mem::forget(input);
    b
}

//# harness less_2 tier=thorough label=bounded(2-chars,ascii) props=C09,C10,C20 fn=rusty_parser/src/tokens/any_token.rs::lt_or_le_or_ne timeout=1800
harness!(less_2, 3, stub(crate::tokens::token_type::TokenType::get_index, get_index_is_discriminant), {
    let b1 = lt_body::<1>();
    reach!(b1[0] == b'<');
    let b = lt_body::<2>();
    reach!(b[0] == b'<' && b[1] == b'=');
    reach!(b[0] == b'<' && b[1] == b'>');
    reach!(b[0] == b'<' && b[1] == b'<');
    reach!(b[0] == b'>' && b[1] == b'<');
});

//# harness greater_2 tier=thorough label=bounded(2-chars,ascii) props=C09,C10,C20 fn=rusty_parser/src/tokens/any_token.rs::gt_or_ge timeout=1800
harness!(greater_2, 3, stub(crate::tokens::token_type::TokenType::get_index, get_index_is_discriminant), {
    let b1 = gt_body::<1>();
    reach!(b1[0] == b'>');
    let b = gt_body::<2>();
    reach!(b[0] == b'>' && b[1] == b'=');
    reach!(b[0] == b'>' && b[1] == b'>');
    reach!(b[0] == b'=' && b[1] == b'>');
});

//# harness equals_2 tier=thorough label=bounded(2-chars,ascii) props=C09,C10,C20 fn=rusty_parser/src/tokens/any_token.rs::equals timeout=1800
harness!(equals_2, 3, stub(crate::tokens::token_type::TokenType::get_index, get_index_is_discriminant), {
    let _ = eq_body::<0>();
    let b = eq_body::<2>();
    reach!(b[0] == b'=' && b[1] == b'=');
    reach!(b[0] == b'=' && b[1] == b'<');
    reach!(b[0] == b'x');
});

// ---------------------------------------------------------------------------------------------- keywords
// any_keyword() = many_str(letters) . filter(Keyword::try_from is Ok) . and_keep_left(ensure_no_illegal_char_after_keyword).
// Keyword::try_from is a 7-step binary search: with the real search inside, the unwind bound 8 applies to every loop of
// the combinators as well and CBMC runs out of memory (tried: keyword IF + 1 symbolic character, unwind 9: > 30 GB).
// So the obligation is split modularly:
//   keyword_lookup_family_*  the REAL Keyword::try_from satisfies `lookup_contract` on the family of words the keyword
//                            harnesses can present (IF / TO / OR / DIM in every case spelling, alone or continued by one letter);
//   keyword_*                the REAL any_keyword() with Keyword::try_from replaced by `lookup_contract` (which asserts that
//                            it is only asked about words of that family).
// Unit keyword_table proves the lookup for the spellings of ALL keywords (C09); here only the family is needed.

/// the keyword of the family that the word `t` starts with (ignoring case), and its length
fn family_keyword(t: &[u8]) -> Option<(Keyword, usize)> {
    let up = |i: usize| t[i].to_ascii_uppercase();
    if t.len() >= 2 && up(0) == b'I' && up(1) == b'F' {
        Some((Keyword::If, 2))
    } else if t.len() >= 2 && up(0) == b'T' && up(1) == b'O' {
        Some((Keyword::To, 2))
    } else if t.len() >= 2 && up(0) == b'O' && up(1) == b'R' {
        Some((Keyword::Or, 2))
    } else if t.len() >= 3 && up(0) == b'D' && up(1) == b'I' && up(2) == b'M' {
        Some((Keyword::Dim, 3))
    } else {
        None
    }
}

/// Contract of `Keyword::try_from(&str)` on the family: the keyword itself in any case spelling is found; the keyword
/// continued by one more letter is not a keyword.  (`where 'a: 'a` makes the lifetime early-bound like the impl's.)
fn lookup_contract<'a>(s: &'a str) -> Result<Keyword, usize>
where
    'a: 'a,
{
    let t = s.as_bytes();
    let fam = family_keyword(t);
    assert!(fam.is_some(), "keyword lookup asked about a word outside the family under contract");
    let (kw, k) = fam.unwrap();
    assert!(
        t.len() == k || (t.len() == k + 1 && is_letter(t[k])),
        "keyword lookup asked about a word outside the family under contract"
    );
    if t.len() == k {
        Ok(kw)
    } else {
        #[cfg(kani)]
        let at: usize = kani::any();
        #[cfg(not(kani))]
        let at: usize = 0;
        Err(at)
    }
}

/// harness_bi!(name, unwind, { .. }): a harness with this unit's three contract stubs (TokenType::get_index, format!,
/// Keyword::try_from).  A macro of its own because `harness!` takes the callee as a `path` fragment, which cannot spell
/// `<Keyword as TryFrom<&str>>::try_from`; the name is one of the three the driver recognises.
macro_rules! harness_bi {
    ($name:ident, $unwind:expr, $body:block) => {
        #[cfg_attr(kani, kani::proof)]
        #[cfg_attr(kani, kani::unwind($unwind))]
        #[cfg_attr(kani, kani::stub(crate::tokens::token_type::TokenType::get_index, get_index_is_discriminant))]
        #[cfg_attr(kani, kani::stub(alloc::fmt::format, no_format))]
        #[cfg_attr(kani, kani::stub(<crate::core::keyword::Keyword as std::convert::TryFrom<&str>>::try_from, lookup_contract))]
        #[allow(unused_variables, unused_mut, dead_code)]
        pub fn $name() $body
    };
}

/// the K letters of `kw` in the case spelling chosen by the bits of `mask` (bit i set: letter i upper case), followed
/// (when N == K + 1) by the character `next`
fn spelled<const K: usize, const N: usize>(kw: &[u8; K], mask: u8, next: u8) -> [u8; N] {
    let mut b = [0u8; N];
    let mut i = 0;
    while i < N {
        if i < K {
            b[i] = if (mask >> i) & 1 == 1 { kw[i].to_ascii_uppercase() } else { kw[i].to_ascii_lowercase() };
        } else {
            b[i] = next;
        }
        i += 1;
    }
    b
}

fn lookup_family_body<const K: usize, const N: usize>(kw: &[u8; K], expected: Keyword) {
    let mask = vs::u8();
    let next = vs::u8();
    vs::assume(is_letter(next));
    let b = spelled::<K, N>(kw, mask, next);
    let s = unsafe { std::str::from_utf8_unchecked(&b[..]) };
    let real = Keyword::try_from(s);
    let contract = lookup_contract(s);
    assert!(real.is_ok() == contract.is_ok(), "Keyword::try_from: found exactly when the contract says so");
    if N == K {
        assert!(real == Ok(expected), "every case spelling of the keyword is that keyword");
    } else {
        assert!(real.is_err(), "the keyword continued by a letter is not a keyword");
    }
}

//# harness keyword_lookup_family_2 tier=thorough label=bounded(words:IF-TO-OR,any-case,0-or-1-more-letter) props=C09 fn=rusty_parser/src/core/keyword.rs::Keyword::try_from timeout=900
harness!(keyword_lookup_family_2, 9, {
    lookup_family_body::<2, 2>(b"if", Keyword::If);
    lookup_family_body::<2, 3>(b"if", Keyword::If);
    lookup_family_body::<2, 2>(b"to", Keyword::To);
    lookup_family_body::<2, 3>(b"to", Keyword::To);
    lookup_family_body::<2, 2>(b"or", Keyword::Or);
    lookup_family_body::<2, 3>(b"or", Keyword::Or);
});

//# harness keyword_lookup_family_3 tier=thorough label=bounded(words:DIM,any-case,0-or-1-more-letter) props=C09 fn=rusty_parser/src/core/keyword.rs::Keyword::try_from timeout=1800
harness!(keyword_lookup_family_3, 9, {
    lookup_family_body::<3, 3>(b"dim", Keyword::Dim);
    lookup_family_body::<3, 4>(b"dim", Keyword::Dim);
});

/// any_keyword() on the text: keyword `kw` in the case spelling `mask`, then (N == K + 1) the character `next`
fn keyword_body<const K: usize, const N: usize>(kw: &[u8; K], mask: u8, next: u8) -> usize {
    let b = spelled::<K, N>(kw, mask, next);
    let mut input = make_input(&b);
    // a keyword is a whole word: the next character must not be able to continue a name
    let used = if N > K && (is_name_char(b[K]) || b[K] == b'$') { 0 } else { K };
    let mut p = any_keyword();
    check_token(&mut p, &mut input, &b, TokenType::Keyword, used);
    std::mem::forget(p);
    std::mem::forget(input);
    used
}

//# harness keyword_end_2 tier=thorough label=bounded(keywords-IF-TO-OR,any-case,end-of-text) props=C09,C20 fn=rusty_parser/src/tokens/any_token.rs::any_keyword timeout=1800
harness_bi!(keyword_end_2, 3, {
    // IF / TO / OR in any of the 4 case spellings, at the end of the text
    let which = vs::choice(3);
    let kw: &[u8; 2] = if which == 0 { b"if" } else if which == 1 { b"to" } else { b"or" };
    let mask = vs::u8();
    let used = keyword_body::<2, 2>(kw, mask, 0);
    assert!(used == 2);
    reach!(which == 2 && mask & 3 == 1);
    reach!(which == 0 && mask & 3 == 0);
    reach!(which == 1 && mask & 3 == 3);
});

//# harness keyword_follower_2 tier=thorough label=bounded(keyword-IF,any-case,1-more-char,ascii) props=C09,C20 fn=rusty_parser/src/tokens/any_token.rs::any_keyword timeout=1800
harness_bi!(keyword_follower_2, 4, {
    // IF in any case spelling followed by ANY ASCII character
    let mask = vs::u8();
    let next = vs::u8() & 0x7f;
    let used = keyword_body::<2, 3>(b"if", mask, next);
    reach!(used == 2 && mask & 3 == 2 && next == b' ');
    reach!(used == 2 && mask & 3 == 0 && next == b'(');
    reach!(used == 2 && next == b'\r');
    reach!(used == 2 && next == b'%');
    reach!(used == 0 && next == b'$');
    reach!(used == 0 && next == b'.');
    reach!(used == 0 && next == b'0');
    reach!(used == 0 && next == b'f');
});

//# harness keyword_follower_3 tier=thorough label=bounded(keyword-DIM,any-case,1-more-char,ascii) props=C09,C20 fn=rusty_parser/src/tokens/any_token.rs::any_keyword timeout=1800
harness_bi!(keyword_follower_3, 5, {
    let mask = vs::u8();
    let next = vs::u8() & 0x7f;
    let used = keyword_body::<3, 4>(b"dim", mask, next);
    reach!(used == 3 && mask & 7 == 5 && next == b' ');
    reach!(used == 0 && next == b'$');
    reach!(used == 0 && next == b'9');
    reach!(used == 0 && next == b'S');
});

// (given up: any_keyword() with the REAL Keyword::try_from inside on all 1-character ASCII texts -- "a text that does not
//  start with a keyword is no keyword token" -- unwind 9 forced by the binary search: CBMC out of memory after 280 s / 900 s.)

//# harness char_after_keyword tier=quick label=complete props=C09 fn=rusty_parser/src/tokens/any_token.rs::is_allowed_char_after_keyword
harness!(char_after_keyword, 2, {
    // every ASCII character: a keyword may be followed by it exactly when it cannot continue a name
    let c = vs::u8();
    vs::assume(c < 128);
    assert!(
        is_allowed_char_after_keyword(c as char) == !(is_name_char(c) || c == b'$'),
        "letters, digits, '.' and '$' after a keyword make it part of a name; anything else ends the keyword"
    );
    reach!(c == b'$');
    reach!(c == b' ');
    reach!(c == b'z');
});
