//# unit instr_kernel kind=kani_in crate=rusty_basic inject=rusty_basic/src/interpreter/built_ins/instr.rs
//# assume "strings over the alphabet {a,b}: haystack length <= 4, needle length 1..=3, start position 1..=5 (bounded stand-in; one harness per haystack length, needle lengths enumerated)"
// C17 -- the search kernel of INSTR.  Contract (property statement: "INSTR(n,s,t) for non-empty t is the least
// position >= n where t occurs in s or else 0"): for a non-empty needle t and a start position n >= 1,
//   do_instr(n, s, t) = Ok(p)  with p = the LEAST 1-based p >= n such that s[p-1 .. p-1+|t|] = t,
//                               p = 0 when there is no such position (in particular when s is empty or n > |s|);
//   never an error, never a panic.
// The oracle scans ALL candidate positions and compares byte by byte; it shares no code with do_instr.

const HAY_MAX: usize = 4;
const NEEDLE_MAX: usize = 3;

fn ab() -> u8 {
    if vs::bool() { b'a' } else { b'b' }
}

/// the specification: least p >= start (1-based) at which needle occurs in hay, else 0
fn least_occurrence(start: usize, hay: &[u8], needle: &[u8]) -> i32 {
    let mut answer: i32 = 0;
    let mut p = HAY_MAX + 1; // scan downwards so that the last hit recorded is the least one
    while p >= 1 {
        if p >= start && p - 1 + needle.len() <= hay.len() {
            let mut same = true;
            let mut k = 0;
            while k < needle.len() {
                if hay[p - 1 + k] != needle[k] {
                    same = false;
                }
                k += 1;
            }
            if same {
                answer = p as i32;
            }
        }
        p -= 1;
    }
    answer
}

fn check_instr(hay: &[u8], needle: &[u8], start: usize) -> i32 {
    // ASCII by construction
    let h = unsafe { std::str::from_utf8_unchecked(hay) };
    let n = unsafe { std::str::from_utf8_unchecked(needle) };
    let r = do_instr(start, h, n);
    let want = least_occurrence(start, hay, needle);
    let got = match &r {
        Ok(p) => *p,
        Err(_) => -1,
    };
    std::mem::forget(r);
    assert!(got != -1, "INSTR with a positive start and string arguments never fails");
    assert!(got == want, "INSTR(n,s,t) is the least position >= n where t occurs in s, or else 0");
    got
}

/// (start, INSTR for the needle prefixes of length 1, 2, 3) -- every one checked against the specification
fn check_all_needles(hay: &[u8]) -> (usize, i32, i32, i32) {
    let start = 1 + vs::choice(5) as usize; // 1..=5
    let nb = [ab(), ab(), ab()];
    let r1 = check_instr(hay, &nb[..1], start);
    let r2 = check_instr(hay, &nb[..2], start);
    let r3 = check_instr(hay, &nb[..3], start);
    (start, r1, r2, r3)
}

//# harness instr_hay0 tier=quick label=bounded(|s|=0,|t|=1..3,n=1..5,alphabet_ab) props=C17 fn=rusty_basic/src/interpreter/built_ins/instr.rs::do_instr
harness!(instr_hay0, 8, {
    let hay: [u8; 0] = [];
    let (start, r1, r2, r3) = check_all_needles(&hay);
    reach!(r1 == 0 && start == 1);
});

//# harness instr_hay1 tier=quick label=bounded(|s|=1,|t|=1..3,n=1..5,alphabet_ab) props=C17 fn=rusty_basic/src/interpreter/built_ins/instr.rs::do_instr
harness!(instr_hay1, 8, {
    let hay = [ab()];
    let (start, r1, r2, r3) = check_all_needles(&hay);
    reach!(r1 == 1);
    reach!(r1 == 0 && start == 1);
    reach!(r1 == 0 && start == 2);
});

//# harness instr_hay2 tier=quick label=bounded(|s|=2,|t|=1..3,n=1..5,alphabet_ab) props=C17 fn=rusty_basic/src/interpreter/built_ins/instr.rs::do_instr
harness!(instr_hay2, 8, {
    let hay = [ab(), ab()];
    let (start, r1, r2, r3) = check_all_needles(&hay);
    reach!(r1 == 2 && start == 1);
    reach!(r1 == 2 && start == 2);
    reach!(r2 == 1);
    reach!(r2 == 0 && start == 1);
});

//# harness instr_hay3 tier=quick label=bounded(|s|=3,|t|=1..3,n=1..5,alphabet_ab) props=C17 fn=rusty_basic/src/interpreter/built_ins/instr.rs::do_instr
harness!(instr_hay3, 8, {
    let hay = [ab(), ab(), ab()];
    let (start, r1, r2, r3) = check_all_needles(&hay);
    reach!(r2 == 2 && start == 1);
    reach!(r2 == 2 && start == 2);
    reach!(r3 == 1);
    reach!(r1 == 3 && start == 2);
    reach!(r1 == 0 && start == 4);
});

//# harness instr_hay4 tier=quick label=bounded(|s|=4,|t|=1..3,n=1..5,alphabet_ab) props=C17 fn=rusty_basic/src/interpreter/built_ins/instr.rs::do_instr
harness!(instr_hay4, 8, {
    let hay = [ab(), ab(), ab(), ab()];
    let (start, r1, r2, r3) = check_all_needles(&hay);
    // the overlapping case: INSTR("aaab","aab") = 2
    reach!(r3 == 2 && start == 1 && hay[0] == hay[1] && hay[1] == hay[2] && hay[2] != hay[3]);
    reach!(r2 == 3 && start == 2);
    reach!(r2 == 3 && start == 3);
    reach!(r1 == 4 && start == 4);
    reach!(r1 == 0 && start == 5);
});
