// mock_interpreter.rs -- shared by the Kani units that put a built-in SUB/FUNCTION wrapper (`built_ins::*::run<S: InterpreterTrait>`)
// under contract (`//# support mock_interpreter.rs`, crate rusty_basic only, `stubbing=1`).
//
// `MockI` implements InterpreterTrait around a REAL `Context`; everything a built-in function wrapper does not touch is
// `unimplemented!()` (reaching it fails the obligation).  Under Kani the two places where a wrapper meets the variable
// store are replaced by CONTRACT STUBS (modular verification: the callee is replaced by what other units prove of it):
//   * `Variables::get(index)`               -> "the index-th argument of the call"          (ARGS; context_blocks + indexed_map:
//                                              positional parameters keep their index)
//   * `Context::set_built_in_function_result(f, v)` -> "the result slot of f holds v"      (RES)
//   * `RandomState::new`                    -> a fixed hasher state (Kani cannot model getrandom; no hash is computed
//                                              on the stubbed paths)
// because CBMC does not get through the real `HashMap` inserts (> 15 min for one argument).  Natively (replay of a
// counterexample, `--cfg rbverif_replay`) no stub is applied: `mock_with_args` pushes the arguments through the real
// `begin_collecting_arguments / push_unnamed_by_val / stop_collecting_arguments` and `result_of` reads the real variable, so a
// reported input is a failing input of the whole real wrapper.
// Every harness using it must list the three stubs:  stub(std::hash::RandomState::new, fixed_random_state),
//   stub(crate::interpreter::variables::Variables::get, stub_variables_get),
//   stub(crate::interpreter::context::Context::set_built_in_function_result, stub_set_result)
use crate::interpreter::context::Context;
use crate::interpreter::interpreter_trait::InterpreterTrait;
use crate::interpreter::data_segment::DataSegment;
use crate::interpreter::default_stdlib::DefaultStdlib;
use crate::interpreter::io::FileManager;
use crate::interpreter::read_input::ReadInputSource;
use crate::interpreter::registers::{RegisterStack, Registers};
use crate::interpreter::screen::Screen;
use crate::interpreter::write_printer::WritePrinter;
use rusty_variant::Variant;
use crate::interpreter::variables::Variables;
use rusty_parser::{BareName, TypeQualifier};

fn fixed_random_state() -> std::hash::RandomState { unsafe { std::mem::transmute::<(u64, u64), std::hash::RandomState>((0u64, 0u64)) } }

pub struct MockI {
    pub ctx: Context,
}

impl InterpreterTrait for MockI {
    type TStdlib = DefaultStdlib;
    type TStdIn = ReadInputSource<std::io::Stdin>;
    type TStdOut = WritePrinter<std::io::Stdout>;
    type TLpt1 = WritePrinter<std::io::Stdout>;
    fn stdlib(&self) -> &Self::TStdlib { unimplemented!() }
    fn stdlib_mut(&mut self) -> &mut Self::TStdlib { unimplemented!() }
    fn file_manager(&mut self) -> &mut FileManager { unimplemented!() }
    fn stdin(&mut self) -> &mut Self::TStdIn { unimplemented!() }
    fn stdout(&mut self) -> &mut Self::TStdOut { unimplemented!() }
    fn lpt1(&mut self) -> &mut Self::TLpt1 { unimplemented!() }
    fn screen(&self) -> &dyn Screen { unimplemented!() }
    fn screen_mut(&mut self) -> &mut dyn Screen { unimplemented!() }
    fn context(&self) -> &Context { &self.ctx }
    fn context_mut(&mut self) -> &mut Context { &mut self.ctx }
    fn registers(&self) -> &Registers { unimplemented!() }
    fn registers_mut(&mut self) -> &mut Registers { unimplemented!() }
    fn register_stack(&mut self) -> &mut RegisterStack { unimplemented!() }
    fn by_ref_stack(&mut self) -> &mut std::collections::VecDeque<Variant> { unimplemented!() }
    fn take_function_result(&mut self) -> Option<Variant> { unimplemented!() }
    fn set_function_result(&mut self, _v: Variant) { unimplemented!() }
    fn var_path_stack(&mut self) -> &mut std::collections::VecDeque<crate::instruction_generator::Path> { unimplemented!() }
    fn data_segment(&mut self) -> &mut DataSegment { unimplemented!() }
    fn get_def_seg(&self) -> Option<usize> { unimplemented!() }
    fn set_def_seg(&mut self, _def_seg: Option<usize>) { unimplemented!() }
    fn get_last_error_code(&self) -> Option<i32> { unimplemented!() }
    fn interpret(&mut self, _r: crate::instruction_generator::InstructionGeneratorResult) -> Result<(), crate::RuntimeErrorPos> { unimplemented!() }
}


// ---- contract stubs (Kani only): the i-th argument of the running built-in / the slot its result is written to ----
static mut ARGS: Vec<Variant> = Vec::new();
static mut RES: Option<Variant> = None;

#[allow(static_mut_refs)]
fn stub_variables_get<'a>(_s: &'a Variables, index: usize) -> Option<&'a Variant> {
    unsafe { ARGS.get(index) }
}

#[allow(static_mut_refs)]
fn stub_set_result<V>(_c: &mut Context, _f: BuiltInFunction, value: V)
where
    Variant: From<V>,
{
    unsafe { RES = Some(Variant::from(value)); }
}

#[allow(static_mut_refs)]
fn mock_with_args(args: Vec<Variant>) -> MockI {
    #[allow(unused_mut)]
    let mut ctx = Context::new();
    #[cfg(kani)]
    unsafe { ARGS = args; }
    #[cfg(not(kani))]
    {
        ctx.begin_collecting_arguments();
        for a in args { ctx.arguments_mut().push_unnamed_by_val(a); }
        ctx.stop_collecting_arguments();
    }
    MockI { ctx }
}

#[allow(static_mut_refs)]
fn result_of<'a>(_m: &'a MockI, _f: BuiltInFunction) -> Option<&'a Variant> {
    #[cfg(kani)]
    unsafe { return RES.as_ref(); }
    #[cfg(not(kani))]
    {
        let q = TypeQualifier::from(&_f);
        let b = BareName::from(_f);
        return _m.ctx.variables().get_built_in(&b, q);
    }
}


/// harness_bi!(name, unwind, { ... }): a harness! with the three contract stubs of this file applied.
#[allow(unused_macros)]
macro_rules! harness_bi {
    ($name:ident, $unwind:expr, $body:block) => {
        harness!($name, $unwind,
            stub(std::hash::RandomState::new, fixed_random_state),
            stub(crate::interpreter::variables::Variables::get, stub_variables_get),
            stub(crate::interpreter::context::Context::set_built_in_function_result, stub_set_result),
            $body);
    };
}
