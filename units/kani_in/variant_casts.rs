//# unit variant_casts kind=kani_in crate=rusty_basic inject=rusty_basic/src/interpreter/variant_casts.rs
//! C08 / C17 / C18 — argument conversion helpers of the built-ins.  Contract (property statements): they are
//! total on every numeric value (never a panic: C08) and, on a *valid* value v (C06 type invariant) whose
//! exact numeric value is x, return the documented outcome:
//!   to_non_negative_int : Ok(n) => 0 <= n <= 32767 and |x - n| <= 0.5;   x negative (rounds below 0) inside the
//!                         INTEGER range -> IllegalFunctionCall (5)  [C17 "negative counts"];
//!   to_positive_int     : Ok(n) => 1 <= n <= 32767 and |x - n| <= 0.5;   rounds to <= 0 -> IllegalFunctionCall (5)
//!                         [C17 "non-positive start positions"];  to_positive_int_or(e): the same with e;
//!   to_file_handle      : Ok(h) => 1 <= h <= 255, |x - h| <= 0.5;  other INTEGER values -> BadFileNameOrNumber (52);
//!   to_record_number    : Ok(n) => 1 <= n <= 2147483647, |x - n| <= 0.5;  rounds to <= 0 within LONG -> BadRecordNumber (63);
//!   a value whose nearest whole number does not fit the INTEGER (LONG for record numbers) range -> Overflow (6) [C06];
//!   no other error on a valid numeric value; a string -> TypeMismatch (13).
//! The three error classes are stated with thresholds on x so that either rounding of an exact tie (x = k + 0.5)
//! is accepted ("rounding to nearest" is all the statement demands).  Loop-free, full payload domain: complete.

/// exact value of a numeric variant as f64 (i32, f32, LONG-range i64 convert exactly)
fn exact(v: &Variant) -> f64 {
    match v {
        Variant::VInteger(i) => *i as f64,
        Variant::VLong(l) => *l as f64,
        Variant::VSingle(f) => *f as f64,
        Variant::VDouble(d) => *d,
        _ => 0.0,
    }
}

fn valid(v: &Variant) -> bool {
    match v {
        Variant::VInteger(i) => (-32768..=32767).contains(i),
        Variant::VLong(l) => (-2147483648..=2147483647).contains(l),
        Variant::VSingle(f) => f.is_finite(),
        Variant::VDouble(d) => d.is_finite(),
        _ => true,
    }
}

/// shared postcondition.  `lo..=hi` is the accepted range, `tmin..=tmax` the range of the intermediate whole-number
/// type (INTEGER or LONG), `below` tells which error a value rounding below `lo` (but inside the type) must give.
fn post(x: f64, r: &Result<usize, RuntimeError>, lo: f64, hi: f64, tmin: f64, tmax: f64, below: u8) {
    match r {
        Ok(n) => {
            let n = *n as f64;
            assert!(n >= lo && n <= hi, "accepted value outside the documented range");
            assert!((x - n).abs() <= 0.5, "accepted value is not x rounded to nearest");
        }
        Err(e) => {
            let overflow = matches!(e, RuntimeError::Overflow);
            let documented = match below {
                0 => matches!(e, RuntimeError::IllegalFunctionCall),
                1 => matches!(e, RuntimeError::BadFileNameOrNumber),
                2 => matches!(e, RuntimeError::BadRecordNumber),
                _ => matches!(e, RuntimeError::FieldOverflow),
            };
            assert!(overflow || documented, "undocumented error for a valid numeric argument");
            if overflow {
                assert!(x >= tmax + 0.5 || x <= tmin - 0.5, "Overflow although the rounded value fits the whole-number type");
            } else {
                // outside lo..=hi after rounding, but inside the whole-number type
                assert!(x >= tmin - 0.5 && x <= tmax + 0.5, "range error although the value does not fit the whole-number type");
                assert!(x <= lo - 0.5 || x >= hi + 0.5, "range error for a value that rounds into the accepted range");
            }
        }
    }
}

const IMIN: f64 = -32768.0;
const IMAX: f64 = 32767.0;
const LMIN: f64 = -2147483648.0;
const LMAX: f64 = 2147483647.0;

//# harness non_negative_int_integer tier=quick label=complete props=C08,C17 fn=rusty_basic/src/interpreter/variant_casts.rs::VariantCasts::to_non_negative_int
harness!(non_negative_int_integer, 2, {
    let v = Variant::VInteger(vs::i32());
    vs::assume(valid(&v));
    let x = exact(&v);
    let r = v.to_non_negative_int();
    post(x, &r, 0.0, IMAX, IMIN, IMAX, 0);
    reach!(r.is_ok());
    reach!(matches!(r, Err(ref e) if !matches!(e, RuntimeError::Overflow)));
    std::mem::forget(r);
    std::mem::forget(v);
});

//# harness non_negative_int_long tier=quick label=complete props=C08,C17 fn=rusty_basic/src/interpreter/variant_casts.rs::VariantCasts::to_non_negative_int
harness!(non_negative_int_long, 2, {
    let v = Variant::VLong(vs::i64());
    vs::assume(valid(&v));
    let x = exact(&v);
    let r = v.to_non_negative_int();
    post(x, &r, 0.0, IMAX, IMIN, IMAX, 0);
    reach!(r.is_ok());
    reach!(matches!(r, Err(ref e) if !matches!(e, RuntimeError::Overflow)));
    reach!(matches!(r, Err(RuntimeError::Overflow)));
    std::mem::forget(r);
    std::mem::forget(v);
});

//# harness non_negative_int_single tier=quick label=complete props=C08,C17 fn=rusty_basic/src/interpreter/variant_casts.rs::VariantCasts::to_non_negative_int
harness!(non_negative_int_single, 2, {
    let v = Variant::VSingle(vs::f32());
    vs::assume(valid(&v));
    let x = exact(&v);
    let r = v.to_non_negative_int();
    post(x, &r, 0.0, IMAX, IMIN, IMAX, 0);
    reach!(r.is_ok());
    reach!(matches!(r, Err(ref e) if !matches!(e, RuntimeError::Overflow)));
    reach!(matches!(r, Err(RuntimeError::Overflow)));
    std::mem::forget(r);
    std::mem::forget(v);
});

//# harness non_negative_int_double tier=quick label=complete props=C08,C17 fn=rusty_basic/src/interpreter/variant_casts.rs::VariantCasts::to_non_negative_int
harness!(non_negative_int_double, 2, {
    let v = Variant::VDouble(vs::f64());
    vs::assume(valid(&v));
    let x = exact(&v);
    let r = v.to_non_negative_int();
    post(x, &r, 0.0, IMAX, IMIN, IMAX, 0);
    reach!(r.is_ok());
    reach!(matches!(r, Err(ref e) if !matches!(e, RuntimeError::Overflow)));
    reach!(matches!(r, Err(RuntimeError::Overflow)));
    std::mem::forget(r);
    std::mem::forget(v);
});

//# harness positive_int_integer tier=quick label=complete props=C08,C17 fn=rusty_basic/src/interpreter/variant_casts.rs::VariantCasts::to_positive_int
harness!(positive_int_integer, 2, {
    let v = Variant::VInteger(vs::i32());
    vs::assume(valid(&v));
    let x = exact(&v);
    let r = v.to_positive_int();
    post(x, &r, 1.0, IMAX, IMIN, IMAX, 0);
    reach!(r.is_ok());
    reach!(matches!(r, Err(ref e) if !matches!(e, RuntimeError::Overflow)));
    std::mem::forget(r);
    std::mem::forget(v);
});

//# harness positive_int_long tier=quick label=complete props=C08,C17 fn=rusty_basic/src/interpreter/variant_casts.rs::VariantCasts::to_positive_int
harness!(positive_int_long, 2, {
    let v = Variant::VLong(vs::i64());
    vs::assume(valid(&v));
    let x = exact(&v);
    let r = v.to_positive_int();
    post(x, &r, 1.0, IMAX, IMIN, IMAX, 0);
    reach!(r.is_ok());
    reach!(matches!(r, Err(ref e) if !matches!(e, RuntimeError::Overflow)));
    reach!(matches!(r, Err(RuntimeError::Overflow)));
    std::mem::forget(r);
    std::mem::forget(v);
});

//# harness positive_int_single tier=quick label=complete props=C08,C17 fn=rusty_basic/src/interpreter/variant_casts.rs::VariantCasts::to_positive_int
harness!(positive_int_single, 2, {
    let v = Variant::VSingle(vs::f32());
    vs::assume(valid(&v));
    let x = exact(&v);
    let r = v.to_positive_int();
    post(x, &r, 1.0, IMAX, IMIN, IMAX, 0);
    reach!(r.is_ok());
    reach!(matches!(r, Err(ref e) if !matches!(e, RuntimeError::Overflow)));
    reach!(matches!(r, Err(RuntimeError::Overflow)));
    std::mem::forget(r);
    std::mem::forget(v);
});

//# harness positive_int_double tier=quick label=complete props=C08,C17 fn=rusty_basic/src/interpreter/variant_casts.rs::VariantCasts::to_positive_int
harness!(positive_int_double, 2, {
    let v = Variant::VDouble(vs::f64());
    vs::assume(valid(&v));
    let x = exact(&v);
    let r = v.to_positive_int();
    post(x, &r, 1.0, IMAX, IMIN, IMAX, 0);
    reach!(r.is_ok());
    reach!(matches!(r, Err(ref e) if !matches!(e, RuntimeError::Overflow)));
    reach!(matches!(r, Err(RuntimeError::Overflow)));
    std::mem::forget(r);
    std::mem::forget(v);
});

//# harness positive_int_or_integer tier=quick label=complete props=C08,C17 fn=rusty_basic/src/interpreter/variant_casts.rs::VariantCasts::to_positive_int_or
harness!(positive_int_or_integer, 2, {
    let v = Variant::VInteger(vs::i32());
    vs::assume(valid(&v));
    let x = exact(&v);
    let r = v.to_positive_int_or(RuntimeError::FieldOverflow);
    post(x, &r, 1.0, IMAX, IMIN, IMAX, 3);
    reach!(r.is_ok());
    reach!(matches!(r, Err(ref e) if !matches!(e, RuntimeError::Overflow)));
    std::mem::forget(r);
    std::mem::forget(v);
});

//# harness positive_int_or_long tier=quick label=complete props=C08,C17 fn=rusty_basic/src/interpreter/variant_casts.rs::VariantCasts::to_positive_int_or
harness!(positive_int_or_long, 2, {
    let v = Variant::VLong(vs::i64());
    vs::assume(valid(&v));
    let x = exact(&v);
    let r = v.to_positive_int_or(RuntimeError::FieldOverflow);
    post(x, &r, 1.0, IMAX, IMIN, IMAX, 3);
    reach!(r.is_ok());
    reach!(matches!(r, Err(ref e) if !matches!(e, RuntimeError::Overflow)));
    reach!(matches!(r, Err(RuntimeError::Overflow)));
    std::mem::forget(r);
    std::mem::forget(v);
});

//# harness positive_int_or_single tier=quick label=complete props=C08,C17 fn=rusty_basic/src/interpreter/variant_casts.rs::VariantCasts::to_positive_int_or
harness!(positive_int_or_single, 2, {
    let v = Variant::VSingle(vs::f32());
    vs::assume(valid(&v));
    let x = exact(&v);
    let r = v.to_positive_int_or(RuntimeError::FieldOverflow);
    post(x, &r, 1.0, IMAX, IMIN, IMAX, 3);
    reach!(r.is_ok());
    reach!(matches!(r, Err(ref e) if !matches!(e, RuntimeError::Overflow)));
    reach!(matches!(r, Err(RuntimeError::Overflow)));
    std::mem::forget(r);
    std::mem::forget(v);
});

//# harness positive_int_or_double tier=quick label=complete props=C08,C17 fn=rusty_basic/src/interpreter/variant_casts.rs::VariantCasts::to_positive_int_or
harness!(positive_int_or_double, 2, {
    let v = Variant::VDouble(vs::f64());
    vs::assume(valid(&v));
    let x = exact(&v);
    let r = v.to_positive_int_or(RuntimeError::FieldOverflow);
    post(x, &r, 1.0, IMAX, IMIN, IMAX, 3);
    reach!(r.is_ok());
    reach!(matches!(r, Err(ref e) if !matches!(e, RuntimeError::Overflow)));
    reach!(matches!(r, Err(RuntimeError::Overflow)));
    std::mem::forget(r);
    std::mem::forget(v);
});

//# harness record_number_integer tier=quick label=complete props=C08,C18 fn=rusty_basic/src/interpreter/variant_casts.rs::VariantCasts::to_record_number
harness!(record_number_integer, 2, {
    let v = Variant::VInteger(vs::i32());
    vs::assume(valid(&v));
    let x = exact(&v);
    let r = v.to_record_number();
    post(x, &r, 1.0, LMAX, LMIN, LMAX, 2);
    reach!(r.is_ok());
    reach!(matches!(r, Err(ref e) if !matches!(e, RuntimeError::Overflow)));
    std::mem::forget(r);
    std::mem::forget(v);
});

//# harness record_number_long tier=quick label=complete props=C08,C18 fn=rusty_basic/src/interpreter/variant_casts.rs::VariantCasts::to_record_number
harness!(record_number_long, 2, {
    let v = Variant::VLong(vs::i64());
    vs::assume(valid(&v));
    let x = exact(&v);
    let r = v.to_record_number();
    post(x, &r, 1.0, LMAX, LMIN, LMAX, 2);
    reach!(r.is_ok());
    reach!(matches!(r, Err(ref e) if !matches!(e, RuntimeError::Overflow)));
    std::mem::forget(r);
    std::mem::forget(v);
});

//# harness record_number_single tier=quick label=complete props=C08,C18 fn=rusty_basic/src/interpreter/variant_casts.rs::VariantCasts::to_record_number
harness!(record_number_single, 2, {
    let v = Variant::VSingle(vs::f32());
    vs::assume(valid(&v));
    let x = exact(&v);
    if KF_F13 {
        vs::assume(x != 2147483648.0); // known finding F13 (casts unit): SINGLE 2^31 -> LONG is accepted
    }
    let r = v.to_record_number();
    post(x, &r, 1.0, LMAX, LMIN, LMAX, 2);
    reach!(r.is_ok());
    reach!(matches!(r, Err(ref e) if !matches!(e, RuntimeError::Overflow)));
    reach!(matches!(r, Err(RuntimeError::Overflow)));
    std::mem::forget(r);
    std::mem::forget(v);
});

//# harness record_number_double tier=quick label=complete props=C08,C18 fn=rusty_basic/src/interpreter/variant_casts.rs::VariantCasts::to_record_number
harness!(record_number_double, 2, {
    let v = Variant::VDouble(vs::f64());
    vs::assume(valid(&v));
    let x = exact(&v);
    let r = v.to_record_number();
    post(x, &r, 1.0, LMAX, LMIN, LMAX, 2);
    reach!(r.is_ok());
    reach!(matches!(r, Err(ref e) if !matches!(e, RuntimeError::Overflow)));
    reach!(matches!(r, Err(RuntimeError::Overflow)));
    std::mem::forget(r);
    std::mem::forget(v);
});

//# harness file_handle_integer tier=quick label=complete props=C08,C18 fn=rusty_basic/src/interpreter/variant_casts.rs::VariantCasts::to_file_handle
harness!(file_handle_integer, 2, {
    let v = Variant::VInteger(vs::i32());
    vs::assume(valid(&v));
    let x = exact(&v);
    let r = v.to_file_handle();
    let as_usize: Result<usize, RuntimeError> = match &r {
        Ok(h) => {
            assert!(h.is_valid(), "file handle 0 accepted");
            Ok(i32::from(*h) as usize)
        }
        Err(e) => Err(e.clone()),
    };
    post(x, &as_usize, 1.0, 255.0, IMIN, IMAX, 1);
    reach!(r.is_ok());
    reach!(matches!(r, Err(RuntimeError::BadFileNameOrNumber)));
    std::mem::forget(as_usize);
    std::mem::forget(r);
    std::mem::forget(v);
});

//# harness file_handle_long tier=quick label=complete props=C08,C18 fn=rusty_basic/src/interpreter/variant_casts.rs::VariantCasts::to_file_handle
harness!(file_handle_long, 2, {
    let v = Variant::VLong(vs::i64());
    vs::assume(valid(&v));
    let x = exact(&v);
    let r = v.to_file_handle();
    let as_usize: Result<usize, RuntimeError> = match &r {
        Ok(h) => {
            assert!(h.is_valid(), "file handle 0 accepted");
            Ok(i32::from(*h) as usize)
        }
        Err(e) => Err(e.clone()),
    };
    post(x, &as_usize, 1.0, 255.0, IMIN, IMAX, 1);
    reach!(r.is_ok());
    reach!(matches!(r, Err(RuntimeError::BadFileNameOrNumber)));
    reach!(matches!(r, Err(RuntimeError::Overflow)));
    std::mem::forget(as_usize);
    std::mem::forget(r);
    std::mem::forget(v);
});

//# harness file_handle_single tier=quick label=complete props=C08,C18 fn=rusty_basic/src/interpreter/variant_casts.rs::VariantCasts::to_file_handle
harness!(file_handle_single, 2, {
    let v = Variant::VSingle(vs::f32());
    vs::assume(valid(&v));
    let x = exact(&v);
    let r = v.to_file_handle();
    let as_usize: Result<usize, RuntimeError> = match &r {
        Ok(h) => {
            assert!(h.is_valid(), "file handle 0 accepted");
            Ok(i32::from(*h) as usize)
        }
        Err(e) => Err(e.clone()),
    };
    post(x, &as_usize, 1.0, 255.0, IMIN, IMAX, 1);
    reach!(r.is_ok());
    reach!(matches!(r, Err(RuntimeError::BadFileNameOrNumber)));
    reach!(matches!(r, Err(RuntimeError::Overflow)));
    std::mem::forget(as_usize);
    std::mem::forget(r);
    std::mem::forget(v);
});

//# harness file_handle_double tier=quick label=complete props=C08,C18 fn=rusty_basic/src/interpreter/variant_casts.rs::VariantCasts::to_file_handle
harness!(file_handle_double, 2, {
    let v = Variant::VDouble(vs::f64());
    vs::assume(valid(&v));
    let x = exact(&v);
    let r = v.to_file_handle();
    let as_usize: Result<usize, RuntimeError> = match &r {
        Ok(h) => {
            assert!(h.is_valid(), "file handle 0 accepted");
            Ok(i32::from(*h) as usize)
        }
        Err(e) => Err(e.clone()),
    };
    post(x, &as_usize, 1.0, 255.0, IMIN, IMAX, 1);
    reach!(r.is_ok());
    reach!(matches!(r, Err(RuntimeError::BadFileNameOrNumber)));
    reach!(matches!(r, Err(RuntimeError::Overflow)));
    std::mem::forget(as_usize);
    std::mem::forget(r);
    std::mem::forget(v);
});

//# harness finding_f13_record_number_single tier=quick label=complete props=C08,C18,C06 fn=rusty_basic/src/interpreter/variant_casts.rs::VariantCasts::to_record_number expect=finding:F13
harness!(finding_f13_record_number_single, 2, {
    let v = Variant::VSingle(2147483648.0);
    let r = v.to_record_number();
    post(2147483648.0, &r, 1.0, LMAX, LMIN, LMAX, 2);
    std::mem::forget(r);
    std::mem::forget(v);
});

// totality outside the type invariant (C08: never an internal failure, whatever the payload): every helper
// returns — no panic, no arithmetic overflow — on ALL payloads, including NaN/inf and out-of-range whole numbers.
//# harness total_any_payload tier=quick label=complete props=C08 fn=rusty_basic/src/interpreter/variant_casts.rs::VariantCasts
harness!(total_any_payload, 2, {
    let k = vs::choice(4);
    let which = vs::choice(5);
    let v = match k {
        0 => Variant::VInteger(vs::i32()),
        1 => Variant::VLong(vs::i64()),
        2 => Variant::VSingle(vs::f32()),
        _ => Variant::VDouble(vs::f64()),
    };
    let finite = valid(&v) || k < 2;
    let ok = match which {
        0 => { let r = v.to_non_negative_int(); let ok = r.is_ok(); std::mem::forget(r); ok }
        1 => { let r = v.to_positive_int(); let ok = r.is_ok(); std::mem::forget(r); ok }
        2 => { let r = v.to_positive_int_or(RuntimeError::SubscriptOutOfRange); let ok = r.is_ok(); std::mem::forget(r); ok }
        3 => { let r = v.to_record_number(); let ok = r.is_ok(); std::mem::forget(r); ok }
        _ => { let r = v.to_file_handle(); let ok = r.is_ok(); std::mem::forget(r); ok }
    };
    assert!(finite || !ok, "NaN / infinity accepted as a count, position, handle or record number");
    reach!(ok && k == 3);
    reach!(!finite);
    std::mem::forget(v);
});

//# harness string_is_type_mismatch tier=quick label=bounded(len<=1) props=C08,C12 fn=rusty_basic/src/interpreter/variant_casts.rs::VariantCasts
harness!(string_is_type_mismatch, 3, {
    let v = if vs::bool() { Variant::VString(String::new()) } else { Variant::VString(String::from("1")) };
    let which = vs::choice(4);
    let tm = match which {
        0 => { let r = v.to_non_negative_int(); let t = matches!(r, Err(RuntimeError::TypeMismatch)); std::mem::forget(r); t }
        1 => { let r = v.to_positive_int(); let t = matches!(r, Err(RuntimeError::TypeMismatch)); std::mem::forget(r); t }
        2 => { let r = v.to_record_number(); let t = matches!(r, Err(RuntimeError::TypeMismatch)); std::mem::forget(r); t }
        _ => { let r = v.to_file_handle(); let t = matches!(r, Err(RuntimeError::TypeMismatch)); std::mem::forget(r); t }
    };
    assert!(tm, "a string argument must give Type mismatch");
    let s = v.to_str_unchecked();
    assert!(s.len() <= 1);
    reach!(which == 3);
    std::mem::forget(v);
});
