//# unit poke_seg0 kind=kani_in crate=rusty_basic inject=rusty_basic/src/interpreter/built_ins/poke.rs
// C08 -- "never ends in an internal failure such as a panic": POKE with DEF SEG = 0 goes through `zero_seg(address, value)`.
// Contract: for EVERY address other than the keyboard-indicator byte (1047: an operating-system call, outside every contract)
// and every byte value the function returns a BASIC-level outcome -- it never panics.  Loop-free, the whole domain.

//# harness zero_seg_total tier=quick label=complete props=C08,C19 fn=rusty_basic/src/interpreter/built_ins/poke.rs::zero_seg
harness!(zero_seg_total, 2, {
    let address = vs::usize();
    let value = vs::u8();
    vs::assume(address != INDICATOR_KEYS_ADDRESS);
    let r = zero_seg(address, value);
    assert!(r.is_err(), "POKE in segment 0 outside the emulated byte must be a run-time error");
    reach!(address == 0 && value == 255);
    std::mem::forget(r);
});
