//# unit varray_kani kind=kani_in crate=rusty_variant inject=rusty_variant/src/array_value.rs
// C04 — bounded companion of the Verus unit `varray` on the same real functions, executed as black boxes so
// that it does not depend on the shape of the code: three concrete array shapes
// (A(-1 TO 1), A(0 TO 1, -1 TO 1), A(1 TO 2, -1 TO 0, 0 TO 2)), index tuples fully symbolic.  Also covers `VArray::new`, which
// Verus cannot read (iterator adapter).  Contract (property statement): Subscript out of range exactly when
// some index lies outside its declared bounds (or the number of subscripts is wrong); distinct in-range index
// tuples denote distinct elements (row-major offset); a store changes that element and nothing else;
// LBOUND/UBOUND report the declared bounds.
//# assume "bounded stand-in: three concrete shapes of rank 1..3 (<= 12 elements); the unbounded statement is the Verus unit varray"

fn mk(rank: usize, d: &[(i32, i32); 3]) -> VArray {
    let mut dims: Vec<(i32, i32)> = Vec::new();
    let mut k = 0;
    while k < 3 {
        if k < rank {
            dims.push(d[k]);
        }
        k += 1;
    }
    VArray::new(dims, Variant::VInteger(0))
}

fn in_box(rank: usize, d: &[(i32, i32); 3], idx: &[i32; 3]) -> bool {
    let mut ok = true;
    let mut k = 0;
    while k < 3 {
        if k < rank && (idx[k] < d[k].0 || idx[k] > d[k].1) {
            ok = false;
        }
        k += 1;
    }
    ok
}

/// row-major offset, written independently of the code under test
fn offset(rank: usize, d: &[(i32, i32); 3], idx: &[i32; 3]) -> usize {
    let mut off: i64 = 0;
    let mut k = 0;
    while k < 3 {
        if k < rank {
            off = off * ((d[k].1 - d[k].0 + 1) as i64) + (idx[k] - d[k].0) as i64;
        }
        k += 1;
    }
    off as usize
}

fn volume(rank: usize, d: &[(i32, i32); 3]) -> usize {
    let mut v: usize = 1;
    let mut k = 0;
    while k < 3 {
        if k < rank {
            v *= (d[k].1 - d[k].0 + 1) as usize;
        }
        k += 1;
    }
    v
}

fn check_new(rank: usize, d: [(i32, i32); 3]) {
    let a = mk(rank, &d);
    assert!(a.len() == volume(rank, &d), "one element per index tuple");
    let k = vs::choice(4) as usize;
    match a.get_dimension_bounds(k) {
        Some(&(lo, hi)) => assert!(k < rank && lo == d[k].0 && hi == d[k].1, "LBOUND/UBOUND report the declared bounds"),
        None => assert!(k >= rank),
    }
    reach!(k + 1 == rank);
    std::mem::forget(a);
}

//# harness new_and_bounds_rank1 tier=quick label=bounded(shape=A(-1..1)) props=C04 fn=rusty_variant/src/array_value.rs::VArray::new,rusty_variant/src/array_value.rs::VArray::get_dimension_bounds timeout=900
harness!(new_and_bounds_rank1, 14, {
    check_new(1, [(-1, 1), (0, 0), (0, 0)]);
});

//# harness new_and_bounds_rank3 tier=quick label=bounded(shape=A(1..2,-1..0,0..2)) props=C04 fn=rusty_variant/src/array_value.rs::VArray::new,rusty_variant/src/array_value.rs::VArray::get_dimension_bounds timeout=900
harness!(new_and_bounds_rank3, 14, {
    check_new(3, [(1, 2), (-1, 0), (0, 2)]);
});

fn check_abs_index(rank: usize, d: [(i32, i32); 3]) {
    let a = mk(rank, &d);
    let idx = [vs::i32(), vs::i32(), vs::i32()];
    let n = vs::choice(4) as usize; // number of subscripts actually given (0..=3)
    let r = a.abs_index(&idx[..n]);
    match r {
        Ok(off) => {
            assert!(n == rank && in_box(rank, &d, &idx), "an access succeeds only inside the declared bounds");
            assert!(off == offset(rank, &d, &idx), "row-major position: distinct index tuples denote distinct elements");
            assert!(off < a.len());
        }
        Err(_) => assert!(n != rank || !in_box(rank, &d, &idx), "Subscript out of range only when an index is out of bounds"),
    }
    reach!(r.is_ok());
    reach!(r.is_err() && n == rank);
    std::mem::forget(a);
}

//# harness abs_index_rank1 tier=quick label=bounded(shape=A(-1..1)) props=C04 fn=rusty_variant/src/array_value.rs::VArray::abs_index timeout=900
harness!(abs_index_rank1, 14, {
    check_abs_index(1, [(-1, 1), (0, 0), (0, 0)]);
});

//# harness abs_index_rank2 tier=quick label=bounded(shape=A(0..1,-1..1)) props=C04 fn=rusty_variant/src/array_value.rs::VArray::abs_index timeout=900
harness!(abs_index_rank2, 14, {
    check_abs_index(2, [(0, 1), (-1, 1), (0, 0)]);
});

//# harness abs_index_rank3 tier=quick label=bounded(shape=A(1..2,-1..0,0..2)) props=C04 fn=rusty_variant/src/array_value.rs::VArray::abs_index timeout=900
harness!(abs_index_rank3, 14, {
    check_abs_index(3, [(1, 2), (-1, 0), (0, 2)]);
});

//# harness store_changes_one_element tier=quick label=bounded(shape=A(0..1,-1..1)) props=C04 fn=rusty_variant/src/array_value.rs::VArray::get_element_mut,rusty_variant/src/array_value.rs::VArray::get_element timeout=900
harness!(store_changes_one_element, 14, {
    let d = [(0, 1), (-1, 1), (0, 0)];
    let rank = 2;
    let mut a = mk(rank, &d);
    let idx = [vs::i32(), vs::i32(), 0];
    let other = [vs::i32(), vs::i32(), 0];
    let v = vs::i32();
    vs::assume(v != 0);
    match a.get_element_mut(&idx[..rank]) {
        Ok(slot) => {
            // replace + forget: the old element is not dropped (drop glue of a Variant read at a symbolic index is what CBMC cannot finish)
            std::mem::forget(std::mem::replace(slot, Variant::VInteger(v)));
        }
        Err(_) => {
            assert!(!in_box(rank, &d, &idx));
        }
    }
    if in_box(rank, &d, &idx) {
        match a.get_element(&idx[..rank]) {
            Ok(Variant::VInteger(x)) => assert!(*x == v, "reading back yields the stored value"),
            _ => assert!(false, "the element just stored must be readable"),
        }
        if in_box(rank, &d, &other) && (other[0] != idx[0] || other[1] != idx[1]) {
            match a.get_element(&other[..rank]) {
                Ok(Variant::VInteger(x)) => assert!(*x == 0, "storing into one element changes nothing else"),
                _ => assert!(false),
            }
        }
    }
    reach!(in_box(rank, &d, &idx) && in_box(rank, &d, &other));
    std::mem::forget(a);
});
