//# unit pc_loopfree kind=kani_ext
//! C20 — every loop-free combinator of `rusty_pc` (the unmodified crate) against the parser
//! contract.  Sub-parsers are `Stub`s: each call chooses *nondeterministically* between
//!   Ok(v)    – any value, position advanced by any k >= 0 (within the input),
//!   soft Err – position untouched if the stub is `backtracking` (the contract of a backtracking
//!              parser), otherwise moved anywhere forward (a documented non-rewinding parser such
//!              as `and_then`),
//!   fatal Err – position anywhere forward,
//! and logs (who, start, end, outcome, value/tag) in ghost fields of the input.  The combinator
//! under test therefore sees only the *contract* of its sub-parsers, never a body.
#![allow(dead_code, unused_imports, clippy::all)]

include!("verif_support.rs");

use rusty_pc::*;

#[derive(Clone, Copy, Default, PartialEq, Eq, Debug)]
pub struct E {
    pub fatal: bool,
    pub tag: u8,
}
impl ParserErrorTrait for E {
    fn is_fatal(&self) -> bool {
        self.fatal
    }
    fn to_fatal(self) -> Self {
        E { fatal: true, tag: self.tag }
    }
}
impl From<u8> for E {
    fn from(tag: u8) -> E {
        E { fatal: false, tag }
    }
}

pub const OK: u8 = 0;
pub const SOFT: u8 = 1;
pub const FATAL: u8 = 2;
pub const MAXLOG: usize = 8;

#[derive(Clone, Copy, Default)]
pub struct Call {
    pub who: u8,
    pub start: usize,
    pub end: usize,
    pub out: u8,
    pub val: u8,
    /// context most recently given to the stub through `set_context` (0 = never)
    pub ctx: u8,
}

/// The input: a position in `0..=len` and the ghost call log.
pub struct In {
    pub pos: usize,
    pub len: usize,
    pub log: [Call; MAXLOG],
    pub n: usize,
    pub reads: usize,
    pub fatal_seen: bool,
}
impl In {
    pub fn any() -> In {
        let len = vs::usize();
        vs::assume(len <= 1000);
        let pos = vs::usize();
        vs::assume(pos <= len);
        In { pos, len, log: [Call::default(); MAXLOG], n: 0, reads: 0, fatal_seen: false }
    }
    fn push(&mut self, c: Call) {
        assert!(self.n < MAXLOG, "harness log too small");
        self.log[self.n] = c;
        if c.out == FATAL {
            self.fatal_seen = true;
        }
        self.n += 1;
    }
    pub fn any_fatal(&self) -> bool {
        self.fatal_seen
    }
}
impl InputTrait for In {
    type Output = u8;
    fn peek(&self) -> u8 {
        assert!(self.pos < self.len, "peek at eof");
        (self.pos % 251) as u8
    }
    fn read(&mut self) -> u8 {
        assert!(self.pos < self.len, "read at eof");
        let r = (self.pos % 251) as u8;
        self.pos += 1;
        self.reads += 1;
        r
    }
    fn get_position(&self) -> usize {
        self.pos
    }
    fn is_eof(&self) -> bool {
        self.pos >= self.len
    }
    fn set_position(&mut self, position: usize) {
        self.pos = position;
    }
}

/// A sub-parser known only by its contract.
pub struct Stub {
    pub id: u8,
    pub backtracking: bool,
    pub ctx: u8,
}
impl Stub {
    pub fn new(id: u8) -> Stub {
        Stub { id, backtracking: true, ctx: 0 }
    }
    pub fn any_bt(id: u8) -> Stub {
        Stub { id, backtracking: vs::bool(), ctx: 0 }
    }
    fn run(&mut self, input: &mut In) -> Result<u8, E> {
        let start = input.pos;
        let out = vs::choice(3);
        let val = vs::u8();
        let adv = vs::usize();
        vs::assume(adv <= input.len - start);
        let end = if out == SOFT && self.backtracking { start } else { start + adv };
        input.pos = end;
        input.push(Call { who: self.id, start, end, out, val, ctx: self.ctx });
        match out {
            OK => Ok(val),
            SOFT => Err(E { fatal: false, tag: val }),
            _ => Err(E { fatal: true, tag: val }),
        }
    }
}
impl Parser<In, u8> for Stub {
    type Output = u8;
    type Error = E;
    fn parse(&mut self, input: &mut In) -> Result<u8, E> {
        self.run(input)
    }
    fn set_context(&mut self, ctx: &u8) {
        self.ctx = *ctx;
    }
}
pub fn stub(id: u8, backtracking: bool) -> Stub {
    Stub { id, backtracking, ctx: 0 }
}
/// Same stub for parsers without context (`C = ()`).
pub struct Stub0(pub Stub);
impl Parser<In, ()> for Stub0 {
    type Output = u8;
    type Error = E;
    fn parse(&mut self, input: &mut In) -> Result<u8, E> {
        self.0.run(input)
    }
    fn set_context(&mut self, _ctx: &()) {}
}

fn is_soft<T>(r: &Result<T, E>) -> bool {
    matches!(r, Err(e) if !e.fatal)
}
fn is_fatal<T>(r: &Result<T, E>) -> bool {
    matches!(r, Err(e) if e.fatal)
}

/// The clauses every combinator must satisfy whatever it is (property statement):
///  * a fatal sub-result is never swallowed or downgraded,
///  * a successful parse never moves the position backwards.
fn common<T>(input: &In, p0: usize, r: &Result<T, E>) {
    if input.any_fatal() {
        assert!(is_fatal(r), "fatal sub-result swallowed or downgraded");
    }
    if r.is_ok() {
        assert!(input.pos >= p0, "successful parse moved the position backwards");
    }
    assert!(input.pos <= input.len);
}

// ---------------------------------------------------------------------------------------------
// and (sequence with undo)
// ---------------------------------------------------------------------------------------------
//# harness and_tuple tier=quick label=complete props=C20 fn=rusty_pc/src/and.rs::AndParser::parse
harness!(and_tuple, 2, {
    let mut input = In::any();
    let p0 = input.pos;
    let lbt = vs::bool();
    let mut p = Stub { id: 1, backtracking: lbt, ctx: 0 }.and_tuple(Stub::any_bt(2));
    let r = p.parse(&mut input);
    common(&input, p0, &r);
    let l = input.log[0];
    assert!(input.n >= 1 && l.who == 1 && l.start == p0, "left runs first, from the start");
    if l.out != OK {
        // left failed: its error is the result, right never runs
        assert!(input.n == 1);
        assert!(r == Err(E { fatal: l.out == FATAL, tag: l.val }));
        if l.out == SOFT && lbt {
            assert!(input.pos == p0);
        }
    } else {
        let rr = input.log[1];
        assert!(input.n == 2 && rr.who == 2 && rr.start == l.end, "right runs where left ended");
        match rr.out {
            OK => {
                assert!(r == Ok((l.val, rr.val)));
                assert!(input.pos == rr.end);
            }
            SOFT => {
                // sequence-with-undo: soft failure of the right side undoes the left side
                assert!(r == Err(E { fatal: false, tag: rr.val }));
                assert!(input.pos == p0, "soft failure under and must restore the position");
            }
            _ => assert!(r == Err(E { fatal: true, tag: rr.val })),
        }
    }
    reach!(r.is_ok());
    reach!(is_soft(&r) && input.n == 2);
    reach!(is_fatal(&r));
});

//# harness and_keep tier=quick label=complete props=C20 fn=rusty_pc/src/and.rs::AndParser::parse
harness!(and_keep, 2, {
    let mut input = In::any();
    let p0 = input.pos;
    let left = vs::bool();
    let r = if left {
        Stub::new(1).and_keep_left(Stub::any_bt(2)).parse(&mut input)
    } else {
        Stub::new(1).and_keep_right(Stub::any_bt(2)).parse(&mut input)
    };
    common(&input, p0, &r);
    if is_soft(&r) {
        assert!(input.pos == p0);
    }
    if let Ok(v) = r {
        assert!(input.n == 2);
        assert!(v == if left { input.log[0].val } else { input.log[1].val });
        assert!(input.pos == input.log[1].end);
    }
    reach!(r.is_ok());
    reach!(is_soft(&r));
});

// ---------------------------------------------------------------------------------------------
// or
// ---------------------------------------------------------------------------------------------
//# harness or_two tier=quick label=complete props=C20 fn=rusty_pc/src/or.rs::OrParserNoBox::parse
harness!(or_two, 2, {
    let mut input = In::any();
    let p0 = input.pos;
    // `or` has no undo of its own: it is specified for a backtracking left alternative
    let rbt = vs::bool();
    let mut p = Stub::new(1).or(stub(2, rbt));
    let r = p.parse(&mut input);
    common(&input, p0, &r);
    let l = input.log[0];
    assert!(l.who == 1 && l.start == p0);
    match l.out {
        OK => {
            assert!(input.n == 1 && r == Ok(l.val) && input.pos == l.end);
        }
        SOFT => {
            let rr = input.log[1];
            assert!(input.n == 2 && rr.who == 2 && rr.start == p0, "second alternative starts at the original position");
            match rr.out {
                OK => assert!(r == Ok(rr.val) && input.pos == rr.end),
                SOFT => {
                    assert!(r == Err(E { fatal: false, tag: rr.val }));
                    if rbt {
                        assert!(input.pos == p0);
                    }
                }
                _ => assert!(r == Err(E { fatal: true, tag: rr.val })),
            }
        }
        _ => assert!(input.n == 1 && r == Err(E { fatal: true, tag: l.val })),
    }
    reach!(r.is_ok() && input.n == 2);
    reach!(is_soft(&r));
});
