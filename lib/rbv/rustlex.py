"""A small Rust lexer + item locator: enough to cut items out of real source files by brace
matching.  It never rewrites tokens; it only finds byte ranges."""
import re

IDENT = re.compile(r'[A-Za-z_][A-Za-z0-9_]*')


class Tok:
    __slots__ = ('kind', 'text', 'start', 'end')

    def __init__(self, kind, text, start, end):
        self.kind, self.text, self.start, self.end = kind, text, start, end

    def __repr__(self):
        return 'Tok(%s,%r,%d)' % (self.kind, self.text, self.start)


def lex(src):
    """kinds: ws, comment, doc, str, char, lifetime, ident, num, punct"""
    toks = []
    i, n = 0, len(src)
    while i < n:
        c = src[i]
        if c.isspace():
            j = i + 1
            while j < n and src[j].isspace():
                j += 1
            toks.append(Tok('ws', src[i:j], i, j))
            i = j
        elif src.startswith('//', i):
            j = src.find('\n', i)
            if j < 0:
                j = n
            text = src[i:j]
            kind = 'doc' if (text.startswith('///') and not text.startswith('////')) or text.startswith('//!') else 'comment'
            toks.append(Tok(kind, text, i, j))
            i = j
        elif src.startswith('/*', i):
            depth, j = 1, i + 2
            while j < n and depth > 0:
                if src.startswith('/*', j):
                    depth += 1
                    j += 2
                elif src.startswith('*/', j):
                    depth -= 1
                    j += 2
                else:
                    j += 1
            text = src[i:j]
            kind = 'doc' if text.startswith('/**') and not text.startswith('/***') and len(text) > 4 else 'comment'
            toks.append(Tok(kind, text, i, j))
            i = j
        elif c == '"' or (c in 'b' and src.startswith('b"', i)):
            j = i + (2 if c == 'b' else 1)
            while j < n and src[j] != '"':
                j += 2 if src[j] == '\\' else 1
            j += 1
            toks.append(Tok('str', src[i:j], i, j))
            i = j
        elif (c == 'r' and re.match(r'r#*"', src[i:i + 12])) or (c == 'b' and re.match(r'br#*"', src[i:i + 12])):
            m = re.match(r'b?r(#*)"', src[i:i + 12])
            close = '"' + m.group(1)
            j = src.find(close, i + m.end())
            j = n if j < 0 else j + len(close)
            toks.append(Tok('str', src[i:j], i, j))
            i = j
        elif c == "'" or (c == 'b' and src.startswith("b'", i)):
            k = i + (1 if c == 'b' else 0)
            # char literal or lifetime?
            m = re.match(r"'(\\(x[0-9a-fA-F]{2}|u\{[0-9a-fA-F_]+\}|.)|[^\\'])'", src[k:k + 14])
            if m:
                j = k + m.end()
                toks.append(Tok('char', src[i:j], i, j))
                i = j
            else:
                m = IDENT.match(src, k + 1)
                j = m.end() if m else k + 1
                toks.append(Tok('lifetime', src[i:j], i, j))
                i = j
        elif c.isalpha() or c == '_':
            m = IDENT.match(src, i)
            j = m.end()
            # raw identifiers r#foo
            toks.append(Tok('ident', src[i:j], i, j))
            i = j
        elif c.isdigit():
            m = re.match(r'[0-9][0-9A-Za-z_]*(\.[0-9][0-9A-Za-z_]*)?', src[i:])
            j = i + m.end()
            toks.append(Tok('num', src[i:j], i, j))
            i = j
        else:
            toks.append(Tok('punct', c, i, i + 1))
            i += 1
    return toks


OPEN = {'(': ')', '[': ']', '{': '}'}
CLOSE = {')', ']', '}'}


def sig(toks):
    """significant tokens (no ws/comments/docs)"""
    return [t for t in toks if t.kind not in ('ws', 'comment', 'doc')]


def match_close(st, i):
    """st: significant tokens, i: index of an opening bracket. returns index of its closer."""
    depth = 0
    for j in range(i, len(st)):
        t = st[j]
        if t.kind == 'punct':
            if t.text in OPEN:
                depth += 1
            elif t.text in CLOSE:
                depth -= 1
                if depth == 0:
                    return j
    raise ValueError('unbalanced bracket at byte %d' % st[i].start)


ITEM_KW = {'fn', 'struct', 'enum', 'impl', 'trait', 'mod', 'const', 'static', 'type', 'use', 'macro_rules', 'union', 'extern'}
QUAL = {'pub', 'unsafe', 'async', 'default', 'const', 'extern'}


class Item:
    def __init__(self, **kw):
        self.__dict__.update(kw)

    def __repr__(self):
        return 'Item(%s %s @%d..%d)' % (self.kind, self.name, self.start, self.end)


def parse_items(src, st, lo, hi):
    """Parse the items among significant tokens st[lo:hi] (all at the same nesting depth).
    Returns list of Item with byte offsets into src:
      start      first byte of attributes/qualifiers
      kw_start   first byte after attributes (qualifiers + keyword)
      body_open  byte offset of the '{' opening the body (or None)
      end        one past the last byte ('}' or ';')
      header     text between kw_start and body_open / end, whitespace-collapsed
      st_body    (i_open, i_close) indices in st of the body braces, or None
    """
    items = []
    i = lo
    while i < hi:
        start_i = i
        # attributes
        attrs = []
        while i < hi and st[i].text == '#':
            j = i + 1
            if st[j].text == '!':
                j += 1
            assert st[j].text == '[', 'attribute expected at %d' % st[i].start
            k = match_close(st, j)
            attrs.append(src[st[i].start:st[k].end])
            i = k + 1
        if i >= hi:
            break
        kw_i = i
        # qualifiers
        while i < hi and st[i].kind == 'ident' and st[i].text in QUAL:
            if st[i].text == 'pub' and i + 1 < hi and st[i + 1].text == '(':
                i = match_close(st, i + 1) + 1
                continue
            if st[i].text == 'extern' and i + 1 < hi and st[i + 1].kind == 'str':
                i += 2
                continue
            if st[i].text == 'const' and not (i + 1 < hi and st[i + 1].text in ('fn', 'unsafe', 'async', 'extern')):
                break
            if st[i].text == 'extern' and i + 1 < hi and st[i + 1].text == 'crate':
                break
            i += 1
        t = st[i]
        kind = t.text if t.kind == 'ident' else None
        name = None
        body = None
        if kind == 'macro_rules' or (t.kind == 'ident' and i + 1 < hi and st[i + 1].text == '!' and kind not in ITEM_KW):
            # macro definition or item-position macro invocation
            j = i + 1
            while st[j].text not in OPEN:
                j += 1
            if kind == 'macro_rules':
                name = st[i + 2].text
            else:
                name = t.text
                kind = 'macro_call'
            k = match_close(st, j)
            end_i = k
            if st[j].text != '{' and k + 1 < hi and st[k + 1].text == ';':
                end_i = k + 1
            body = (j, k)
        elif kind in ('fn',):
            name = st[i + 1].text
            j = i + 2
            # scan to '{' or ';' at bracket depth 0
            depth = 0
            while True:
                tt = st[j]
                if tt.kind == 'punct':
                    if tt.text in '([':
                        depth += 1
                    elif tt.text in ')]':
                        depth -= 1
                    elif depth == 0 and tt.text in '{;':
                        break
                j += 1
            if st[j].text == '{':
                k = match_close(st, j)
                body = (j, k)
                end_i = k
            else:
                end_i = j
        elif kind in ('struct', 'union'):
            name = st[i + 1].text
            j = i + 2
            depth = 0
            while True:
                tt = st[j]
                if tt.kind == 'punct':
                    if tt.text in '([':
                        depth += 1
                    elif tt.text in ')]':
                        depth -= 1
                    elif depth == 0 and tt.text in '{;':
                        break
                j += 1
            if st[j].text == '{':
                k = match_close(st, j)
                body = (j, k)
                end_i = k
            else:
                end_i = j
        elif kind in ('enum', 'impl', 'trait', 'mod'):
            j = i + 1
            if kind != 'impl':
                name = st[i + 1].text
            while st[j].text not in ('{', ';'):
                j += 1
            if st[j].text == '{':
                k = match_close(st, j)
                body = (j, k)
                end_i = k
            else:
                end_i = j
            if kind == 'impl':
                name = ' '.join(src[st[i].start:st[j].start].split())
        elif kind in ('const', 'static', 'type', 'use', 'extern'):
            name = st[i + 1].text if i + 1 < hi else None
            if kind in ('const', 'static') and name == 'mut':
                name = st[i + 2].text
            j = i + 1
            depth = 0
            while True:
                tt = st[j]
                if tt.kind == 'punct':
                    if tt.text in OPEN:
                        depth += 1
                    elif tt.text in CLOSE:
                        depth -= 1
                    elif depth == 0 and tt.text == ';':
                        break
                j += 1
            end_i = j
        else:
            raise ValueError('cannot parse item at byte %d: %r' % (t.start, src[t.start:t.start + 60]))
        body_open = st[body[0]].start if body else None
        hdr_end = body_open if body else st[end_i].start
        items.append(Item(kind=kind, name=name, attrs=attrs, start=st[start_i].start, kw_start=st[kw_i].start,
                          body_open=body_open, end=st[end_i].end, st_body=body,
                          header=' '.join(src[st[kw_i].start:hdr_end].split())))
        i = end_i + 1
    return items


class Source:
    def __init__(self, path, text):
        self.path = path
        self.text = text
        self.toks = lex(text)
        self.st = sig(self.toks)
        self.items = parse_items(text, self.st, 0, len(self.st))

    def children(self, item):
        if item.st_body is None:
            return []
        a, b = item.st_body
        return parse_items(self.text, self.st, a + 1, b)

    def line_of(self, off):
        return self.text.count('\n', 0, off) + 1

    def find(self, selectors):
        """selectors: list of (kind, pattern). kind in fn/struct/enum/impl/trait/mod/const/type/macro_rules.
        For impl the pattern is a regex searched in the whitespace-collapsed header; for others the exact name.
        Returns (item, parents). Raises LookupError if not exactly one match."""
        cands = [(it, []) for it in self.items]
        found = None
        for depth, (kind, pat) in enumerate(selectors):
            pat, _, want_attr = pat.partition('\0')   # `fn NAME #[ATTR]` (extract.parse_selectors): NAME NUL whitespace-free attribute
            matches = []
            for it, parents in cands:
                if it.kind != kind:
                    continue
                if kind == 'impl':
                    if re.search(pat, it.header):
                        matches.append((it, parents))
                elif it.name == pat and (not want_attr or any(''.join(a.split()) == want_attr for a in it.attrs)):
                    matches.append((it, parents))
            if not matches:
                raise LookupError('no %s %s in %s' % (kind, pat, self.path))
            if depth == len(selectors) - 1:
                if len(matches) != 1:
                    raise LookupError('%d matches for %s %s in %s' % (len(matches), kind, pat, self.path))
                found = matches[0]
            else:
                cands = []
                for it, parents in matches:
                    for ch in self.children(it):
                        cands.append((ch, parents + [it]))
        return found

    def body_tokens(self, item):
        """all tokens (incl. ws/comments) strictly inside the item's body braces"""
        a, b = item.st_body
        lo, hi = self.st[a].end, self.st[b].start
        return [t for t in self.toks if t.start >= lo and t.end <= hi]
