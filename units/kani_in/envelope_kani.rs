//# unit envelope_kani kind=kani_in crate=rusty_basic inject=rusty_basic/src/error_envelope.rs
// C11 — bounded companion of the Verus units `stacktrace`/`dispatch` for the error-envelope functions, run as
// black boxes (independent of the shape of their code): the reported position list is the error position
// followed by the call sites IN THE ORDER GIVEN (the interpreter keeps them innermost first), and the source
// stack is left empty.  Stacks of up to 3 call sites with symbolic rows/columns.
//# assume "bounded stand-in: call stacks of length <= 3; the unbounded statement is the Verus unit stacktrace"

fn any_pos() -> Position {
    let (r, c) = (vs::u32(), vs::u32());
    vs::assume(r >= 1 && c >= 1);
    Position::new(r, c)
}

fn any_stack() -> (usize, [Position; 3], Vec<Position>) {
    let n = vs::choice(4) as usize;
    let a = [any_pos(), any_pos(), any_pos()];
    let mut v = Vec::new();
    let mut k = 0;
    while k < 3 {
        if k < n {
            v.push(a[k]);
        }
        k += 1;
    }
    (n, a, v)
}

//# harness draining_keeps_order tier=quick label=bounded(stack<=3) props=C11 fn=rusty_basic/src/error_envelope.rs::ErrorEnvelope::new_draining_stacktrace,rusty_basic/src/error_envelope.rs::WithStacktrace::with_stacktrace
harness!(draining_keeps_order, 6, {
    let (n, a, mut st) = any_stack();
    vs::assume(n >= 1);
    let via_result = vs::bool();
    let env: ErrorEnvelope<u8> = if via_result {
        let r: Result<(), u8> = Err(7);
        match r.with_stacktrace(&mut st) {
            Err(e) => e,
            Ok(_) => panic!("an error stays an error"),
        }
    } else {
        ErrorEnvelope::new_draining_stacktrace(7u8, &mut st)
    };
    assert!(*env.err() == 7);
    assert!(st.is_empty(), "the source stack is drained");
    assert!(env.1.len() == n);
    let mut k = 0;
    while k < 3 {
        if k < n {
            assert!(env.1[k] == a[k], "call sites keep the order in which the interpreter holds them: innermost first");
        }
        k += 1;
    }
    reach!(n == 3 && via_result);
    std::mem::forget(env);
    std::mem::forget(st);
});

//# harness appending_keeps_order tier=quick label=bounded(stack<=3) props=C11 fn=rusty_basic/src/error_envelope.rs::ErrorEnvelope::appen_draining_stacktrace,rusty_basic/src/error_envelope.rs::WithErrAt::with_err_at
harness!(appending_keeps_order, 6, {
    let (n, a, mut st) = any_stack();
    let at = any_pos();
    let r: Result<(), u8> = Err(9);
    let env = match r.with_err_at(&at) {
        Err(e) => e,
        Ok(_) => panic!("an error stays an error"),
    };
    assert!(env.1.len() == 1 && env.1[0] == at, "the error carries the position of the failing statement");
    let env = env.with_stacktrace(&mut st);
    assert!(*env.err() == 9);
    assert!(st.is_empty(), "the source stack is drained");
    assert!(env.1.len() == n + 1 && env.1[0] == at, "the failing statement comes first");
    let mut k = 0;
    while k < 3 {
        if k < n {
            assert!(env.1[k + 1] == a[k], "then the active call sites, innermost first, ending in the main module");
        }
        k += 1;
    }
    reach!(n == 3);
    reach!(n == 0);
    std::mem::forget(env);
    std::mem::forget(st);
});
