//# unit dec_literal kind=kani_in crate=rusty_parser inject=rusty_parser/src/expr/integer_or_long_literal.rs
//# assume "the token handed to process_dec / process_hex / process_oct consists of ASCII digits of its radix (after the &H / &O prefix): guaranteed by the tokenizer's Digits / HexDigits / OctDigits recognisers, not under contract here; convert_hex_digit / convert_oct_digit panic on any other char"
//! C10 — decimal literals: "exactly its written value with the narrowest type that holds it (decimal: INTEGER,
//! LONG, else DOUBLE)".  process_dec goes through Token::to_string + str::parse::<u32> (std string scanning), so
//! the digit-string harnesses are bounded stand-ins; the digit -> value tables are loop-free and complete.

fn digits_token(n: usize) -> (Token, u64) {
    let mut s = String::with_capacity(n);
    let mut v: u64 = 0;
    let mut i = 0;
    while i < n {
        let d = vs::u8();
        vs::assume(d < 10);
        s.push((b'0' + d) as char);
        v = v * 10 + d as u64;
        i += 1;
    }
    (Token::new(TokenType::Digits.get_index(), s), v)
}

fn check_dec(n: usize) {
    let (tok, v) = digits_token(n);
    let r = process_dec(tok);
    let ok = match &r {
        Ok(Expression::IntegerLiteral(i)) => v <= 32767 && *i as u64 == v && *i >= 0,
        Ok(Expression::LongLiteral(l)) => v > 32767 && v <= 2147483647 && *l as u64 == v && *l >= 0,
        Ok(Expression::DoubleLiteral(d)) => v > 2147483647 && *d == v as f64,
        _ => false,
    };
    assert!(ok, "decimal literal: INTEGER up to 32767, LONG up to 2147483647, else DOUBLE; exact value");
    reach!(n < 5 || v == 32767);
    reach!(n < 5 || v == 32768);
    reach!(v == 0);
    std::mem::forget(r);
}

// (symbolic digit strings of length 2 / 3: parked in attic/dec_literal_symbolic_digits.rs.txt, CBMC runs out of memory)

//# harness dec_boundaries tier=quick label=bounded(5-inputs) props=C10,C06,C07 fn=rusty_parser/src/expr/integer_or_long_literal.rs::process_dec timeout=1800
harness!(dec_boundaries, 12, {
    // digit strings of 5 symbolic digits exhaust the memory of this box (std::str::parse + fmt), so the type
    // boundaries are checked on their concrete spellings
    let lit = |s: &str| process_dec(Token::new(TokenType::Digits.get_index(), String::from(s)));
    let a = lit("32767");
    assert!(matches!(&a, Ok(Expression::IntegerLiteral(32767))), "largest INTEGER literal");
    let b = lit("32768");
    assert!(matches!(&b, Ok(Expression::LongLiteral(32768))), "smallest LONG literal");
    let c = lit("2147483647");
    assert!(matches!(&c, Ok(Expression::LongLiteral(2147483647))), "largest LONG literal");
    let d = lit("2147483648");
    assert!(matches!(&d, Ok(Expression::DoubleLiteral(x)) if *x == 2147483648.0_f64), "smallest DOUBLE literal");
    let e = lit("4294967295");
    assert!(matches!(&e, Ok(Expression::DoubleLiteral(x)) if *x == 4294967295.0_f64));
    std::mem::forget((a, b, c, d, e));
});

//# harness dec_leading_zeros tier=quick label=bounded(3-inputs) props=C10,C06 fn=rusty_parser/src/expr/integer_or_long_literal.rs::process_dec timeout=1800
harness!(dec_leading_zeros, 14, {
    // "the narrowest type that holds it" is a matter of the VALUE, not of the number of digits written
    let lit = |s: &str| process_dec(Token::new(TokenType::Digits.get_index(), String::from(s)));
    let a = lit("007");
    assert!(matches!(&a, Ok(Expression::IntegerLiteral(7))), "leading zeros do not widen the type");
    let b = lit("00000032767");
    assert!(matches!(&b, Ok(Expression::IntegerLiteral(32767))), "eleven digits, still an INTEGER value");
    let c = lit("002147483647");
    assert!(matches!(&c, Ok(Expression::LongLiteral(2147483647))), "twelve digits, still a LONG value");
    std::mem::forget((a, b, c));
});

//# harness hex_digit_value tier=quick label=complete props=C10,C07 fn=rusty_parser/src/expr/integer_or_long_literal.rs::convert_hex_digit
harness!(hex_digit_value, 2, {
    // every char that is a hex digit, either letter case
    let c = vs::ascii();
    vs::assume(c.is_ascii_hexdigit());
    let d = convert_hex_digit(c);
    let v = c as u32;
    let expected = if v <= '9' as u32 { v - '0' as u32 } else if v <= 'F' as u32 { v - 'A' as u32 + 10 } else { v - 'a' as u32 + 10 };
    assert!(d as u32 == expected && d < 16, "value of the hex digit, same for both letter cases");
    reach!(c == 'f' && d == 15);
    reach!(c == 'A' && d == 10);
    reach!(c == '0');
});

//# harness oct_digit_value tier=quick label=complete props=C10,C07 fn=rusty_parser/src/expr/integer_or_long_literal.rs::convert_oct_digit
harness!(oct_digit_value, 2, {
    let c = vs::ascii();
    vs::assume('0' <= c && c <= '7');
    let d = convert_oct_digit(c);
    assert!(d as u32 == c as u32 - '0' as u32 && d < 8);
    reach!(c == '7');
});

//# harness bitvec_to_expression tier=quick label=complete props=C10,C07 fn=rusty_parser/src/expr/integer_or_long_literal.rs::create_expression_from_bit_vec
harness!(bitvec_to_expression, 40, {
    // the glue between rusty_bit_vec (unit radix_literal) and the literal node: Int -> IntegerLiteral,
    // Long -> LongLiteral, OverflowError -> ParserError::Overflow.  Digit counts are concrete (4, 5, 9 hex digits).
    let d = vs::u8();
    vs::assume(d < 16 && d > 0);
    let mut bv = BitVec::new();
    bv.push_hex(d);
    bv.push_hex(0);
    bv.push_hex(0);
    bv.push_hex(0);
    let r = create_expression_from_bit_vec(bv);
    assert!(matches!(&r, Ok(Expression::IntegerLiteral(i)) if *i == ((d as u16) << 12) as i16 as i32), "&Hd000 is an INTEGER literal");
    let mut bv2 = BitVec::new();
    bv2.push_hex(d);
    bv2.push_hex(0);
    bv2.push_hex(0);
    bv2.push_hex(0);
    bv2.push_hex(0);
    let r2 = create_expression_from_bit_vec(bv2);
    assert!(matches!(&r2, Ok(Expression::LongLiteral(l)) if *l == (d as i64) << 16), "&Hd0000 is a LONG literal");
    let mut big = BitVec::new();
    big.push_hex(d);
    let mut i = 0;
    while i < 8 {
        big.push_hex(0);
        i += 1;
    }
    let e = create_expression_from_bit_vec(big);
    assert!(matches!(&e, Err(ParserError::Overflow)), "&Hd00000000 is rejected with Overflow");
    reach!(d == 8);
    std::mem::forget(r);
    std::mem::forget(r2);
    std::mem::forget(e);
});

//# harness finding_f23_dec_2pow32 tier=quick label=bounded(one-input) props=C10 fn=rusty_parser/src/expr/integer_or_long_literal.rs::process_dec expect=finding:F23 timeout=1200
harness!(finding_f23_dec_2pow32, 12, {
    // "decimal: INTEGER, LONG, else DOUBLE": 4294967296 (2^32, exactly representable) must be a DOUBLE literal
    let tok = Token::new(TokenType::Digits.get_index(), String::from("4294967296"));
    let r = process_dec(tok);
    let ok = matches!(&r, Ok(Expression::DoubleLiteral(d)) if *d == 4294967296.0_f64);
    assert!(ok, "a decimal literal beyond the LONG range is a DOUBLE literal with the written value");
    std::mem::forget(r);
});
