//# unit property_kani kind=kani_in crate=rusty_linter inject=rusty_linter/src/converter/expr_rules/property.rs
// C04 -- bounded companion of the Verus unit `property_rules` for the ONE function of the field rule Verus cannot tie to the
// element list: `find_element_type` = `elements().map(..).find(|x| &x.name == element_name).map(..)` (vstd's Map adapter does
// not expose the item sequence).  Run as a black box on the real function, through `demand_element_by_name`, on a TYPE with three
// fields: the field is found BY NAME (case-insensitively), not by position, and an undeclared name is Element not defined.
// All inputs are concrete: an exhaustive run over the stated table, not a symbolic proof.
//# assume "bounded stand-in: one TYPE with the fields Ab AS INTEGER, cd AS LONG, Ef AS DOUBLE and the five lookups ab / AB / CD / ef / zz; the rule over ALL types and names is the Verus unit property_rules, relative to the declared contract of find_element_type"

fn three_fields() -> UserDefinedType {
    let p = Position::new(1, 1);
    UserDefinedType::new(
        BareName::from("T"),
        vec![],
        vec![
            rusty_parser::Element::new(BareName::from("Ab"), ElementType::Integer, vec![]).at_pos(p),
            rusty_parser::Element::new(BareName::from("cd"), ElementType::Long, vec![]).at_pos(p),
            rusty_parser::Element::new(BareName::from("Ef"), ElementType::Double, vec![]).at_pos(p),
        ],
    )
}

fn kind(t: &ElementType) -> u8 {
    match t {
        ElementType::Integer => 1,
        ElementType::Long => 2,
        ElementType::Single => 3,
        ElementType::Double => 4,
        _ => 9,
    }
}

fn lookup(t: &UserDefinedType, name: &str) -> u8 {
    let n = Name::bare(BareName::from(name));
    let r = match demand_element_by_name(t, &n) {
        Ok(e) => kind(e),
        Err(LintError::ElementNotDefined) => 100,
        Err(_) => 200,
    };
    std::mem::forget(n);
    r
}

//# harness field_by_name tier=quick label=bounded(3-fields,5-lookups) props=C04 fn=rusty_linter/src/converter/expr_rules/property.rs::find_element_type
harness!(field_by_name, 12, {
    let t = three_fields();
    assert!(lookup(&t, "ab") == 1, "first field, other letter case");
    assert!(lookup(&t, "AB") == 1, "first field, upper case");
    assert!(lookup(&t, "CD") == 2, "the SECOND field is found by its name, not by position");
    assert!(lookup(&t, "ef") == 4, "the third field");
    assert!(lookup(&t, "zz") == 100, "an undeclared field is Element not defined");
    std::mem::forget(t);
});
