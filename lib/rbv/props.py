"""Per-property registry: what the contract units decide, what they do not, and the trusted base.
Units declare which properties they serve in their own headers; this file carries the prose."""

TRUSTED_BASE = [
    'rustc + the Kani compiler 0.68 + CBMC 6.11 (bit-precise, incl. IEEE-754) for Kani obligations',
    'Verus 0.2026.09.13 + Z3 for Verus obligations; vstd specifications of Vec/Option/Result/slice/HashMap',
    "the driver's item locator/extractor (lib/rbv/rustlex.py, extract.py): cuts items by brace matching, applies only the fixed rewrite list of DESIGN.md 1.2 (R1-R14, A, H, the return-value naming), every application recorded in the evidence",
    'Kani std models; core::fmt formatting and str::parse are not verified',
]

NOT_APPLICABLE = {
    'C02': 'relation between two whole-program executions (two spellings of a loop/branch) through code generator and VM: no function has both spellings as inputs and no data structure carries the relation, so no contract within reach of Verus/Kani can state it. Its local premises are claimed where they live: every generated label is defined once and the FOR body is emitted once whatever the STEP (C15, unit gen_labels; false until repair 57), every generated branch lands on a label of its own statement and the stacks balance (C15), the control arms of the VM (C05), the truth test of JumpIfFalse (C01); what is missing is the semantic equivalence of two different instruction sequences, which is a simulation argument over whole executions',
}


def P(level_text, decides, not_decided, technique, level_note, **kw):
    d = dict(level_text=level_text, decides=decides, not_decided=not_decided, technique=technique, level_note=level_note)
    d.update(kw)
    return d


PROPS = {
    'C01': P(
        'Proof of the primitive evaluation steps the big-step semantics of core programs is made of (arithmetic/comparison/logical operators on every operand kind over the full machine domain, DATA segment push/pop, stable partition of DATA statements, jump-target resolution); not a proof of whole programs.',
        'Kani (variant_arith): per operator x operand-kind pair the Variant operator returns the reference result or the prescribed error for all payloads; Verus (handlers): A := op(A,B) with the other registers unchanged; DataSegment::pop returns values in push order and OutOfData exactly at the end; stable partition of DATA statements; label resolution (shared with C15).',
        'that the generator emits the right instruction sequence per statement; composition of nested constructs; the fetch-execute loop as a whole; determinism of a whole run',
        'Kani full-domain operator harnesses + Verus contracts on DATA segment / label resolver',
        'whole-program composition (parser, linter, generator, dispatch loop) is outside every contract; floating-point results compared bit-exactly with the IEEE operation in the wider operand format'),
    'C03': P(
        'Proof (Verus, unbounded) of the activation-record / memory-block structure that makes callee locals fresh per activation, STATIC blocks persistent and arguments evaluated in the caller; by-ref write-back and SHARED resolution are not under contract.',
        'Context (22 functions) preserves a well-formedness invariant over (memory_blocks, states, static_memory_blocks) incl. exact reference counts; fresh block per activation, STATIC block re-used, pop renumbers stored indices; IndexedMap insert keeps positional indices; generator un-stash handles by-ref arguments left to right; VM by-ref queue is FIFO; function-result stash/un-stash; default function result per type.',
        'the order of the stash side (.enumerate() loop: assumed); that a store through the reference returned by resolve_name_ptr_mut lands in the denoted variable (opaque stores); SHARED resolution in the converter; re-evaluation of index expressions at write-back',
        'Verus data-structure invariant with ghost block identities on the real Context/MemoryBlock/IndexedMap methods',
        'Variables/Arguments are opaque (external_body); HashMap key model for ScopeName assumed'),
    'C04': P(
        'Proof (Verus, unbounded in rank and size) of the array index arithmetic, bounds check and element framing; Kani for index casts, fixed-length strings (bounded) and default allocation.',
        'VArray::abs_index = row-major offset, Ok exactly when every index is inside its declared bounds, injective on in-box tuples, no i32 overflow; get_element(_mut) index that slot; LBOUND/UBOUND = declared bounds; fix_length gives exactly n characters, not bytes (bounded stand-in: strings of at most 3 characters incl. CHR$(128..255), width <= 4).',
        'record-field isolation beyond HashMap::get_mut semantics; variable-path construction in the generator; conversion of the stored value to the element type (covered under C06)',
        'Verus contracts + lemmas (mixed-radix injectivity) on the extracted VArray methods; Kani for casts/strings',
        'array length <= i32::MAX elements and bounds in INTEGER range are stated preconditions (type invariant of VArray established by VArray::new)'),
    'C05': P(
        'Proof of the address arithmetic behind RESUME / RESUME NEXT (Verus, unbounded), totality and values of run-time error codes (Kani, enum-complete), and the GOSUB/RETURN stack step; the dispatch loop as a whole is not under contract.',
        'Verus (dispatch): every control arm of the real Interpreter::interpret_one (GOSUB/RETURN/GOTO/ON ERROR/RESUME*/PushStack/PopStack/built-in failure) and the per-iteration facts of the dispatch loop, over a ghost view of the machine; NearestStatementFinder = max{s<=a} / min{s>a}; get_code total with the documented codes; the main module ends with Halt marked by the last statement address.',
        'FOR register frames skipped by GOTO/EXIT (path-sensitive); the run-time stack preconditions of interpret are declared hypotheses (H-dyn, H-ctx)',
        'Verus contracts on the extracted interpret_one/interpret/handlers/finder + Kani enum-complete harnesses on error codes',
        '<[usize]>::binary_search assumed to satisfy its std-documented contract (assume_specification); strictly ascending statement addresses are a caller obligation recorded under C15'),
    'C06': P(
        'Proof (Kani, full machine domain of every scalar payload, loop-free) that numeric conversions and arithmetic produce a value of the target type and range or raise Overflow.',
        'all QBNumberCast impls and CastVariant::cast per source kind x target over all f32/f64/i32/i64 bit patterns: Ok(r) => r in range and |x-r|<=0.5, Err(Overflow) otherwise, non-finite never Ok; VM operators on valid operands return valid values or Overflow/DivisionByZero (division: by zero exactly when the divisor is exactly zero, Overflow exactly when the IEEE quotient is not finite); static result type of the linter = run-time kind of the VM result, for `/` through qb_divide (operands and quotient converted to the SINGLE/DOUBLE type the checker assigns).',
        'that the generator emits a Cast wherever static types differ; INPUT/READ/VAL string scanners beyond the stated bound',
        'Kani loop-free harnesses over kani::any() payloads with concrete Variant discriminants',
        'one harness per concrete Variant kind (symbolic payload); Variant drop glue not exercised (mem::forget); the 32 type_table kind-pair harnesses and the hex/oct literal harnesses run under C06 in the thorough tier only (they are quick obligations of C12 / C10)'),
    'C07': P(
        'Proof of the location kernel (every position a diagnostic can carry lies inside the text or immediately at its end; Verus, all texts) and of totality - no panic, no arithmetic overflow, termination - of the parse/check functions under contract: the repetition combinators (under element progress), the operator-precedence rotation, the literal converters, the name tables, the DEFtype table and every post-conversion linter traversal. Grammar-wide panic freedom is not under contract.',
        'create_row_col_view/StringView::position: for any index the reported (row,col) is that of a character of the text or the end position; Many/ManyCtx/Delimited loops terminate under element progress; binary_expr/flip_binary/apply_unary_priority_order terminate and their three panic! sites are unreachable; hex/oct/decimal/negated literal conversion never overflows or panics on any digit string up to the stated lengths; Names/NameInfo/Compacts operations, TypeResolverImpl and the linter traversals (PostConversionLinter defaults, LabelLinter, ForNextCounterMatch, BuiltInLinter, UndefinedFunctionReducer) return on every tree without reaching a panic site.',
        'panic-freedom and termination of the combinator grammar itself and of the converter (pre-linter, expr_rules) as a whole; stack depth',
        'Verus contracts on the extracted position table, combinators, rotation, name tables and linter traversals; Kani loop-free harnesses on literal converters and the DEFtype table',
        'text length < 2^32-1 (u32 row/col counters) is a stated precondition; under C07 the hex/oct literal harnesses run in the thorough tier (quick obligations of C10)'),
    'C08': P(
        'Proof of the error-surface kernel: every error a handler can return has a code (no panic in get_code), argument-conversion helpers are total, and every expect/unwrap/index inside the units under contract is unreachable under the unit invariant.',
        'RuntimeError::get_code total over the whole enum incl. LinterError(any LintError); variant_casts helpers total on valid numeric Variants; panic sites in Context/NearestStatementFinder/VArray/DataSegment unreachable under well-formedness; no expression position of an accepted program escapes the built-in / user-function argument checks or the undefined-function reducer (accepted programs that panicked: repairs 6, 9, 21-23, 26).',
        'everything the linter is supposed to rule out for whole programs (labels, variable info) beyond the traversals under contract',
        'Kani enum-complete harnesses + Verus panic-freedom obligations (R2: panic!/expect become unreachable obligations)',
        'whole-program composition is outside every contract'),
    'C09': P(
        'Proof (Verus, all byte strings) that name comparison is exactly the lexicographic order of the ASCII-case-folded bytes, hence a lawful Eq/Ord that identifies names differing only in letter case; Kani for DEFtype letter folding, the keyword table and EOL tokens.',
        'cmp_bytes/cmp_str == lex(fold(l), fold(r)); Equal <=> fold(l)==fold(r); antisymmetric, transitive; hash_str feeds fold(s) (bounded); char_to_alphabet_index folds case; keyword table sorted under cmp_str; CR, LF, CRLF each one Eol token.',
        'whitespace/colon/comment placement through the whole grammar; equality of parse trees and of run-time behaviour under layout changes',
        'Verus contract + lemmas on extracted cmp_bytes; Kani complete/bounded harnesses for the table kernels',
        'u8::to_ascii_uppercase and Ordering equality via assume_specification (std documentation)'),
    'C10': P(
        'Proof (Kani, complete over all operator pairs and all literal payloads) of the precedence-rotation predicate and the literal value/type kernels; the combinator grammar that builds the tree is not under contract.',
        'should_flip_binary/should_flip_unary agree with the rank table of the statement for all 13x13 operator pairs; unary minus on literals keeps exact value and narrowest type; &H/&O digits -> 16/32-bit two\'s complement; decimal literal typing (bounded).',
        'that the grammar builds the right-leaning tree the rotation assumes; fraction literals (str::parse::<f32/f64> is std)',
        'Kani enum-complete and full-payload harnesses on the real private functions',
        'leaf operands are forgotten (mem::forget) to avoid drop glue; rotation checked on depth-2/3 trees (shape lemma bounded)'),
    'C11': P(
        'Proof (Verus, every text) that the row/column table reports 1-based line and column under LF, CRLF and CR conventions, and of the stack-trace list order; position propagation through tree transformations is not under contract.',
        'create_row_col_view: data[i] == (line_of(i), col_of(i)) with CR LF counted once; StringView::position clamps to the end position; ErrorEnvelope stack-trace = error position followed by call sites innermost first.',
        'that each node keeps its position through parser -> linter -> generator and into each instruction',
        'Verus contract against a recursive spec of line/column; Kani for the WithPos combinator',
        'text length < 2^32-1 stated precondition'),
    'C12': P(
        'Proof (Kani, complete over operators x static operand types x all payloads) that the linter\'s typing tables and the VM agree: what the table accepts never raises Type mismatch at run time and what it rejects would.',
        'cast_binary_op_q/bigger_numeric_type/can_cast_to vs the real VM operators and Variant::cast for all 13 operators x 5x5 type qualifiers; ExpressionType table consistent with the qualifier table; by-ref argument rule (an array argument has exactly the element type of the parameter). Verus: every expression that occurs in a statement (written from the AST) is shown to every post-conversion linter, incl. assignment targets and DIM bounds; an accepted expression has had every built-in and user function call anywhere in its tree checked; no call of an undefined function survives the reducer.',
        'verdict stability under renaming; the edit-and-reject matrix; the statement-level traversal of ExpressionReducer beyond assignment and DIM bounds; FOR bounds are not type-checked',
        'Kani table-vs-implementation harnesses on the real linter and VM functions; Verus contracts on the extracted linter traversals (trait-level contract shared by the overriding linters)',
        'string payloads bounded to length <= 1 (outcome independent of content)'),
    'C13': P(
        'Proof of the DEFtype letter table (Kani, complete over all letters and ranges) and of the name-table lookup rules (Verus): bare/qualified/extended resolution and scope visibility; the ordered rule list of the converter is not under contract.',
        'TypeResolverImpl: default SINGLE, fill_ranges sets exactly the covered letters, case-folded; qualify(Name) = suffix or table entry; NamesInner: five qualifiers are five variables, extended excludes compacts; SHARED visibility.',
        'the ordered rule list in expr_rules/variable.rs and rejection of mismatching suffixes (converter, whole-program)',
        'Kani complete harnesses (26-letter loops unwound) + Verus contracts on name tables',
        'HashMap key model for CaseInsensitiveString (discharged for the underlying bytes by C09)'),
    'C14': P(
        'Proof (Kani, complete over literal payloads per operator x kind pair) that constant folding performs the same step as the VM operator: same value bit-for-bit and same type tag, or both fail with the same error class.',
        'eval_const on Binary/Unary/Parenthesis of literals vs the VM handler on the same operands; cast of the folded value to the declared suffix type = the VM assignment cast.',
        'scoping of constants (C13); named-constant lookup beyond one level; substitution of uses in the converter',
        'Kani differential contract between const_value_resolver and the VM operator functions',
        'structural recursion of eval_const and of expression evaluation argued on paper: per-node agreement is the inductive step'),
    'C15': P(
        'Proof (Verus, unbounded in program size) of the label resolver and statement-address contracts; generator-side obligations (labels unique, balanced push/pop along all paths) are listed as undischarged and not claimed.',
        'after resolve_labels every branch/call/handler/resume target is Resolved(a) with a < len and instructions[a] the Label of that name; other instructions unchanged; statement addresses ascending and within the list; NearestStatementFinder cannot index out of range.',
        'labels unique; addresses strictly ascending; push/pop balance along all paths; procedures end with return (all need a proof of the generator)',
        'Verus contracts on the extracted label resolver / address bookkeeping',
        'every referenced label is defined (linter obligation) is a stated precondition; HashMap specs from vstd'),
    'C16': P(
        'Proof (Kani, loop-free) of the PRINT separator/newline state machine and number framing; column arithmetic of the device writer as bounded stand-ins (string code).',
        'PrintState: newline suppressed exactly after a trailing separator; numbers get leading space or minus and trailing space; WritePrinter column = length after last CR/LF, comma pads to next multiple of 14 (bounded: <=2 chars, columns 0..41).',
        'PRINT USING beyond the bounded field kernels; per-device tracking (structural: one WritePrinter per device)',
        'Kani harnesses with a recording Printer on the real PrintState / WritePrinter',
        'core::fmt number formatting trusted; bounded units labelled and not counted'),
    'C17': P(
        'Proof (Kani, complete over numeric payloads) of the argument checks (negative counts / non-positive starts raise Illegal function call); defining equations of the string kernels as bounded stand-ins.',
        'to_non_negative_int/to_positive_int/... total with the documented error; do_mid (|s| <= 3 symbolic ASCII, start and length over their whole INTEGER ranges), do_instr (alphabet {a,b}, |s| <= 4, |t| <= 3, n <= 5, against a byte-by-byte oracle) and fix_length satisfy their defining equations (bounded stand-ins).',
        'LEFT$/RIGHT$ (inline in the run wrappers), STRING$, VAL; the run wrappers of SPACE$/LEN/trim/case functions (read arguments through Context/HashMap); unbounded string lengths',
        'Kani complete harnesses for argument checks + bounded harnesses on the real private string functions',
        'string units are bounded stand-ins, labelled, never counted as proved'),
    'C18': P(
        'Proof (Verus) of the handle-table protocol and error mapping; the line/field reader as a bounded stand-in (Kani); round trips through the host file system are outside every contract.',
        'FileManager: OPEN on a handle in use -> FileAlreadyOpen before touching the file system; CLOSE/CLOSE ALL free handles; wrong-mode access -> BadFileMode, absent -> FileNotFound; ReadInputSource over a stub reader: eof() true exactly when nothing is left, LINE INPUT takes the bytes up to the first CR/LF/end and exactly one terminator (CR LF once), INPUT the same with blanks trimmed and comma as field end, past the end -> Input past end (bounded stand-in: every file of <= 2 bytes over {a , blank CR LF} and four 4-byte files); io::Error NotFound -> 53, UnexpectedEof -> 62.',
        'read-back-what-was-written, APPEND, PUT/GET persistence, KILL/NAME (host file system across a history of calls)',
        'Verus contracts on the extracted FileManager with File opaque + bounded Kani harness on the generic reader',
        'std::fs::File / OpenOptions are external_body with no postcondition'),
    'C19': P(
        'Proof (Kani, complete: all 2^32 operand pairs, all 65536 words, bit-vector loops fully unwound) of the integer bit primitives, and (since the repair of F11/F12) of the IEEE-754 byte codec over all 2^64 bit patterns except the NaN patterns.',
        'qb_and == &, qb_or == | on 16-bit two\'s complement for all pairs; NOT = bitwise complement; i32_to_bytes/bytes_to_i32 inverse and equal to the little-endian word; PEEK/POKE byte view of an INTEGER; f64_to_bytes == the binary64 encoding, least significant byte first; bytes_to_f64 == the double those bytes encode; both round trips bit for bit (every finite double incl. |x| >= 2^63, subnormals, +0/-0, and +inf/-inf).',
        'what MKD$/CVD do with NaN patterns (not demanded); the string <-> byte mapping around the codec (to_ascii_string/to_ascii_bytes in mkd.rs/cvd.rs) and CVD of a string that is not 8 characters long',
        'Kani full-domain harnesses with unwinding assertions on fixed-width loops',
        'f64 codec: complete, compared on bits (to_bits / byte arrays), never with the float =='),
    'C20': P(
        'Proof that every combinator of the parsing library honours the contract of the property statement: loop-free combinators by Kani against nondeterministic contract stubs of their sub-parsers (complete over all stub behaviours), the repetition/delimited loops by Verus (unbounded iteration count) against a trait-level contract.',
        'per combinator: position after soft failure == start (where documented), fatal errors never swallowed/downgraded, choice = first success from the original position, peek consumes nothing, optional/default never fail softly, sequence-after-first converts to fatal; ManyParser = maximal run of successes, DelimitedParser rejects a trailing delimiter fatally.',
        'the concrete token-level parsers of rusty_parser built from these combinators; termination of repetition without element progress (stated caller obligation)',
        'Kani modular harnesses with contract stubs on the unmodified crate + Verus trait-level contracts on extracted impls',
        'E::default() is a soft error (documented requirement on implementors); closures/combiners are pure'),
}


# ------------------------------------------------------------------------------------------------
# additions of the third building session (units integrated on 2026-09-24): kept as amendments so that the
# original texts above stay readable; `not_decided` texts are replaced where a listed gap has been closed
# ------------------------------------------------------------------------------------------------
def _add(pid, field, text):
    PROPS[pid][field] = PROPS[pid][field].rstrip() + ' ' + text


def _set(pid, field, text):
    PROPS[pid][field] = text


_add('C03', 'decides', 'Generator (gen_balance): both sides of the by-ref protocol are proved on the real bodies - stash: the c-th instruction is EnqueueToReturnStack(j) of the c-th by-ref argument j (the .enumerate() loop is read after rewrite R14), un-stash: write-backs in argument order; by-value named arguments are converted to the parameter type right before PushNamed, pairs in order.')
_set('C03', 'not_decided', 'that a store through the reference returned by resolve_name_ptr_mut lands in the denoted variable (opaque stores); SHARED resolution beyond the name tables (C13); re-evaluation of index expressions at write-back')
_add('C05', 'decides', 'Generator (gen_balance): the jump that leaves a THEN / ELSEIF / CASE block after its last statement is a statement address (block_exit_is_marked), so RESUME NEXT after an error in the last statement of the block continues after END IF / END SELECT.')
_add('C06', 'decides', 'Generator (gen_balance): a by-value named argument is converted to its parameter type; the STEP of a FOR reaches register D converted to the counter type and its sign test is self-contained. INPUT (file_wrappers_input): a typed number that is not a value of the variable type raises Overflow and nothing is stored.')
_set('C06', 'not_decided', 'READ/VAL string scanners beyond their bounds; VAL results stored without a cast')
_add('C06', 'technique', '+ Verus contracts on the generator (conversion emission) and on the INPUT wrapper')
_add('C11', 'decides', 'pos_propagation: the blanket impls of converter/common/convertible.rs and Positioned::map/try_map give the converted node EXACTLY the position of the node it was made from; an error of the element conversion is passed on unchanged.')
_set('C11', 'not_decided', 'that each concrete rule of the converter and each generator method uses the position of ITS statement (only the generic re-positioning is proved); reading a file (TryFrom<File>)')
_add('C12', 'decides', 'Verus, the type rules on their real bodies: ConditionTypeLinter / SelectCaseLinter as overriding linters (theorem: Ok(program) <=> every IF/ELSEIF/WHILE/DO condition anywhere in the tree is numeric / every CASE expression is comparable with its selector); ArgValidation and the 43 built-in lint functions (Ok exactly when each argument exists and has the kind its run-time wrapper reads); on_assignment (const target rejected, converted right side can be cast to the converted left side, TypeMismatch at the right side); cast_binary_op against an operator-type table written from the property, binary_cast, unary/binary convert, resolve_function; apply_linters (Ok <=> all nine linters accept) and post_linter; DECLARE/implementation signature agreement.')
_set('C12', 'not_decided', 'verdict stability under renaming; the statement-level traversal of ExpressionReducer beyond assignment and DIM bounds; function.rs::convert and variable.rs::convert dispatch through Vec<Box<dyn ..>> (pinned, assumed); FOR bounds are not type-checked')
_add('C13', 'decides', 'name_rules (Verus): every rule of converter/expr_rules/variable.rs and qualify_name.rs on its real body as a function of the name-table view (ExistingVar, ExistingConst, AssignToFunction, function call without arguments, new implicit variable in the CURRENT scope, cannot_assign_to_const), eight lemmas restating the sentences of the property over first_rule; const_rules: a CONST cannot co-exist with a visible variable of its name.')
_set('C13', 'not_decided', 'the composition `convert` of the rule list (Vec<Box<dyn VarResolve>>: pinned and assumed); DIM / REDIM rules unless unit dim_rules is listed in the evidence')
_set('C13', 'level_text', 'Proof of the DEFtype letter table (Kani, complete over all letters and ranges), of the name-table lookup rules and of every rule of the converter\'s ordered rule list on its real body (Verus); the composition of the rule list (dyn dispatch) is pinned and assumed.')
_add('C14', 'decides', 'const_eval (Verus): eval_const(e) == spec_eval(visible constants, e), a recursive spec over the whole expression tree (left first, first error wins, the operator step is the oracle const_step proves equal to the VM, every non-constant form InvalidConstant at its position), terminating; const_rules: ONE rule const_value_rule (eval(e), cast to the suffix of the name when it has another one) proved for BOTH recorders (ConstantMap::visit and new_const), duplicates rejected with the table unchanged; names_outer: a local CONST hides a global one.')
_set('C14', 'not_decided', 'substitution of the uses of a constant in the converter beyond the ExistingConst rules of name_rules; `STRING * n` lengths (core/string_length.rs)')
_set('C14', 'level_note', 'the operator step on literals is Kani (bit for bit against the VM), the recursion over the tree and the two recorders are Verus (unbounded in expression size)')
_add('C14', 'technique', '+ Verus contracts on the evaluator recursion and the CONST recorders')
_set('C15', 'level_text', 'Proof (Verus, unbounded in program size) of the label resolver and statement-address contracts and of the whole code generator for a LINEAR stack discipline and label closure (no generator function is assumed: the three .enumerate() loops are proved after rewrite R14); label uniqueness and balance along every path are listed as undischarged and not claimed.')
_add('C16', 'decides', 'Generator (gen_balance, print.rs): the code of a PRINT statement first selects the destination (file #n / LPRINT / screen), then sets the format, then holds the code of the items in textual order, each ending with its own print instruction (a separator is exactly one instruction), and ends with PrintEnd.')
_add('C16', 'technique', '+ Verus contracts on the PRINT emitters of the generator')
_set('C18', 'level_text', 'Proof (Verus) of the handle-table protocol and error mapping and of the built-in wrappers OPEN, EOF, LINE INPUT, INPUT, FIELD, LSET, PUT, GET on their real bodies against a trait-level contract of the interpreter (readers and the File as ghost call/operation logs); the line/field reader as a bounded stand-in (Kani); round trips through the host file system are outside every contract.')
_add('C18', 'decides', 'Wrappers: OPEN calls the manager with exactly the decoded arguments (errors 55/53 carry over); EOF(n) = one eof() call of that handle\'s INPUT reader; LINE INPUT / INPUT on BOTH devices store what one line_input() / input() call returned ("console INPUT and LINE INPUT split fields and lines exactly as their file forms do"); FIELD records the list in order and rejects a list wider than LEN; PUT = one seek + one write of the padded/truncated field variables; GET assigns each field its slice, no index out of bounds; wrong mode / closed handle -> BadFileMode / FileNotFound; on an error nothing changes.')
_set('C18', 'not_decided', 'CLOSE (iterator adapters on an opaque impl Iterator), KILL/NAME (std::fs directly), FileInfo::get_record and mark_current_field_list (declared); read-back-what-was-written, APPEND, PUT/GET persistence (host file system across a history of calls)')
_set('C18', 'technique', 'Verus contracts on the extracted FileManager (File opaque, ghost operation log) and on the extracted built-in wrappers (trait-level contract on InterpreterTrait / Input) + bounded Kani harness on the generic reader')

_add('C04', 'decides', 'record_value (Verus): a record value holds every declared field; get / get_mut address a field by name, a store changes that field and nothing else (read-after-write, other fields untouched, stores commute), an undeclared field is None, never a panic; property_rules: `a.b` resolves to the declared field type, an undeclared field is Element not defined; redim_rules: REDIM keeps element type and number of dimensions of an existing dynamic array.')
_set('C04', 'not_decided', 'find_element_type (pinned; bounded Kani companion on one TYPE); byte-size / address-offset helpers of records (iterator chains); variable-path construction in the generator; conversion of the stored value to the element type (covered under C06)')
_add('C13', 'decides', 'dim_rules (Verus, every function of converter/dim_rules/{validation,dim_type_rules,param_type_rules,param_rules,main}.rs and core/string_length.rs on its real body): Duplicate definition exactly for a name that is a SUB, a FUNCTION, a CONST of the scope or an existing variable (compact: extended or same qualifier; extended: any variable of the base name), STRING * n with 1 <= n <= 32767, DIM SHARED only in the main module, an accepted declaration changes only that base name of the current scope; redim_rules: a bare REDIM A is judged against the extended A or the compact A of the default type only.')
_set('C13', 'not_decided', 'the composition `convert` of the rule list (Vec<Box<dyn VarResolve>>: pinned and assumed); find_name_or_shared_in_parent (HashMap iterator chain: declared with its intended contract, pinned)')
_set('C16', 'level_text', 'Proof (Kani, loop-free) of the PRINT separator/newline state machine; proof (Verus, unbounded in the length of the format) of the PRINT USING rendering code - literal copy, string fields, numeric field scanner and integer part, cyclic reuse of the format - and of the number framing of PRINT, with the decimal text of a number (core::fmt) uninterpreted; the generator side of PRINT (Verus); column arithmetic of the device writer as bounded stand-ins.')
_add('C16', 'decides', 'PRINT USING (Verus): print_non_formatting_chars copies the literal text cyclically up to the next field opener, a format without a field is Illegal function call; `\\ \\` field: the string left-justified in exactly (blanks+2) columns, `!`: the first character; numeric field = maximal run of # , . with the cursor right after it, integer part right-justified, thousands separators between digits only (known finding F110 carved out: the tree copies the commas of the format); successive values use successive fields, the format is reused cyclically; print_number: one print call with [blank if non-negative] + Display + blank, strings verbatim.')
_set('C16', 'not_decided', 'the decimal text of a number (core::fmt); fmt_with_fractional_part beyond the concrete cases of the bounded companion; malformed numeric fields; -0.0 framing; per-device tracking (structural: one WritePrinter per device)')
_set('C16', 'technique', 'Kani harnesses with a recording Printer on the real PrintState / WritePrinter + Verus contracts on the extracted PRINT USING / framing code and on the PRINT emitters of the generator')

_add('C12', 'decides', 'Top of the pipeline: lint = pre_lint -> convert -> post_linter (first error unchanged, Ok => all nine post-linters accepted the converted program); the statement converter routes each of the 23 statement kinds to exactly its own rule; PrintLinter over the deep traversal (Ok <=> every PRINT anywhere has a string format and only numbers/strings as arguments); the pre-linter records every implementation with its signature.')
_add('C07', 'decides', 'Totality (no panic site, termination) also of the units added in session 3 that list C07: name_rules, stmt_dispatch, print_linter, dots_linter, pre_linter, arg_validation, builtin_arg_rules, lint_pipeline.')
_add('C11', 'decides', 'stmt_dispatch: a converted statement keeps the position of the statement it was made from.')
_add('C01', 'decides', 'lint_pipeline / stmt_dispatch: the checker stage a program passes through before it runs is the composition of its three stages, each statement handled by the rule of its own kind.')

_add('C01', 'decides', 'wrappers_read_data (Verus): DATA appends its values in order; READ gives variable #j the value at cursor+j converted to its type, Out of DATA exactly when the segment is exhausted, earlier variables stay assigned, nothing else changes.')
_add('C05', 'decides', 'wrappers_err: ERR is the code of the most recent trapped error or 0; reading it does not clear it.')
_add('C08', 'decides', 'builtin_dispatch: every built-in goes to exactly its own wrapper; wrappers_misc / wrappers_read_data / wrappers_err / file_wrappers_*: every unwrap/expect/panic of the built-in wrappers under contract is unreachable under the argument shape the checker rule of that built-in (builtin_arg_rules) and the parser encoding (opt_args_flags) establish; peek_seg0 / poke_seg0 total; PANIC_SITES.md accounts for every panic site of the repository.')
_add('C17', 'decides', 'wrappers_misc: LEN of a string is its number of characters (LEN(a+b) = LEN(a)+LEN(b)), of a numeric variable its size in bytes.')

_set('C01', 'technique', 'Kani full-domain operator harnesses + Verus contracts on the VM handlers, DATA segment / READ / DATA wrappers, label resolver and the checker pipeline')
_set('C03', 'technique', 'Verus data-structure invariant with ghost block identities on the real Context/MemoryBlock/IndexedMap methods + Verus contracts on the call emitters of the generator (by-ref protocol, argument conversion)')
_set('C04', 'technique', 'Verus contracts + lemmas (mixed-radix injectivity) on the extracted VArray methods, the record value, the property / REDIM rules of the converter; Kani for casts/strings and black-box companions')
_set('C05', 'technique', 'Verus contracts on the extracted interpret_one/interpret/handlers/finder, on the block-exit marking of the generator and the ERR wrapper + Kani enum-complete harnesses on error codes')
_set('C08', 'technique', 'Kani enum-complete and totality harnesses + Verus panic-freedom obligations (R2: panic!/expect/unwrap become unreachable obligations) on the units under contract, incl. the built-in dispatcher, wrappers and argument rules; panic-site inventory generated from the evidence')
_set('C11', 'technique', 'Verus contract against a recursive spec of line/column, on the stack-trace order and on the re-positioning impls of the converter; Kani for the WithPos combinator')
_set('C12', 'technique', 'Kani table-vs-implementation harnesses on the real linter and VM functions; Verus contracts on the extracted linter traversals (trait-level contract shared by the overriding linters), type rules, argument rules and the checker pipeline')
_set('C13', 'technique', 'Kani complete harnesses (26-letter loops unwound) + Verus contracts on the name tables and on every name / DIM / REDIM rule of the converter')
_set('C15', 'technique', 'Verus contracts on the extracted label resolver / address bookkeeping and on the whole extracted code generator (linear stack discipline, label closure, program shape)')

# ---- session 4 (2026-09-25) --------------------------------------------------------------------------------------
_set('C15', 'level_text', 'Proof (Verus, unbounded in program size) of the label resolver and statement-address contracts and of the whole code generator, three times over its real text: a LINEAR stack discipline with label closure (gen_balance), "defines every label once" (gen_labels: no label twice in the list generate_unresolved returns, under the caller obligations H-pos / H-user / H-sub), and - where unit gen_paths is listed in the evidence - every generated branch connects two points of equal stack depth, so that the linear discipline holds along every path inside a statement.')
_add('C15', 'decides', 'gen_labels (Verus, 78 generator functions on their real bodies): expression-level code defines no label; label(p, pos) defines exactly that one generated name; a statement-level function appends a segment in which no label occurs twice, every generated label standing at a position of its own statement tree and every other label being a user label of that tree; FOR / WHILE / DO: what is left when the own labels are taken away is what ONE emission of the body defined (the obligation the FOR ... STEP defect 57 fails); generate_unresolved started on an empty list: nodup_labels(the whole list).')
_set('C15', 'not_decided', 'addresses strictly ascending (false because of CONST; only find_next at a duplicated failing address needs it); stack balance across control transfers that leave the statement (EXIT / GOTO out of a FOR body, a RESUME NEXT that abandons a statement half-way); H-pos / H-user / H-sub are caller obligations (parser / linter), the injectivity of format!-made label texts is a declared axiom')
_set('C15', 'technique', 'Verus contracts on the extracted label resolver / address bookkeeping and on the whole extracted code generator (linear stack discipline, label closure, program shape; label uniqueness by multisets of defined labels; depth-consistent branches)')
_set('C17', 'level_text', 'Proof (Kani, complete over numeric payloads) of the argument checks (negative counts / non-positive starts raise Illegal function call); the defining equations of every string built-in of the statement on its REAL wrapper through the mock interpreter, as bounded stand-ins in the string length (strings of at most 3 characters, every count / start / length symbolic over the whole INTEGER range).')
_add('C17', 'decides', 'builtin_strings (Kani, the whole wrapper: argument fetch, range checks, kernel, result slot): LEFT$ / RIGHT$ / MID$ = the prefix / suffix / substring by index arithmetic on character codes, LEFT$(s,n) + MID$(s,n+1) = s; INSTR = least position >= n; UCASE$ / LCASE$ change letters only; LTRIM$ / RTRIM$ remove exactly the blanks; SPACE$(n) = STRING$(n,32); negative counts and non-positive starts -> Illegal function call with no result written. builtin_values: MKD$ / CVD / CHR$ / STR$ / VAL wrappers, VAL(STR$(k)) = k over all INTEGER k, VAL returns a DOUBLE (the function\'s static type).')
_set('C17', 'not_decided', 'strings longer than the stated bounds (string code cannot be closed by either tool: str iterators); LCASE$/UCASE$ on characters above 127')
_set('C17', 'technique', 'Kani complete harnesses for argument checks + bounded Kani harnesses on the real built-in wrappers through a mock interpreter (contract stubs for the variable store) and on the real private string kernels')
_add('C09', 'decides', 'comment_kernel (Kani, attempt) / string_literal_kernel (Kani, bounded): the text of a comment / string literal is read character by character up to the line end (CR, LF, end) / the closing quote, verbatim, whatever it contains (defects 58, 59).')
_add('C10', 'decides', 'string_literal_kernel::inside_string (Kani, bounded 1-2 characters, discharged since defect 58): the text of a string literal is the maximal run of characters other than the quote, CR and LF, verbatim; the input is left right behind it.')
_add('C20', 'decides', 'or(): the second alternative starts at the original position for ANY first alternative, also one that does not undo its own soft failure (defect 60).')
_add('C15', 'decides', 'gen_paths (Verus, the whole generator on its real bodies): every generated branch lands on a definition of its label at EQUAL linear stack depth (label summaries carry depths, concatenation shifts them by the net effect); theorem: on every path of fall-through and taken generated branches the depth actually reached is the linear depth, so whatever a statement pushes is popped again along every path inside it, for any number of loop iterations (the obligation the SELECT CASE defect 63 fails).')
_add('C01', 'decides', 'dispatch::interpret_one: JumpIfFalse - what IF / WHILE / DO compile to - branches exactly when the truth value of register A (casts::truth_value: <> 0) is false. gen_balance (DO loops): for UNTIL the branch out of the loop is preceded by the LOGICAL negation of the condition (CopyAToB, LoadIntoA 0, Equal), so the loop is left for any non-zero value (defect 66).')
_add('C08', 'decides', 'call_args_linter (also under C08): an accepted call passes by reference only arguments of exactly the parameter type - an entire array only for an array parameter of the same element type - so the generator\'s "Cannot cast" panic is unreachable for accepted calls.')
