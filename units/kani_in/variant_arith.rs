//# unit variant_arith kind=kani_in crate=rusty_variant inject=rusty_variant/src/variant.rs
//! C01 / C06 — the primitive arithmetic, logical and relational steps of the VM (`Variant::plus, minus,
//! multiply, divide, modulo, negate, unary_not, and, or, try_cmp`), one obligation per operator x operand-kind
//! pair, payloads fully symbolic under the type invariant `valid(a) && valid(b)`.
//! Two postconditions per obligation:
//!  (C01) the reference result.  Result type = the wider operand type (INTEGER < LONG < SINGLE < DOUBLE).
//!        Whole-number result types: the mathematical result when it fits the type.  SINGLE/DOUBLE: the IEEE-754
//!        operation in that format on the operands converted to it.  `/`: floating-point division -- the IEEE quotient
//!        in the format both operands convert to exactly (INTEGER -> SINGLE, LONG -> DOUBLE, the wider of the two), a
//!        divisor that is exactly zero -> Division by zero, a quotient that is not finite -> Overflow.  The VM and the
//!        constant folder divide through `rusty_linter::core::qb_divide` (units qb_divide, type_table), which converts BOTH
//!        operands to the type of the quotient first, so they reach `Variant::divide` on SINGLE x SINGLE and
//!        DOUBLE x DOUBLE only; the mixed pairs are kept under contract as the public API.  For LONG x SINGLE and
//!        SINGLE x LONG that API divides in SINGLE format (the repository's unit tests divide::long::test_single and
//!        divide::single::test_long demand a SINGLE result there): the reference of these two pairs says so.
//!        MOD: operands rounded to nearest, both must
//!        fit INTEGER, remainder with the sign of the dividend.  Comparisons: the order on the exact values, for
//!        floats inside the domain `x = y or |x - y| >= 2e-5` (there the deliberate 1e-5 fuzz of `ApproximateCmp`
//!        cannot matter) and, when a LONG meets a SINGLE, |long| <= 2^24 (exactly representable).
//!  (C06) `Ok(v) => valid(v)`; otherwise the error is Overflow or DivisionByZero — never a wrapped or
//!        out-of-range value, never a panic (debug-build overflow checks are on under Kani).
//! Known findings are carved out with `if KF_<id> { assume(..) }` and reproduced by `finding_*` harnesses:
//!  F4  + - * on whole numbers do not range-check          F14 + - * on floats store inf instead of Overflow
//!  F26 `/` snaps quotients within 1e-4 of a whole number and saturates whole quotients >= 2^63
//!  F17 `/` reports Division by zero for 0 < |divisor| < 1e-5   F18 MOD gives TypeMismatch for |operand| >= 2^31
//!  F19 `/` converts LONG operands to SINGLE (loses precision beyond 2^24)   F20 a - b computed as -(b - a) gives -0
//! (The main `divide_*` harnesses are thorough-tier attempts -- two copies of a float divider.  Therefore the reproduction
//!  harnesses of F26 and F19 are `standalone=1`: once the finding is repaired they stay as ordinary quick-tier obligations;
//!  the clause F17 broke -- Division by zero exactly for a divisor that is exactly zero -- is asserted over the whole
//!  domain by the quick `divide_*_valid` harnesses.)
//! Loop-free except AND/OR (16-iteration loops unwound 18): complete.

const IMIN: i64 = -32768;
const IMAX: i64 = 32767;
const LMIN: i64 = -2147483648;
const LMAX: i64 = 2147483647;
const TWO24: i64 = 16777216;

fn valid(v: &Variant) -> bool {
    match v {
        Variant::VInteger(i) => (-32768..=32767).contains(i),
        Variant::VLong(l) => (-2147483648..=2147483647).contains(l),
        Variant::VSingle(f) => f.is_finite(),
        Variant::VDouble(d) => d.is_finite(),
        _ => true,
    }
}
type R = Result<Variant, VariantError>;
fn is_ovf(r: &R) -> bool {
    matches!(r, Err(VariantError::Overflow))
}
fn is_dz(r: &R) -> bool {
    matches!(r, Err(VariantError::DivisionByZero))
}
fn is_integer(r: &R, m: i64) -> bool {
    matches!(r, Ok(Variant::VInteger(n)) if *n as i64 == m)
}
fn is_long(r: &R, m: i64) -> bool {
    matches!(r, Ok(Variant::VLong(n)) if *n == m)
}
fn is_single(r: &R, x: f32) -> bool {
    matches!(r, Ok(Variant::VSingle(f)) if f.to_bits() == x.to_bits())
}
fn is_double(r: &R, x: f64) -> bool {
    matches!(r, Ok(Variant::VDouble(f)) if f.to_bits() == x.to_bits())
}
/// exact numeric value of a valid numeric result (every valid value is a double)
fn exact(v: &Variant) -> f64 {
    match v {
        Variant::VInteger(i) => *i as f64,
        Variant::VLong(l) => *l as f64,
        Variant::VSingle(f) => *f as f64,
        Variant::VDouble(d) => *d,
        _ => f64::NAN,
    }
}
/// (C06)
fn c06(r: &R) {
    match r {
        Ok(v) => assert!(valid(v), "C06: the result violates the type invariant of its own type"),
        Err(e) => assert!(matches!(e, VariantError::Overflow | VariantError::DivisionByZero), "C06: error other than Overflow / Division by zero"),
    }
}

// ---------------------------------------------------------------------------------------------
// plus, minus, multiply

//# harness plus_integer_integer tier=quick label=complete props=C01,C06 fn=rusty_variant/src/variant.rs::Variant::plus
harness!(plus_integer_integer, 1, {
    let a = vs::i32();
    vs::assume(a >= -32768 && a <= 32767);
    let b = vs::i32();
    vs::assume(b >= -32768 && b <= 32767);
    let m: i64 = (a as i64) + (b as i64); // the mathematical result (no overflow in 64 bits)
    let fits = m >= IMIN && m <= IMAX;
    if KF_F4 {
        vs::assume(fits);
    }
    let r = Variant::VInteger(a).plus(Variant::VInteger(b));
    if fits {
        assert!(is_integer(&r, m), "C01: not the mathematical result in the wider operand type");
    } else {
        assert!(is_ovf(&r), "C06: a result that does not fit must raise Overflow");
    }
    c06(&r);
    reach!(m == IMAX);
    reach!(m == IMIN);
    std::mem::forget(r);
});

//# harness finding_f4_plus_integer_integer tier=quick label=complete props=C06 fn=rusty_variant/src/variant.rs::Variant::plus expect=finding:F4
harness!(finding_f4_plus_integer_integer, 1, {
    let a = vs::i32();
    vs::assume(a >= -32768 && a <= 32767);
    let b = vs::i32();
    vs::assume(b >= -32768 && b <= 32767);
    let m: i64 = (a as i64) + (b as i64); // the mathematical result (no overflow in 64 bits)
    let fits = m >= IMIN && m <= IMAX;
    vs::assume(!fits);
    let r = Variant::VInteger(a).plus(Variant::VInteger(b));
    assert!(is_ovf(&r), "C06: a result that does not fit must raise Overflow, not be stored");
    std::mem::forget(r);
});

//# harness plus_integer_long tier=quick label=complete props=C01,C06 fn=rusty_variant/src/variant.rs::Variant::plus
harness!(plus_integer_long, 1, {
    let a = vs::i32();
    vs::assume(a >= -32768 && a <= 32767);
    let b = vs::i64();
    vs::assume(b >= -2147483648 && b <= 2147483647);
    let m: i64 = (a as i64) + (b as i64); // the mathematical result (no overflow in 64 bits)
    let fits = m >= LMIN && m <= LMAX;
    if KF_F4 {
        vs::assume(fits);
    }
    let r = Variant::VInteger(a).plus(Variant::VLong(b));
    if fits {
        assert!(is_long(&r, m), "C01: not the mathematical result in the wider operand type");
    } else {
        assert!(is_ovf(&r), "C06: a result that does not fit must raise Overflow");
    }
    c06(&r);
    reach!(m == LMAX);
    reach!(m == LMIN);
    std::mem::forget(r);
});

//# harness finding_f4_plus_integer_long tier=quick label=complete props=C06 fn=rusty_variant/src/variant.rs::Variant::plus expect=finding:F4
harness!(finding_f4_plus_integer_long, 1, {
    let a = vs::i32();
    vs::assume(a >= -32768 && a <= 32767);
    let b = vs::i64();
    vs::assume(b >= -2147483648 && b <= 2147483647);
    let m: i64 = (a as i64) + (b as i64); // the mathematical result (no overflow in 64 bits)
    let fits = m >= LMIN && m <= LMAX;
    vs::assume(!fits);
    let r = Variant::VInteger(a).plus(Variant::VLong(b));
    assert!(is_ovf(&r), "C06: a result that does not fit must raise Overflow, not be stored");
    std::mem::forget(r);
});

//# harness plus_integer_single tier=quick label=complete props=C01,C06 fn=rusty_variant/src/variant.rs::Variant::plus
harness!(plus_integer_single, 1, {
    let a = vs::i32();
    vs::assume(a >= -32768 && a <= 32767);
    let b = vs::f32();
    vs::assume(b.is_finite());
    let x = a as f32;
    let y = b as f32;
    let z = x + y; // IEEE-754 operation in the wider operand format
    if KF_F14 {
        vs::assume(z.is_finite());
    }
    let r = Variant::VInteger(a).plus(Variant::VSingle(b));
    if z.is_finite() {
        assert!(is_single(&r, z), "C01: not the IEEE-754 result in the wider operand format");
    } else {
        assert!(is_ovf(&r), "C06: a non-finite result must raise Overflow");
    }
    c06(&r);
    reach!(z == 2.5);
    reach!(z < -1.0e30);
    std::mem::forget(r);
});

//# harness plus_integer_double tier=quick label=complete props=C01,C06 fn=rusty_variant/src/variant.rs::Variant::plus
harness!(plus_integer_double, 1, {
    let a = vs::i32();
    vs::assume(a >= -32768 && a <= 32767);
    let b = vs::f64();
    vs::assume(b.is_finite());
    let x = a as f64;
    let y = b as f64;
    let z = x + y; // IEEE-754 operation in the wider operand format
    if KF_F14 {
        vs::assume(z.is_finite());
    }
    let r = Variant::VInteger(a).plus(Variant::VDouble(b));
    if z.is_finite() {
        assert!(is_double(&r, z), "C01: not the IEEE-754 result in the wider operand format");
    } else {
        assert!(is_ovf(&r), "C06: a non-finite result must raise Overflow");
    }
    c06(&r);
    reach!(z == 2.5);
    reach!(z < -1.0e30);
    std::mem::forget(r);
});

//# harness plus_long_integer tier=quick label=complete props=C01,C06 fn=rusty_variant/src/variant.rs::Variant::plus
harness!(plus_long_integer, 1, {
    let a = vs::i64();
    vs::assume(a >= -2147483648 && a <= 2147483647);
    let b = vs::i32();
    vs::assume(b >= -32768 && b <= 32767);
    let m: i64 = (a as i64) + (b as i64); // the mathematical result (no overflow in 64 bits)
    let fits = m >= LMIN && m <= LMAX;
    if KF_F4 {
        vs::assume(fits);
    }
    let r = Variant::VLong(a).plus(Variant::VInteger(b));
    if fits {
        assert!(is_long(&r, m), "C01: not the mathematical result in the wider operand type");
    } else {
        assert!(is_ovf(&r), "C06: a result that does not fit must raise Overflow");
    }
    c06(&r);
    reach!(m == LMAX);
    reach!(m == LMIN);
    std::mem::forget(r);
});

//# harness finding_f4_plus_long_integer tier=quick label=complete props=C06 fn=rusty_variant/src/variant.rs::Variant::plus expect=finding:F4
harness!(finding_f4_plus_long_integer, 1, {
    let a = vs::i64();
    vs::assume(a >= -2147483648 && a <= 2147483647);
    let b = vs::i32();
    vs::assume(b >= -32768 && b <= 32767);
    let m: i64 = (a as i64) + (b as i64); // the mathematical result (no overflow in 64 bits)
    let fits = m >= LMIN && m <= LMAX;
    vs::assume(!fits);
    let r = Variant::VLong(a).plus(Variant::VInteger(b));
    assert!(is_ovf(&r), "C06: a result that does not fit must raise Overflow, not be stored");
    std::mem::forget(r);
});

//# harness plus_long_long tier=quick label=complete props=C01,C06 fn=rusty_variant/src/variant.rs::Variant::plus
harness!(plus_long_long, 1, {
    let a = vs::i64();
    vs::assume(a >= -2147483648 && a <= 2147483647);
    let b = vs::i64();
    vs::assume(b >= -2147483648 && b <= 2147483647);
    let m: i64 = (a as i64) + (b as i64); // the mathematical result (no overflow in 64 bits)
    let fits = m >= LMIN && m <= LMAX;
    if KF_F4 {
        vs::assume(fits);
    }
    let r = Variant::VLong(a).plus(Variant::VLong(b));
    if fits {
        assert!(is_long(&r, m), "C01: not the mathematical result in the wider operand type");
    } else {
        assert!(is_ovf(&r), "C06: a result that does not fit must raise Overflow");
    }
    c06(&r);
    reach!(m == LMAX);
    reach!(m == LMIN);
    std::mem::forget(r);
});

//# harness finding_f4_plus_long_long tier=quick label=complete props=C06 fn=rusty_variant/src/variant.rs::Variant::plus expect=finding:F4
harness!(finding_f4_plus_long_long, 1, {
    let a = vs::i64();
    vs::assume(a >= -2147483648 && a <= 2147483647);
    let b = vs::i64();
    vs::assume(b >= -2147483648 && b <= 2147483647);
    let m: i64 = (a as i64) + (b as i64); // the mathematical result (no overflow in 64 bits)
    let fits = m >= LMIN && m <= LMAX;
    vs::assume(!fits);
    let r = Variant::VLong(a).plus(Variant::VLong(b));
    assert!(is_ovf(&r), "C06: a result that does not fit must raise Overflow, not be stored");
    std::mem::forget(r);
});

//# harness plus_long_single tier=quick label=complete props=C01,C06 fn=rusty_variant/src/variant.rs::Variant::plus
harness!(plus_long_single, 1, {
    let a = vs::i64();
    vs::assume(a >= -2147483648 && a <= 2147483647);
    let b = vs::f32();
    vs::assume(b.is_finite());
    let x = a as f32;
    let y = b as f32;
    let z = x + y; // IEEE-754 operation in the wider operand format
    if KF_F14 {
        vs::assume(z.is_finite());
    }
    let r = Variant::VLong(a).plus(Variant::VSingle(b));
    if z.is_finite() {
        assert!(is_single(&r, z), "C01: not the IEEE-754 result in the wider operand format");
    } else {
        assert!(is_ovf(&r), "C06: a non-finite result must raise Overflow");
    }
    c06(&r);
    reach!(z == 2.5);
    reach!(z < -1.0e30);
    std::mem::forget(r);
});

//# harness plus_long_double tier=quick label=complete props=C01,C06 fn=rusty_variant/src/variant.rs::Variant::plus
harness!(plus_long_double, 1, {
    let a = vs::i64();
    vs::assume(a >= -2147483648 && a <= 2147483647);
    let b = vs::f64();
    vs::assume(b.is_finite());
    let x = a as f64;
    let y = b as f64;
    let z = x + y; // IEEE-754 operation in the wider operand format
    if KF_F14 {
        vs::assume(z.is_finite());
    }
    let r = Variant::VLong(a).plus(Variant::VDouble(b));
    if z.is_finite() {
        assert!(is_double(&r, z), "C01: not the IEEE-754 result in the wider operand format");
    } else {
        assert!(is_ovf(&r), "C06: a non-finite result must raise Overflow");
    }
    c06(&r);
    reach!(z == 2.5);
    reach!(z < -1.0e30);
    std::mem::forget(r);
});

//# harness plus_single_integer tier=quick label=complete props=C01,C06 fn=rusty_variant/src/variant.rs::Variant::plus
harness!(plus_single_integer, 1, {
    let a = vs::f32();
    vs::assume(a.is_finite());
    let b = vs::i32();
    vs::assume(b >= -32768 && b <= 32767);
    let x = a as f32;
    let y = b as f32;
    let z = x + y; // IEEE-754 operation in the wider operand format
    if KF_F14 {
        vs::assume(z.is_finite());
    }
    let r = Variant::VSingle(a).plus(Variant::VInteger(b));
    if z.is_finite() {
        assert!(is_single(&r, z), "C01: not the IEEE-754 result in the wider operand format");
    } else {
        assert!(is_ovf(&r), "C06: a non-finite result must raise Overflow");
    }
    c06(&r);
    reach!(z == 2.5);
    reach!(z < -1.0e30);
    std::mem::forget(r);
});

//# harness plus_single_long tier=quick label=complete props=C01,C06 fn=rusty_variant/src/variant.rs::Variant::plus
harness!(plus_single_long, 1, {
    let a = vs::f32();
    vs::assume(a.is_finite());
    let b = vs::i64();
    vs::assume(b >= -2147483648 && b <= 2147483647);
    let x = a as f32;
    let y = b as f32;
    let z = x + y; // IEEE-754 operation in the wider operand format
    if KF_F14 {
        vs::assume(z.is_finite());
    }
    let r = Variant::VSingle(a).plus(Variant::VLong(b));
    if z.is_finite() {
        assert!(is_single(&r, z), "C01: not the IEEE-754 result in the wider operand format");
    } else {
        assert!(is_ovf(&r), "C06: a non-finite result must raise Overflow");
    }
    c06(&r);
    reach!(z == 2.5);
    reach!(z < -1.0e30);
    std::mem::forget(r);
});

//# harness plus_single_single tier=quick label=complete props=C01,C06 fn=rusty_variant/src/variant.rs::Variant::plus
harness!(plus_single_single, 1, {
    let a = vs::f32();
    vs::assume(a.is_finite());
    let b = vs::f32();
    vs::assume(b.is_finite());
    let x = a as f32;
    let y = b as f32;
    let z = x + y; // IEEE-754 operation in the wider operand format
    if KF_F14 {
        vs::assume(z.is_finite());
    }
    let r = Variant::VSingle(a).plus(Variant::VSingle(b));
    if z.is_finite() {
        assert!(is_single(&r, z), "C01: not the IEEE-754 result in the wider operand format");
    } else {
        assert!(is_ovf(&r), "C06: a non-finite result must raise Overflow");
    }
    c06(&r);
    reach!(z == 2.5);
    reach!(z < -1.0e30);
    std::mem::forget(r);
});

//# harness finding_f14_plus_single_single tier=quick label=complete props=C06 fn=rusty_variant/src/variant.rs::Variant::plus expect=finding:F14
harness!(finding_f14_plus_single_single, 1, {
    let a = vs::f32();
    vs::assume(a.is_finite());
    let b = vs::f32();
    vs::assume(b.is_finite());
    let x = a as f32;
    let y = b as f32;
    let z = x + y; // IEEE-754 operation in the wider operand format
    vs::assume(!z.is_finite());
    let r = Variant::VSingle(a).plus(Variant::VSingle(b));
    assert!(is_ovf(&r), "C06: a non-finite result must raise Overflow, not be stored");
    std::mem::forget(r);
});

//# harness plus_single_double tier=quick label=complete props=C01,C06 fn=rusty_variant/src/variant.rs::Variant::plus
harness!(plus_single_double, 1, {
    let a = vs::f32();
    vs::assume(a.is_finite());
    let b = vs::f64();
    vs::assume(b.is_finite());
    let x = a as f64;
    let y = b as f64;
    let z = x + y; // IEEE-754 operation in the wider operand format
    if KF_F14 {
        vs::assume(z.is_finite());
    }
    let r = Variant::VSingle(a).plus(Variant::VDouble(b));
    if z.is_finite() {
        assert!(is_double(&r, z), "C01: not the IEEE-754 result in the wider operand format");
    } else {
        assert!(is_ovf(&r), "C06: a non-finite result must raise Overflow");
    }
    c06(&r);
    reach!(z == 2.5);
    reach!(z < -1.0e30);
    std::mem::forget(r);
});

//# harness plus_double_integer tier=quick label=complete props=C01,C06 fn=rusty_variant/src/variant.rs::Variant::plus
harness!(plus_double_integer, 1, {
    let a = vs::f64();
    vs::assume(a.is_finite());
    let b = vs::i32();
    vs::assume(b >= -32768 && b <= 32767);
    let x = a as f64;
    let y = b as f64;
    let z = x + y; // IEEE-754 operation in the wider operand format
    if KF_F14 {
        vs::assume(z.is_finite());
    }
    let r = Variant::VDouble(a).plus(Variant::VInteger(b));
    if z.is_finite() {
        assert!(is_double(&r, z), "C01: not the IEEE-754 result in the wider operand format");
    } else {
        assert!(is_ovf(&r), "C06: a non-finite result must raise Overflow");
    }
    c06(&r);
    reach!(z == 2.5);
    reach!(z < -1.0e30);
    std::mem::forget(r);
});

//# harness plus_double_long tier=quick label=complete props=C01,C06 fn=rusty_variant/src/variant.rs::Variant::plus
harness!(plus_double_long, 1, {
    let a = vs::f64();
    vs::assume(a.is_finite());
    let b = vs::i64();
    vs::assume(b >= -2147483648 && b <= 2147483647);
    let x = a as f64;
    let y = b as f64;
    let z = x + y; // IEEE-754 operation in the wider operand format
    if KF_F14 {
        vs::assume(z.is_finite());
    }
    let r = Variant::VDouble(a).plus(Variant::VLong(b));
    if z.is_finite() {
        assert!(is_double(&r, z), "C01: not the IEEE-754 result in the wider operand format");
    } else {
        assert!(is_ovf(&r), "C06: a non-finite result must raise Overflow");
    }
    c06(&r);
    reach!(z == 2.5);
    reach!(z < -1.0e30);
    std::mem::forget(r);
});

//# harness plus_double_single tier=quick label=complete props=C01,C06 fn=rusty_variant/src/variant.rs::Variant::plus
harness!(plus_double_single, 1, {
    let a = vs::f64();
    vs::assume(a.is_finite());
    let b = vs::f32();
    vs::assume(b.is_finite());
    let x = a as f64;
    let y = b as f64;
    let z = x + y; // IEEE-754 operation in the wider operand format
    if KF_F14 {
        vs::assume(z.is_finite());
    }
    let r = Variant::VDouble(a).plus(Variant::VSingle(b));
    if z.is_finite() {
        assert!(is_double(&r, z), "C01: not the IEEE-754 result in the wider operand format");
    } else {
        assert!(is_ovf(&r), "C06: a non-finite result must raise Overflow");
    }
    c06(&r);
    reach!(z == 2.5);
    reach!(z < -1.0e30);
    std::mem::forget(r);
});

//# harness plus_double_double tier=quick label=complete props=C01,C06 fn=rusty_variant/src/variant.rs::Variant::plus
harness!(plus_double_double, 1, {
    let a = vs::f64();
    vs::assume(a.is_finite());
    let b = vs::f64();
    vs::assume(b.is_finite());
    let x = a as f64;
    let y = b as f64;
    let z = x + y; // IEEE-754 operation in the wider operand format
    if KF_F14 {
        vs::assume(z.is_finite());
    }
    let r = Variant::VDouble(a).plus(Variant::VDouble(b));
    if z.is_finite() {
        assert!(is_double(&r, z), "C01: not the IEEE-754 result in the wider operand format");
    } else {
        assert!(is_ovf(&r), "C06: a non-finite result must raise Overflow");
    }
    c06(&r);
    reach!(z == 2.5);
    reach!(z < -1.0e30);
    std::mem::forget(r);
});

//# harness finding_f14_plus_double_double tier=quick label=complete props=C06 fn=rusty_variant/src/variant.rs::Variant::plus expect=finding:F14
harness!(finding_f14_plus_double_double, 1, {
    let a = vs::f64();
    vs::assume(a.is_finite());
    let b = vs::f64();
    vs::assume(b.is_finite());
    let x = a as f64;
    let y = b as f64;
    let z = x + y; // IEEE-754 operation in the wider operand format
    vs::assume(!z.is_finite());
    let r = Variant::VDouble(a).plus(Variant::VDouble(b));
    assert!(is_ovf(&r), "C06: a non-finite result must raise Overflow, not be stored");
    std::mem::forget(r);
});

//# harness minus_integer_integer tier=quick label=complete props=C01,C06 fn=rusty_variant/src/variant.rs::Variant::minus
harness!(minus_integer_integer, 1, {
    let a = vs::i32();
    vs::assume(a >= -32768 && a <= 32767);
    let b = vs::i32();
    vs::assume(b >= -32768 && b <= 32767);
    let m: i64 = (a as i64) - (b as i64); // the mathematical result (no overflow in 64 bits)
    let fits = m >= IMIN && m <= IMAX;
    if KF_F4 {
        vs::assume(fits);
    }
    let r = Variant::VInteger(a).minus(Variant::VInteger(b));
    if fits {
        assert!(is_integer(&r, m), "C01: not the mathematical result in the wider operand type");
    } else {
        assert!(is_ovf(&r), "C06: a result that does not fit must raise Overflow");
    }
    c06(&r);
    reach!(m == IMAX);
    reach!(m == IMIN);
    std::mem::forget(r);
});

//# harness finding_f4_minus_integer_integer tier=quick label=complete props=C06 fn=rusty_variant/src/variant.rs::Variant::minus expect=finding:F4
harness!(finding_f4_minus_integer_integer, 1, {
    let a = vs::i32();
    vs::assume(a >= -32768 && a <= 32767);
    let b = vs::i32();
    vs::assume(b >= -32768 && b <= 32767);
    let m: i64 = (a as i64) - (b as i64); // the mathematical result (no overflow in 64 bits)
    let fits = m >= IMIN && m <= IMAX;
    vs::assume(!fits);
    let r = Variant::VInteger(a).minus(Variant::VInteger(b));
    assert!(is_ovf(&r), "C06: a result that does not fit must raise Overflow, not be stored");
    std::mem::forget(r);
});

//# harness minus_integer_long tier=quick label=complete props=C01,C06 fn=rusty_variant/src/variant.rs::Variant::minus
harness!(minus_integer_long, 1, {
    let a = vs::i32();
    vs::assume(a >= -32768 && a <= 32767);
    let b = vs::i64();
    vs::assume(b >= -2147483648 && b <= 2147483647);
    let m: i64 = (a as i64) - (b as i64); // the mathematical result (no overflow in 64 bits)
    let fits = m >= LMIN && m <= LMAX;
    if KF_F4 {
        vs::assume(fits);
    }
    let r = Variant::VInteger(a).minus(Variant::VLong(b));
    if fits {
        assert!(is_long(&r, m), "C01: not the mathematical result in the wider operand type");
    } else {
        assert!(is_ovf(&r), "C06: a result that does not fit must raise Overflow");
    }
    c06(&r);
    reach!(m == LMAX);
    reach!(m == LMIN);
    std::mem::forget(r);
});

//# harness finding_f4_minus_integer_long tier=quick label=complete props=C06 fn=rusty_variant/src/variant.rs::Variant::minus expect=finding:F4
harness!(finding_f4_minus_integer_long, 1, {
    let a = vs::i32();
    vs::assume(a >= -32768 && a <= 32767);
    let b = vs::i64();
    vs::assume(b >= -2147483648 && b <= 2147483647);
    let m: i64 = (a as i64) - (b as i64); // the mathematical result (no overflow in 64 bits)
    let fits = m >= LMIN && m <= LMAX;
    vs::assume(!fits);
    let r = Variant::VInteger(a).minus(Variant::VLong(b));
    assert!(is_ovf(&r), "C06: a result that does not fit must raise Overflow, not be stored");
    std::mem::forget(r);
});

//# harness minus_integer_single tier=quick label=complete props=C01,C06 fn=rusty_variant/src/variant.rs::Variant::minus
harness!(minus_integer_single, 1, {
    let a = vs::i32();
    vs::assume(a >= -32768 && a <= 32767);
    let b = vs::f32();
    vs::assume(b.is_finite());
    let x = a as f32;
    let y = b as f32;
    let z = x - y; // IEEE-754 operation in the wider operand format
    if KF_F14 {
        vs::assume(z.is_finite());
    }
    if KF_F20 {
        vs::assume(x != y);
    }
    let r = Variant::VInteger(a).minus(Variant::VSingle(b));
    if z.is_finite() {
        assert!(is_single(&r, z), "C01: not the IEEE-754 result in the wider operand format");
    } else {
        assert!(is_ovf(&r), "C06: a non-finite result must raise Overflow");
    }
    c06(&r);
    reach!(z == 2.5);
    reach!(z < -1.0e30);
    std::mem::forget(r);
});

//# harness finding_f20_minus_integer_single tier=quick label=complete props=C01 fn=rusty_variant/src/variant.rs::Variant::minus expect=finding:F20
harness!(finding_f20_minus_integer_single, 1, {
    let a = vs::i32();
    vs::assume(a >= -32768 && a <= 32767);
    let b = vs::f32();
    vs::assume(b.is_finite());
    let x = a as f32;
    let y = b as f32;
    let z = x - y; // IEEE-754 operation in the wider operand format
    vs::assume(x == y);
    let r = Variant::VInteger(a).minus(Variant::VSingle(b));
    assert!(is_single(&r, 0.0), "C01: x - x is +0 (printed as 0), not -0");
    std::mem::forget(r);
});

//# harness minus_integer_double tier=quick label=complete props=C01,C06 fn=rusty_variant/src/variant.rs::Variant::minus
harness!(minus_integer_double, 1, {
    let a = vs::i32();
    vs::assume(a >= -32768 && a <= 32767);
    let b = vs::f64();
    vs::assume(b.is_finite());
    let x = a as f64;
    let y = b as f64;
    let z = x - y; // IEEE-754 operation in the wider operand format
    if KF_F14 {
        vs::assume(z.is_finite());
    }
    if KF_F20 {
        vs::assume(x != y);
    }
    let r = Variant::VInteger(a).minus(Variant::VDouble(b));
    if z.is_finite() {
        assert!(is_double(&r, z), "C01: not the IEEE-754 result in the wider operand format");
    } else {
        assert!(is_ovf(&r), "C06: a non-finite result must raise Overflow");
    }
    c06(&r);
    reach!(z == 2.5);
    reach!(z < -1.0e30);
    std::mem::forget(r);
});

//# harness finding_f20_minus_integer_double tier=quick label=complete props=C01 fn=rusty_variant/src/variant.rs::Variant::minus expect=finding:F20
harness!(finding_f20_minus_integer_double, 1, {
    let a = vs::i32();
    vs::assume(a >= -32768 && a <= 32767);
    let b = vs::f64();
    vs::assume(b.is_finite());
    let x = a as f64;
    let y = b as f64;
    let z = x - y; // IEEE-754 operation in the wider operand format
    vs::assume(x == y);
    let r = Variant::VInteger(a).minus(Variant::VDouble(b));
    assert!(is_double(&r, 0.0), "C01: x - x is +0 (printed as 0), not -0");
    std::mem::forget(r);
});

//# harness minus_long_integer tier=quick label=complete props=C01,C06 fn=rusty_variant/src/variant.rs::Variant::minus
harness!(minus_long_integer, 1, {
    let a = vs::i64();
    vs::assume(a >= -2147483648 && a <= 2147483647);
    let b = vs::i32();
    vs::assume(b >= -32768 && b <= 32767);
    let m: i64 = (a as i64) - (b as i64); // the mathematical result (no overflow in 64 bits)
    let fits = m >= LMIN && m <= LMAX;
    if KF_F4 {
        vs::assume(fits);
    }
    let r = Variant::VLong(a).minus(Variant::VInteger(b));
    if fits {
        assert!(is_long(&r, m), "C01: not the mathematical result in the wider operand type");
    } else {
        assert!(is_ovf(&r), "C06: a result that does not fit must raise Overflow");
    }
    c06(&r);
    reach!(m == LMAX);
    reach!(m == LMIN);
    std::mem::forget(r);
});

//# harness finding_f4_minus_long_integer tier=quick label=complete props=C06 fn=rusty_variant/src/variant.rs::Variant::minus expect=finding:F4
harness!(finding_f4_minus_long_integer, 1, {
    let a = vs::i64();
    vs::assume(a >= -2147483648 && a <= 2147483647);
    let b = vs::i32();
    vs::assume(b >= -32768 && b <= 32767);
    let m: i64 = (a as i64) - (b as i64); // the mathematical result (no overflow in 64 bits)
    let fits = m >= LMIN && m <= LMAX;
    vs::assume(!fits);
    let r = Variant::VLong(a).minus(Variant::VInteger(b));
    assert!(is_ovf(&r), "C06: a result that does not fit must raise Overflow, not be stored");
    std::mem::forget(r);
});

//# harness minus_long_long tier=quick label=complete props=C01,C06 fn=rusty_variant/src/variant.rs::Variant::minus
harness!(minus_long_long, 1, {
    let a = vs::i64();
    vs::assume(a >= -2147483648 && a <= 2147483647);
    let b = vs::i64();
    vs::assume(b >= -2147483648 && b <= 2147483647);
    let m: i64 = (a as i64) - (b as i64); // the mathematical result (no overflow in 64 bits)
    let fits = m >= LMIN && m <= LMAX;
    if KF_F4 {
        vs::assume(fits);
    }
    let r = Variant::VLong(a).minus(Variant::VLong(b));
    if fits {
        assert!(is_long(&r, m), "C01: not the mathematical result in the wider operand type");
    } else {
        assert!(is_ovf(&r), "C06: a result that does not fit must raise Overflow");
    }
    c06(&r);
    reach!(m == LMAX);
    reach!(m == LMIN);
    std::mem::forget(r);
});

//# harness finding_f4_minus_long_long tier=quick label=complete props=C06 fn=rusty_variant/src/variant.rs::Variant::minus expect=finding:F4
harness!(finding_f4_minus_long_long, 1, {
    let a = vs::i64();
    vs::assume(a >= -2147483648 && a <= 2147483647);
    let b = vs::i64();
    vs::assume(b >= -2147483648 && b <= 2147483647);
    let m: i64 = (a as i64) - (b as i64); // the mathematical result (no overflow in 64 bits)
    let fits = m >= LMIN && m <= LMAX;
    vs::assume(!fits);
    let r = Variant::VLong(a).minus(Variant::VLong(b));
    assert!(is_ovf(&r), "C06: a result that does not fit must raise Overflow, not be stored");
    std::mem::forget(r);
});

//# harness minus_long_single tier=quick label=complete props=C01,C06 fn=rusty_variant/src/variant.rs::Variant::minus
harness!(minus_long_single, 1, {
    let a = vs::i64();
    vs::assume(a >= -2147483648 && a <= 2147483647);
    let b = vs::f32();
    vs::assume(b.is_finite());
    let x = a as f32;
    let y = b as f32;
    let z = x - y; // IEEE-754 operation in the wider operand format
    if KF_F14 {
        vs::assume(z.is_finite());
    }
    if KF_F20 {
        vs::assume(x != y);
    }
    let r = Variant::VLong(a).minus(Variant::VSingle(b));
    if z.is_finite() {
        assert!(is_single(&r, z), "C01: not the IEEE-754 result in the wider operand format");
    } else {
        assert!(is_ovf(&r), "C06: a non-finite result must raise Overflow");
    }
    c06(&r);
    reach!(z == 2.5);
    reach!(z < -1.0e30);
    std::mem::forget(r);
});

//# harness finding_f20_minus_long_single tier=quick label=complete props=C01 fn=rusty_variant/src/variant.rs::Variant::minus expect=finding:F20
harness!(finding_f20_minus_long_single, 1, {
    let a = vs::i64();
    vs::assume(a >= -2147483648 && a <= 2147483647);
    let b = vs::f32();
    vs::assume(b.is_finite());
    let x = a as f32;
    let y = b as f32;
    let z = x - y; // IEEE-754 operation in the wider operand format
    vs::assume(x == y);
    let r = Variant::VLong(a).minus(Variant::VSingle(b));
    assert!(is_single(&r, 0.0), "C01: x - x is +0 (printed as 0), not -0");
    std::mem::forget(r);
});

//# harness minus_long_double tier=quick label=complete props=C01,C06 fn=rusty_variant/src/variant.rs::Variant::minus
harness!(minus_long_double, 1, {
    let a = vs::i64();
    vs::assume(a >= -2147483648 && a <= 2147483647);
    let b = vs::f64();
    vs::assume(b.is_finite());
    let x = a as f64;
    let y = b as f64;
    let z = x - y; // IEEE-754 operation in the wider operand format
    if KF_F14 {
        vs::assume(z.is_finite());
    }
    if KF_F20 {
        vs::assume(x != y);
    }
    let r = Variant::VLong(a).minus(Variant::VDouble(b));
    if z.is_finite() {
        assert!(is_double(&r, z), "C01: not the IEEE-754 result in the wider operand format");
    } else {
        assert!(is_ovf(&r), "C06: a non-finite result must raise Overflow");
    }
    c06(&r);
    reach!(z == 2.5);
    reach!(z < -1.0e30);
    std::mem::forget(r);
});

//# harness finding_f20_minus_long_double tier=quick label=complete props=C01 fn=rusty_variant/src/variant.rs::Variant::minus expect=finding:F20
harness!(finding_f20_minus_long_double, 1, {
    let a = vs::i64();
    vs::assume(a >= -2147483648 && a <= 2147483647);
    let b = vs::f64();
    vs::assume(b.is_finite());
    let x = a as f64;
    let y = b as f64;
    let z = x - y; // IEEE-754 operation in the wider operand format
    vs::assume(x == y);
    let r = Variant::VLong(a).minus(Variant::VDouble(b));
    assert!(is_double(&r, 0.0), "C01: x - x is +0 (printed as 0), not -0");
    std::mem::forget(r);
});

//# harness minus_single_integer tier=quick label=complete props=C01,C06 fn=rusty_variant/src/variant.rs::Variant::minus
harness!(minus_single_integer, 1, {
    let a = vs::f32();
    vs::assume(a.is_finite());
    let b = vs::i32();
    vs::assume(b >= -32768 && b <= 32767);
    let x = a as f32;
    let y = b as f32;
    let z = x - y; // IEEE-754 operation in the wider operand format
    if KF_F14 {
        vs::assume(z.is_finite());
    }
    let r = Variant::VSingle(a).minus(Variant::VInteger(b));
    if z.is_finite() {
        assert!(is_single(&r, z), "C01: not the IEEE-754 result in the wider operand format");
    } else {
        assert!(is_ovf(&r), "C06: a non-finite result must raise Overflow");
    }
    c06(&r);
    reach!(z == 2.5);
    reach!(z < -1.0e30);
    std::mem::forget(r);
});

//# harness minus_single_long tier=quick label=complete props=C01,C06 fn=rusty_variant/src/variant.rs::Variant::minus
harness!(minus_single_long, 1, {
    let a = vs::f32();
    vs::assume(a.is_finite());
    let b = vs::i64();
    vs::assume(b >= -2147483648 && b <= 2147483647);
    let x = a as f32;
    let y = b as f32;
    let z = x - y; // IEEE-754 operation in the wider operand format
    if KF_F14 {
        vs::assume(z.is_finite());
    }
    let r = Variant::VSingle(a).minus(Variant::VLong(b));
    if z.is_finite() {
        assert!(is_single(&r, z), "C01: not the IEEE-754 result in the wider operand format");
    } else {
        assert!(is_ovf(&r), "C06: a non-finite result must raise Overflow");
    }
    c06(&r);
    reach!(z == 2.5);
    reach!(z < -1.0e30);
    std::mem::forget(r);
});

//# harness minus_single_single tier=quick label=complete props=C01,C06 fn=rusty_variant/src/variant.rs::Variant::minus
harness!(minus_single_single, 1, {
    let a = vs::f32();
    vs::assume(a.is_finite());
    let b = vs::f32();
    vs::assume(b.is_finite());
    let x = a as f32;
    let y = b as f32;
    let z = x - y; // IEEE-754 operation in the wider operand format
    if KF_F14 {
        vs::assume(z.is_finite());
    }
    let r = Variant::VSingle(a).minus(Variant::VSingle(b));
    if z.is_finite() {
        assert!(is_single(&r, z), "C01: not the IEEE-754 result in the wider operand format");
    } else {
        assert!(is_ovf(&r), "C06: a non-finite result must raise Overflow");
    }
    c06(&r);
    reach!(z == 2.5);
    reach!(z < -1.0e30);
    std::mem::forget(r);
});

//# harness finding_f14_minus_single_single tier=quick label=complete props=C06 fn=rusty_variant/src/variant.rs::Variant::minus expect=finding:F14
harness!(finding_f14_minus_single_single, 1, {
    let a = vs::f32();
    vs::assume(a.is_finite());
    let b = vs::f32();
    vs::assume(b.is_finite());
    let x = a as f32;
    let y = b as f32;
    let z = x - y; // IEEE-754 operation in the wider operand format
    vs::assume(!z.is_finite());
    let r = Variant::VSingle(a).minus(Variant::VSingle(b));
    assert!(is_ovf(&r), "C06: a non-finite result must raise Overflow, not be stored");
    std::mem::forget(r);
});

//# harness minus_single_double tier=quick label=complete props=C01,C06 fn=rusty_variant/src/variant.rs::Variant::minus
harness!(minus_single_double, 1, {
    let a = vs::f32();
    vs::assume(a.is_finite());
    let b = vs::f64();
    vs::assume(b.is_finite());
    let x = a as f64;
    let y = b as f64;
    let z = x - y; // IEEE-754 operation in the wider operand format
    if KF_F14 {
        vs::assume(z.is_finite());
    }
    let r = Variant::VSingle(a).minus(Variant::VDouble(b));
    if z.is_finite() {
        assert!(is_double(&r, z), "C01: not the IEEE-754 result in the wider operand format");
    } else {
        assert!(is_ovf(&r), "C06: a non-finite result must raise Overflow");
    }
    c06(&r);
    reach!(z == 2.5);
    reach!(z < -1.0e30);
    std::mem::forget(r);
});

//# harness minus_double_integer tier=quick label=complete props=C01,C06 fn=rusty_variant/src/variant.rs::Variant::minus
harness!(minus_double_integer, 1, {
    let a = vs::f64();
    vs::assume(a.is_finite());
    let b = vs::i32();
    vs::assume(b >= -32768 && b <= 32767);
    let x = a as f64;
    let y = b as f64;
    let z = x - y; // IEEE-754 operation in the wider operand format
    if KF_F14 {
        vs::assume(z.is_finite());
    }
    let r = Variant::VDouble(a).minus(Variant::VInteger(b));
    if z.is_finite() {
        assert!(is_double(&r, z), "C01: not the IEEE-754 result in the wider operand format");
    } else {
        assert!(is_ovf(&r), "C06: a non-finite result must raise Overflow");
    }
    c06(&r);
    reach!(z == 2.5);
    reach!(z < -1.0e30);
    std::mem::forget(r);
});

//# harness minus_double_long tier=quick label=complete props=C01,C06 fn=rusty_variant/src/variant.rs::Variant::minus
harness!(minus_double_long, 1, {
    let a = vs::f64();
    vs::assume(a.is_finite());
    let b = vs::i64();
    vs::assume(b >= -2147483648 && b <= 2147483647);
    let x = a as f64;
    let y = b as f64;
    let z = x - y; // IEEE-754 operation in the wider operand format
    if KF_F14 {
        vs::assume(z.is_finite());
    }
    let r = Variant::VDouble(a).minus(Variant::VLong(b));
    if z.is_finite() {
        assert!(is_double(&r, z), "C01: not the IEEE-754 result in the wider operand format");
    } else {
        assert!(is_ovf(&r), "C06: a non-finite result must raise Overflow");
    }
    c06(&r);
    reach!(z == 2.5);
    reach!(z < -1.0e30);
    std::mem::forget(r);
});

//# harness minus_double_single tier=quick label=complete props=C01,C06 fn=rusty_variant/src/variant.rs::Variant::minus
harness!(minus_double_single, 1, {
    let a = vs::f64();
    vs::assume(a.is_finite());
    let b = vs::f32();
    vs::assume(b.is_finite());
    let x = a as f64;
    let y = b as f64;
    let z = x - y; // IEEE-754 operation in the wider operand format
    if KF_F14 {
        vs::assume(z.is_finite());
    }
    if KF_F20 {
        vs::assume(x != y);
    }
    let r = Variant::VDouble(a).minus(Variant::VSingle(b));
    if z.is_finite() {
        assert!(is_double(&r, z), "C01: not the IEEE-754 result in the wider operand format");
    } else {
        assert!(is_ovf(&r), "C06: a non-finite result must raise Overflow");
    }
    c06(&r);
    reach!(z == 2.5);
    reach!(z < -1.0e30);
    std::mem::forget(r);
});

//# harness finding_f20_minus_double_single tier=quick label=complete props=C01 fn=rusty_variant/src/variant.rs::Variant::minus expect=finding:F20
harness!(finding_f20_minus_double_single, 1, {
    let a = vs::f64();
    vs::assume(a.is_finite());
    let b = vs::f32();
    vs::assume(b.is_finite());
    let x = a as f64;
    let y = b as f64;
    let z = x - y; // IEEE-754 operation in the wider operand format
    vs::assume(x == y);
    let r = Variant::VDouble(a).minus(Variant::VSingle(b));
    assert!(is_double(&r, 0.0), "C01: x - x is +0 (printed as 0), not -0");
    std::mem::forget(r);
});

//# harness minus_double_double tier=quick label=complete props=C01,C06 fn=rusty_variant/src/variant.rs::Variant::minus
harness!(minus_double_double, 1, {
    let a = vs::f64();
    vs::assume(a.is_finite());
    let b = vs::f64();
    vs::assume(b.is_finite());
    let x = a as f64;
    let y = b as f64;
    let z = x - y; // IEEE-754 operation in the wider operand format
    if KF_F14 {
        vs::assume(z.is_finite());
    }
    let r = Variant::VDouble(a).minus(Variant::VDouble(b));
    if z.is_finite() {
        assert!(is_double(&r, z), "C01: not the IEEE-754 result in the wider operand format");
    } else {
        assert!(is_ovf(&r), "C06: a non-finite result must raise Overflow");
    }
    c06(&r);
    reach!(z == 2.5);
    reach!(z < -1.0e30);
    std::mem::forget(r);
});

//# harness finding_f14_minus_double_double tier=quick label=complete props=C06 fn=rusty_variant/src/variant.rs::Variant::minus expect=finding:F14
harness!(finding_f14_minus_double_double, 1, {
    let a = vs::f64();
    vs::assume(a.is_finite());
    let b = vs::f64();
    vs::assume(b.is_finite());
    let x = a as f64;
    let y = b as f64;
    let z = x - y; // IEEE-754 operation in the wider operand format
    vs::assume(!z.is_finite());
    let r = Variant::VDouble(a).minus(Variant::VDouble(b));
    assert!(is_ovf(&r), "C06: a non-finite result must raise Overflow, not be stored");
    std::mem::forget(r);
});

//# harness multiply_integer_integer tier=quick label=complete props=C01,C06 fn=rusty_variant/src/variant.rs::Variant::multiply
harness!(multiply_integer_integer, 1, {
    let a = vs::i32();
    vs::assume(a >= -32768 && a <= 32767);
    let b = vs::i32();
    vs::assume(b >= -32768 && b <= 32767);
    let m: i64 = (a as i64) * (b as i64); // the mathematical result (no overflow in 64 bits)
    let fits = m >= IMIN && m <= IMAX;
    if KF_F4 {
        vs::assume(fits);
    }
    let r = Variant::VInteger(a).multiply(Variant::VInteger(b));
    if fits {
        assert!(is_integer(&r, m), "C01: not the mathematical result in the wider operand type");
    } else {
        assert!(is_ovf(&r), "C06: a result that does not fit must raise Overflow");
    }
    c06(&r);
    reach!(m == IMAX);
    reach!(m == IMIN);
    std::mem::forget(r);
});

//# harness finding_f4_multiply_integer_integer tier=quick label=complete props=C06 fn=rusty_variant/src/variant.rs::Variant::multiply expect=finding:F4
harness!(finding_f4_multiply_integer_integer, 1, {
    let a = vs::i32();
    vs::assume(a >= -32768 && a <= 32767);
    let b = vs::i32();
    vs::assume(b >= -32768 && b <= 32767);
    let m: i64 = (a as i64) * (b as i64); // the mathematical result (no overflow in 64 bits)
    let fits = m >= IMIN && m <= IMAX;
    vs::assume(!fits);
    let r = Variant::VInteger(a).multiply(Variant::VInteger(b));
    assert!(is_ovf(&r), "C06: a result that does not fit must raise Overflow, not be stored");
    std::mem::forget(r);
});

//# harness multiply_integer_long tier=quick label=complete props=C01,C06 fn=rusty_variant/src/variant.rs::Variant::multiply
harness!(multiply_integer_long, 1, {
    let a = vs::i32();
    vs::assume(a >= -32768 && a <= 32767);
    let b = vs::i64();
    vs::assume(b >= -2147483648 && b <= 2147483647);
    let m: i64 = (a as i64) * (b as i64); // the mathematical result (no overflow in 64 bits)
    let fits = m >= LMIN && m <= LMAX;
    if KF_F4 {
        vs::assume(fits);
    }
    let r = Variant::VInteger(a).multiply(Variant::VLong(b));
    if fits {
        assert!(is_long(&r, m), "C01: not the mathematical result in the wider operand type");
    } else {
        assert!(is_ovf(&r), "C06: a result that does not fit must raise Overflow");
    }
    c06(&r);
    reach!(m == LMAX);
    reach!(m == LMIN);
    std::mem::forget(r);
});

//# harness finding_f4_multiply_integer_long tier=quick label=complete props=C06 fn=rusty_variant/src/variant.rs::Variant::multiply expect=finding:F4
harness!(finding_f4_multiply_integer_long, 1, {
    let a = vs::i32();
    vs::assume(a >= -32768 && a <= 32767);
    let b = vs::i64();
    vs::assume(b >= -2147483648 && b <= 2147483647);
    let m: i64 = (a as i64) * (b as i64); // the mathematical result (no overflow in 64 bits)
    let fits = m >= LMIN && m <= LMAX;
    vs::assume(!fits);
    let r = Variant::VInteger(a).multiply(Variant::VLong(b));
    assert!(is_ovf(&r), "C06: a result that does not fit must raise Overflow, not be stored");
    std::mem::forget(r);
});

//# harness multiply_integer_single tier=quick label=complete props=C01,C06 fn=rusty_variant/src/variant.rs::Variant::multiply solver=cvc5
harness_cvc5!(multiply_integer_single, 1, {
    let a = vs::i32();
    vs::assume(a >= -32768 && a <= 32767);
    let b = vs::f32();
    vs::assume(b.is_finite());
    let x = a as f32;
    let y = b as f32;
    let z = y * x; // IEEE-754 product (commutative) in the wider operand format
    if KF_F14 {
        vs::assume(z.is_finite());
    }
    let r = Variant::VInteger(a).multiply(Variant::VSingle(b));
    if z.is_finite() {
        assert!(is_single(&r, z), "C01: not the IEEE-754 result in the wider operand format");
    } else {
        assert!(is_ovf(&r), "C06: a non-finite result must raise Overflow");
    }
    c06(&r);
    reach!(z == 2.5);
    reach!(z < -1.0e30);
    std::mem::forget(r);
});

//# harness finding_f14_multiply_integer_single tier=quick label=complete props=C06 fn=rusty_variant/src/variant.rs::Variant::multiply expect=finding:F14
harness!(finding_f14_multiply_integer_single, 1, {
    let a = vs::i32();
    vs::assume(a >= -32768 && a <= 32767);
    let b = vs::f32();
    vs::assume(b.is_finite());
    let x = a as f32;
    let y = b as f32;
    let z = y * x; // IEEE-754 product (commutative) in the wider operand format
    vs::assume(!z.is_finite());
    let r = Variant::VInteger(a).multiply(Variant::VSingle(b));
    assert!(is_ovf(&r), "C06: a non-finite result must raise Overflow, not be stored");
    std::mem::forget(r);
});

//# harness multiply_integer_double tier=thorough label=complete props=C01,C06 fn=rusty_variant/src/variant.rs::Variant::multiply timeout=1800 attempt=1
harness!(multiply_integer_double, 1, {
    let a = vs::i32();
    vs::assume(a >= -32768 && a <= 32767);
    let b = vs::f64();
    vs::assume(b.is_finite());
    let x = a as f64;
    let y = b as f64;
    let z = y * x; // IEEE-754 product (commutative) in the wider operand format
    if KF_F14 {
        vs::assume(z.is_finite());
    }
    let r = Variant::VInteger(a).multiply(Variant::VDouble(b));
    if z.is_finite() {
        assert!(is_double(&r, z), "C01: not the IEEE-754 result in the wider operand format");
    } else {
        assert!(is_ovf(&r), "C06: a non-finite result must raise Overflow");
    }
    c06(&r);
    reach!(z == 2.5);
    reach!(z < -1.0e30);
    std::mem::forget(r);
});

//# harness finding_f14_multiply_integer_double tier=quick label=complete props=C06 fn=rusty_variant/src/variant.rs::Variant::multiply expect=finding:F14
harness!(finding_f14_multiply_integer_double, 1, {
    let a = vs::i32();
    vs::assume(a >= -32768 && a <= 32767);
    let b = vs::f64();
    vs::assume(b.is_finite());
    let x = a as f64;
    let y = b as f64;
    let z = y * x; // IEEE-754 product (commutative) in the wider operand format
    vs::assume(!z.is_finite());
    let r = Variant::VInteger(a).multiply(Variant::VDouble(b));
    assert!(is_ovf(&r), "C06: a non-finite result must raise Overflow, not be stored");
    std::mem::forget(r);
});

//# harness multiply_long_integer tier=quick label=complete props=C01,C06 fn=rusty_variant/src/variant.rs::Variant::multiply
harness!(multiply_long_integer, 1, {
    let a = vs::i64();
    vs::assume(a >= -2147483648 && a <= 2147483647);
    let b = vs::i32();
    vs::assume(b >= -32768 && b <= 32767);
    let m: i64 = (b as i64) * (a as i64); // the mathematical result (no overflow in 64 bits)
    let fits = m >= LMIN && m <= LMAX;
    if KF_F4 {
        vs::assume(fits);
    }
    let r = Variant::VLong(a).multiply(Variant::VInteger(b));
    if fits {
        assert!(is_long(&r, m), "C01: not the mathematical result in the wider operand type");
    } else {
        assert!(is_ovf(&r), "C06: a result that does not fit must raise Overflow");
    }
    c06(&r);
    reach!(m == LMAX);
    reach!(m == LMIN);
    std::mem::forget(r);
});

//# harness finding_f4_multiply_long_integer tier=quick label=complete props=C06 fn=rusty_variant/src/variant.rs::Variant::multiply expect=finding:F4
harness!(finding_f4_multiply_long_integer, 1, {
    let a = vs::i64();
    vs::assume(a >= -2147483648 && a <= 2147483647);
    let b = vs::i32();
    vs::assume(b >= -32768 && b <= 32767);
    let m: i64 = (b as i64) * (a as i64); // the mathematical result (no overflow in 64 bits)
    let fits = m >= LMIN && m <= LMAX;
    vs::assume(!fits);
    let r = Variant::VLong(a).multiply(Variant::VInteger(b));
    assert!(is_ovf(&r), "C06: a result that does not fit must raise Overflow, not be stored");
    std::mem::forget(r);
});

//# harness multiply_long_long tier=quick label=complete props=C01,C06 fn=rusty_variant/src/variant.rs::Variant::multiply
harness!(multiply_long_long, 1, {
    let a = vs::i64();
    vs::assume(a >= -2147483648 && a <= 2147483647);
    let b = vs::i64();
    vs::assume(b >= -2147483648 && b <= 2147483647);
    let m: i64 = (a as i64) * (b as i64); // the mathematical result (no overflow in 64 bits)
    let fits = m >= LMIN && m <= LMAX;
    if KF_F4 {
        vs::assume(fits);
    }
    let r = Variant::VLong(a).multiply(Variant::VLong(b));
    if fits {
        assert!(is_long(&r, m), "C01: not the mathematical result in the wider operand type");
    } else {
        assert!(is_ovf(&r), "C06: a result that does not fit must raise Overflow");
    }
    c06(&r);
    reach!(m == LMAX);
    reach!(m == LMIN);
    std::mem::forget(r);
});

//# harness finding_f4_multiply_long_long tier=quick label=complete props=C06 fn=rusty_variant/src/variant.rs::Variant::multiply expect=finding:F4
harness!(finding_f4_multiply_long_long, 1, {
    let a = vs::i64();
    vs::assume(a >= -2147483648 && a <= 2147483647);
    let b = vs::i64();
    vs::assume(b >= -2147483648 && b <= 2147483647);
    let m: i64 = (a as i64) * (b as i64); // the mathematical result (no overflow in 64 bits)
    let fits = m >= LMIN && m <= LMAX;
    vs::assume(!fits);
    let r = Variant::VLong(a).multiply(Variant::VLong(b));
    assert!(is_ovf(&r), "C06: a result that does not fit must raise Overflow, not be stored");
    std::mem::forget(r);
});

//# harness multiply_long_single tier=quick label=complete props=C01,C06 fn=rusty_variant/src/variant.rs::Variant::multiply solver=cvc5
harness_cvc5!(multiply_long_single, 1, {
    let a = vs::i64();
    vs::assume(a >= -2147483648 && a <= 2147483647);
    let b = vs::f32();
    vs::assume(b.is_finite());
    let x = a as f32;
    let y = b as f32;
    let z = y * x; // IEEE-754 product (commutative) in the wider operand format
    if KF_F14 {
        vs::assume(z.is_finite());
    }
    let r = Variant::VLong(a).multiply(Variant::VSingle(b));
    if z.is_finite() {
        assert!(is_single(&r, z), "C01: not the IEEE-754 result in the wider operand format");
    } else {
        assert!(is_ovf(&r), "C06: a non-finite result must raise Overflow");
    }
    c06(&r);
    reach!(z == 2.5);
    reach!(z < -1.0e30);
    std::mem::forget(r);
});

//# harness finding_f14_multiply_long_single tier=quick label=complete props=C06 fn=rusty_variant/src/variant.rs::Variant::multiply expect=finding:F14
harness!(finding_f14_multiply_long_single, 1, {
    let a = vs::i64();
    vs::assume(a >= -2147483648 && a <= 2147483647);
    let b = vs::f32();
    vs::assume(b.is_finite());
    let x = a as f32;
    let y = b as f32;
    let z = y * x; // IEEE-754 product (commutative) in the wider operand format
    vs::assume(!z.is_finite());
    let r = Variant::VLong(a).multiply(Variant::VSingle(b));
    assert!(is_ovf(&r), "C06: a non-finite result must raise Overflow, not be stored");
    std::mem::forget(r);
});

//# harness multiply_long_double tier=thorough label=complete props=C01,C06 fn=rusty_variant/src/variant.rs::Variant::multiply timeout=1800 attempt=1
harness!(multiply_long_double, 1, {
    let a = vs::i64();
    vs::assume(a >= -2147483648 && a <= 2147483647);
    let b = vs::f64();
    vs::assume(b.is_finite());
    let x = a as f64;
    let y = b as f64;
    let z = y * x; // IEEE-754 product (commutative) in the wider operand format
    if KF_F14 {
        vs::assume(z.is_finite());
    }
    let r = Variant::VLong(a).multiply(Variant::VDouble(b));
    if z.is_finite() {
        assert!(is_double(&r, z), "C01: not the IEEE-754 result in the wider operand format");
    } else {
        assert!(is_ovf(&r), "C06: a non-finite result must raise Overflow");
    }
    c06(&r);
    reach!(z == 2.5);
    reach!(z < -1.0e30);
    std::mem::forget(r);
});

//# harness finding_f14_multiply_long_double tier=quick label=complete props=C06 fn=rusty_variant/src/variant.rs::Variant::multiply expect=finding:F14
harness!(finding_f14_multiply_long_double, 1, {
    let a = vs::i64();
    vs::assume(a >= -2147483648 && a <= 2147483647);
    let b = vs::f64();
    vs::assume(b.is_finite());
    let x = a as f64;
    let y = b as f64;
    let z = y * x; // IEEE-754 product (commutative) in the wider operand format
    vs::assume(!z.is_finite());
    let r = Variant::VLong(a).multiply(Variant::VDouble(b));
    assert!(is_ovf(&r), "C06: a non-finite result must raise Overflow, not be stored");
    std::mem::forget(r);
});

//# harness multiply_single_integer tier=quick label=complete props=C01,C06 fn=rusty_variant/src/variant.rs::Variant::multiply solver=cvc5
harness_cvc5!(multiply_single_integer, 1, {
    let a = vs::f32();
    vs::assume(a.is_finite());
    let b = vs::i32();
    vs::assume(b >= -32768 && b <= 32767);
    let x = a as f32;
    let y = b as f32;
    let z = x * y; // IEEE-754 operation in the wider operand format
    if KF_F14 {
        vs::assume(z.is_finite());
    }
    let r = Variant::VSingle(a).multiply(Variant::VInteger(b));
    if z.is_finite() {
        assert!(is_single(&r, z), "C01: not the IEEE-754 result in the wider operand format");
    } else {
        assert!(is_ovf(&r), "C06: a non-finite result must raise Overflow");
    }
    c06(&r);
    reach!(z == 2.5);
    reach!(z < -1.0e30);
    std::mem::forget(r);
});

//# harness finding_f14_multiply_single_integer tier=quick label=complete props=C06 fn=rusty_variant/src/variant.rs::Variant::multiply expect=finding:F14
harness!(finding_f14_multiply_single_integer, 1, {
    let a = vs::f32();
    vs::assume(a.is_finite());
    let b = vs::i32();
    vs::assume(b >= -32768 && b <= 32767);
    let x = a as f32;
    let y = b as f32;
    let z = x * y; // IEEE-754 operation in the wider operand format
    vs::assume(!z.is_finite());
    let r = Variant::VSingle(a).multiply(Variant::VInteger(b));
    assert!(is_ovf(&r), "C06: a non-finite result must raise Overflow, not be stored");
    std::mem::forget(r);
});

//# harness multiply_single_long tier=quick label=complete props=C01,C06 fn=rusty_variant/src/variant.rs::Variant::multiply solver=cvc5
harness_cvc5!(multiply_single_long, 1, {
    let a = vs::f32();
    vs::assume(a.is_finite());
    let b = vs::i64();
    vs::assume(b >= -2147483648 && b <= 2147483647);
    let x = a as f32;
    let y = b as f32;
    let z = x * y; // IEEE-754 operation in the wider operand format
    if KF_F14 {
        vs::assume(z.is_finite());
    }
    let r = Variant::VSingle(a).multiply(Variant::VLong(b));
    if z.is_finite() {
        assert!(is_single(&r, z), "C01: not the IEEE-754 result in the wider operand format");
    } else {
        assert!(is_ovf(&r), "C06: a non-finite result must raise Overflow");
    }
    c06(&r);
    reach!(z == 2.5);
    reach!(z < -1.0e30);
    std::mem::forget(r);
});

//# harness finding_f14_multiply_single_long tier=quick label=complete props=C06 fn=rusty_variant/src/variant.rs::Variant::multiply expect=finding:F14
harness!(finding_f14_multiply_single_long, 1, {
    let a = vs::f32();
    vs::assume(a.is_finite());
    let b = vs::i64();
    vs::assume(b >= -2147483648 && b <= 2147483647);
    let x = a as f32;
    let y = b as f32;
    let z = x * y; // IEEE-754 operation in the wider operand format
    vs::assume(!z.is_finite());
    let r = Variant::VSingle(a).multiply(Variant::VLong(b));
    assert!(is_ovf(&r), "C06: a non-finite result must raise Overflow, not be stored");
    std::mem::forget(r);
});

//# harness multiply_single_single tier=quick label=complete props=C01,C06 fn=rusty_variant/src/variant.rs::Variant::multiply solver=cvc5
harness_cvc5!(multiply_single_single, 1, {
    let a = vs::f32();
    vs::assume(a.is_finite());
    let b = vs::f32();
    vs::assume(b.is_finite());
    let x = a as f32;
    let y = b as f32;
    let z = x * y; // IEEE-754 operation in the wider operand format
    if KF_F14 {
        vs::assume(z.is_finite());
    }
    let r = Variant::VSingle(a).multiply(Variant::VSingle(b));
    if z.is_finite() {
        assert!(is_single(&r, z), "C01: not the IEEE-754 result in the wider operand format");
    } else {
        assert!(is_ovf(&r), "C06: a non-finite result must raise Overflow");
    }
    c06(&r);
    reach!(z == 2.5);
    reach!(z < -1.0e30);
    std::mem::forget(r);
});

//# harness finding_f14_multiply_single_single tier=quick label=complete props=C06 fn=rusty_variant/src/variant.rs::Variant::multiply expect=finding:F14
harness!(finding_f14_multiply_single_single, 1, {
    let a = vs::f32();
    vs::assume(a.is_finite());
    let b = vs::f32();
    vs::assume(b.is_finite());
    let x = a as f32;
    let y = b as f32;
    let z = x * y; // IEEE-754 operation in the wider operand format
    vs::assume(!z.is_finite());
    let r = Variant::VSingle(a).multiply(Variant::VSingle(b));
    assert!(is_ovf(&r), "C06: a non-finite result must raise Overflow, not be stored");
    std::mem::forget(r);
});

//# harness multiply_single_double tier=thorough label=complete props=C01,C06 fn=rusty_variant/src/variant.rs::Variant::multiply timeout=1800 attempt=1
harness!(multiply_single_double, 1, {
    let a = vs::f32();
    vs::assume(a.is_finite());
    let b = vs::f64();
    vs::assume(b.is_finite());
    let x = a as f64;
    let y = b as f64;
    let z = x * y; // IEEE-754 operation in the wider operand format
    if KF_F14 {
        vs::assume(z.is_finite());
    }
    let r = Variant::VSingle(a).multiply(Variant::VDouble(b));
    if z.is_finite() {
        assert!(is_double(&r, z), "C01: not the IEEE-754 result in the wider operand format");
    } else {
        assert!(is_ovf(&r), "C06: a non-finite result must raise Overflow");
    }
    c06(&r);
    reach!(z == 2.5);
    reach!(z < -1.0e30);
    std::mem::forget(r);
});

//# harness finding_f14_multiply_single_double tier=quick label=complete props=C06 fn=rusty_variant/src/variant.rs::Variant::multiply expect=finding:F14
harness!(finding_f14_multiply_single_double, 1, {
    let a = vs::f32();
    vs::assume(a.is_finite());
    let b = vs::f64();
    vs::assume(b.is_finite());
    let x = a as f64;
    let y = b as f64;
    let z = x * y; // IEEE-754 operation in the wider operand format
    vs::assume(!z.is_finite());
    let r = Variant::VSingle(a).multiply(Variant::VDouble(b));
    assert!(is_ovf(&r), "C06: a non-finite result must raise Overflow, not be stored");
    std::mem::forget(r);
});

//# harness multiply_double_integer tier=thorough label=complete props=C01,C06 fn=rusty_variant/src/variant.rs::Variant::multiply timeout=1800 attempt=1
harness!(multiply_double_integer, 1, {
    let a = vs::f64();
    vs::assume(a.is_finite());
    let b = vs::i32();
    vs::assume(b >= -32768 && b <= 32767);
    let x = a as f64;
    let y = b as f64;
    let z = x * y; // IEEE-754 operation in the wider operand format
    if KF_F14 {
        vs::assume(z.is_finite());
    }
    let r = Variant::VDouble(a).multiply(Variant::VInteger(b));
    if z.is_finite() {
        assert!(is_double(&r, z), "C01: not the IEEE-754 result in the wider operand format");
    } else {
        assert!(is_ovf(&r), "C06: a non-finite result must raise Overflow");
    }
    c06(&r);
    reach!(z == 2.5);
    reach!(z < -1.0e30);
    std::mem::forget(r);
});

//# harness finding_f14_multiply_double_integer tier=quick label=complete props=C06 fn=rusty_variant/src/variant.rs::Variant::multiply expect=finding:F14
harness!(finding_f14_multiply_double_integer, 1, {
    let a = vs::f64();
    vs::assume(a.is_finite());
    let b = vs::i32();
    vs::assume(b >= -32768 && b <= 32767);
    let x = a as f64;
    let y = b as f64;
    let z = x * y; // IEEE-754 operation in the wider operand format
    vs::assume(!z.is_finite());
    let r = Variant::VDouble(a).multiply(Variant::VInteger(b));
    assert!(is_ovf(&r), "C06: a non-finite result must raise Overflow, not be stored");
    std::mem::forget(r);
});

//# harness multiply_double_long tier=thorough label=complete props=C01,C06 fn=rusty_variant/src/variant.rs::Variant::multiply timeout=1800 attempt=1
harness!(multiply_double_long, 1, {
    let a = vs::f64();
    vs::assume(a.is_finite());
    let b = vs::i64();
    vs::assume(b >= -2147483648 && b <= 2147483647);
    let x = a as f64;
    let y = b as f64;
    let z = x * y; // IEEE-754 operation in the wider operand format
    if KF_F14 {
        vs::assume(z.is_finite());
    }
    let r = Variant::VDouble(a).multiply(Variant::VLong(b));
    if z.is_finite() {
        assert!(is_double(&r, z), "C01: not the IEEE-754 result in the wider operand format");
    } else {
        assert!(is_ovf(&r), "C06: a non-finite result must raise Overflow");
    }
    c06(&r);
    reach!(z == 2.5);
    reach!(z < -1.0e30);
    std::mem::forget(r);
});

//# harness finding_f14_multiply_double_long tier=quick label=complete props=C06 fn=rusty_variant/src/variant.rs::Variant::multiply expect=finding:F14
harness!(finding_f14_multiply_double_long, 1, {
    let a = vs::f64();
    vs::assume(a.is_finite());
    let b = vs::i64();
    vs::assume(b >= -2147483648 && b <= 2147483647);
    let x = a as f64;
    let y = b as f64;
    let z = x * y; // IEEE-754 operation in the wider operand format
    vs::assume(!z.is_finite());
    let r = Variant::VDouble(a).multiply(Variant::VLong(b));
    assert!(is_ovf(&r), "C06: a non-finite result must raise Overflow, not be stored");
    std::mem::forget(r);
});

//# harness multiply_double_single tier=thorough label=complete props=C01,C06 fn=rusty_variant/src/variant.rs::Variant::multiply timeout=1800 attempt=1
harness!(multiply_double_single, 1, {
    let a = vs::f64();
    vs::assume(a.is_finite());
    let b = vs::f32();
    vs::assume(b.is_finite());
    let x = a as f64;
    let y = b as f64;
    let z = y * x; // IEEE-754 product (commutative) in the wider operand format
    if KF_F14 {
        vs::assume(z.is_finite());
    }
    let r = Variant::VDouble(a).multiply(Variant::VSingle(b));
    if z.is_finite() {
        assert!(is_double(&r, z), "C01: not the IEEE-754 result in the wider operand format");
    } else {
        assert!(is_ovf(&r), "C06: a non-finite result must raise Overflow");
    }
    c06(&r);
    reach!(z == 2.5);
    reach!(z < -1.0e30);
    std::mem::forget(r);
});

//# harness finding_f14_multiply_double_single tier=quick label=complete props=C06 fn=rusty_variant/src/variant.rs::Variant::multiply expect=finding:F14
harness!(finding_f14_multiply_double_single, 1, {
    let a = vs::f64();
    vs::assume(a.is_finite());
    let b = vs::f32();
    vs::assume(b.is_finite());
    let x = a as f64;
    let y = b as f64;
    let z = y * x; // IEEE-754 product (commutative) in the wider operand format
    vs::assume(!z.is_finite());
    let r = Variant::VDouble(a).multiply(Variant::VSingle(b));
    assert!(is_ovf(&r), "C06: a non-finite result must raise Overflow, not be stored");
    std::mem::forget(r);
});

//# harness multiply_double_double tier=thorough label=complete props=C01,C06 fn=rusty_variant/src/variant.rs::Variant::multiply timeout=1800 attempt=1
harness!(multiply_double_double, 1, {
    let a = vs::f64();
    vs::assume(a.is_finite());
    let b = vs::f64();
    vs::assume(b.is_finite());
    let x = a as f64;
    let y = b as f64;
    let z = x * y; // IEEE-754 operation in the wider operand format
    if KF_F14 {
        vs::assume(z.is_finite());
    }
    let r = Variant::VDouble(a).multiply(Variant::VDouble(b));
    if z.is_finite() {
        assert!(is_double(&r, z), "C01: not the IEEE-754 result in the wider operand format");
    } else {
        assert!(is_ovf(&r), "C06: a non-finite result must raise Overflow");
    }
    c06(&r);
    reach!(z == 2.5);
    reach!(z < -1.0e30);
    std::mem::forget(r);
});

//# harness finding_f14_multiply_double_double tier=quick label=complete props=C06 fn=rusty_variant/src/variant.rs::Variant::multiply expect=finding:F14
harness!(finding_f14_multiply_double_double, 1, {
    let a = vs::f64();
    vs::assume(a.is_finite());
    let b = vs::f64();
    vs::assume(b.is_finite());
    let x = a as f64;
    let y = b as f64;
    let z = x * y; // IEEE-754 operation in the wider operand format
    vs::assume(!z.is_finite());
    let r = Variant::VDouble(a).multiply(Variant::VDouble(b));
    assert!(is_ovf(&r), "C06: a non-finite result must raise Overflow, not be stored");
    std::mem::forget(r);
});

// ---------------------------------------------------------------------------------------------
// divide

//# harness divide_integer_integer tier=thorough label=complete props=C01,C06 fn=rusty_variant/src/variant.rs::Variant::divide timeout=1800 attempt=1
harness!(divide_integer_integer, 1, {
    let a = vs::i32();
    vs::assume(a >= -32768 && a <= 32767);
    let b = vs::i32();
    vs::assume(b >= -32768 && b <= 32767);
    let x = a as f32;
    let y = b as f32;
    let q = if b == 0 { 0.0 } else { x / y }; // IEEE-754 quotient
    if KF_F26 {
        vs::assume(q.is_finite()); // a non-finite quotient: finding F26
    }
    let d = if q.is_finite() { (q - q.round()).abs() } else { 1.0 }; // distance to the nearest whole number (used by the F26 carve-out only)
    if KF_F26 {
        vs::assume(b == 0 || d > 0.0001 || (d == 0.0 && q.abs() < 9.2e18));
    }
    let r = Variant::VInteger(a).divide(Variant::VInteger(b));
    if b == 0 {
        assert!(is_dz(&r), "C01: a zero divisor must raise Division by zero");
    } else {
        assert!(!is_dz(&r), "C01: Division by zero although the divisor is not zero");
        if q.is_finite() {
            assert!(matches!(&r, Ok(v) if exact(v) == q as f64), "C01: not the IEEE-754 quotient");
        } else {
            assert!(is_ovf(&r), "C06: a quotient that is not finite must raise Overflow");
        }
    }
    c06(&r);
    reach!(q == 3.5);
    reach!(is_dz(&r));
    reach!(matches!(&r, Ok(Variant::VInteger(_))));
    std::mem::forget(r);
});

//# harness divide_integer_integer_valid tier=quick label=complete props=C01,C06 fn=rusty_variant/src/variant.rs::Variant::divide
harness!(divide_integer_integer_valid, 1, {
    let a = vs::i32();
    vs::assume(a >= -32768 && a <= 32767);
    let b = vs::i32();
    vs::assume(b >= -32768 && b <= 32767);
    let r = Variant::VInteger(a).divide(Variant::VInteger(b));
    c06(&r);
    assert!(is_dz(&r) == (b == 0), "C01: Division by zero exactly when the divisor is exactly zero");
    reach!(matches!(&r, Ok(Variant::VInteger(_))));
    reach!(matches!(&r, Ok(Variant::VSingle(_)) | Ok(Variant::VDouble(_))));
    reach!(is_dz(&r));
    std::mem::forget(r);
});

//# harness divide_integer_long tier=thorough label=complete props=C01,C06 fn=rusty_variant/src/variant.rs::Variant::divide timeout=1800 attempt=1
harness!(divide_integer_long, 1, {
    let a = vs::i32();
    vs::assume(a >= -32768 && a <= 32767);
    let b = vs::i64();
    vs::assume(b >= -2147483648 && b <= 2147483647);
    let x = a as f64;
    let y = b as f64;
    let q = if b == 0 { 0.0 } else { x / y }; // IEEE-754 quotient
    if KF_F26 {
        vs::assume(q.is_finite()); // a non-finite quotient: finding F26
    }
    let d = if q.is_finite() { (q - q.round()).abs() } else { 1.0 }; // distance to the nearest whole number (used by the F26 carve-out only)
    if KF_F19 {
        vs::assume(b >= -TWO24 && b <= TWO24);
    }
    if KF_F26 {
        vs::assume(b == 0 || d > 0.0001 || (d == 0.0 && q.abs() < 9.2e18));
    }
    let r = Variant::VInteger(a).divide(Variant::VLong(b));
    if b == 0 {
        assert!(is_dz(&r), "C01: a zero divisor must raise Division by zero");
    } else {
        assert!(!is_dz(&r), "C01: Division by zero although the divisor is not zero");
        if q.is_finite() {
            assert!(matches!(&r, Ok(v) if exact(v) == q as f64), "C01: not the IEEE-754 quotient");
        } else {
            assert!(is_ovf(&r), "C06: a quotient that is not finite must raise Overflow");
        }
    }
    c06(&r);
    reach!(q == 3.5);
    reach!(is_dz(&r));
    reach!(matches!(&r, Ok(Variant::VInteger(_))));
    std::mem::forget(r);
});

//# harness divide_integer_long_valid tier=quick label=complete props=C01,C06 fn=rusty_variant/src/variant.rs::Variant::divide
harness!(divide_integer_long_valid, 1, {
    let a = vs::i32();
    vs::assume(a >= -32768 && a <= 32767);
    let b = vs::i64();
    vs::assume(b >= -2147483648 && b <= 2147483647);
    let r = Variant::VInteger(a).divide(Variant::VLong(b));
    c06(&r);
    assert!(is_dz(&r) == (b == 0), "C01: Division by zero exactly when the divisor is exactly zero");
    reach!(matches!(&r, Ok(Variant::VInteger(_))));
    reach!(matches!(&r, Ok(Variant::VSingle(_)) | Ok(Variant::VDouble(_))));
    reach!(is_dz(&r));
    std::mem::forget(r);
});

//# harness divide_integer_single tier=thorough label=complete props=C01,C06 fn=rusty_variant/src/variant.rs::Variant::divide timeout=1800 attempt=1
harness!(divide_integer_single, 1, {
    let a = vs::i32();
    vs::assume(a >= -32768 && a <= 32767);
    let b = vs::f32();
    vs::assume(b.is_finite());
    let x = a as f32;
    let y = b as f32;
    let q = if b == 0.0 { 0.0 } else { x / y }; // IEEE-754 quotient
    if KF_F26 {
        vs::assume(q.is_finite()); // a non-finite quotient: finding F26
    }
    let d = if q.is_finite() { (q - q.round()).abs() } else { 1.0 }; // distance to the nearest whole number (used by the F26 carve-out only)
    if KF_F17 {
        vs::assume(b == 0.0 || b.abs() >= 0.00001);
    }
    if KF_F26 {
        vs::assume(b == 0.0 || d > 0.0001 || (d == 0.0 && q.abs() < 9.2e18));
    }
    let r = Variant::VInteger(a).divide(Variant::VSingle(b));
    if b == 0.0 {
        assert!(is_dz(&r), "C01: a zero divisor must raise Division by zero");
    } else {
        assert!(!is_dz(&r), "C01: Division by zero although the divisor is not zero");
        if q.is_finite() {
            assert!(matches!(&r, Ok(v) if exact(v) == q as f64), "C01: not the IEEE-754 quotient");
        } else {
            assert!(is_ovf(&r), "C06: a quotient that is not finite must raise Overflow");
        }
    }
    c06(&r);
    reach!(q == 3.5);
    reach!(is_dz(&r));
    reach!(matches!(&r, Ok(Variant::VInteger(_))));
    std::mem::forget(r);
});

//# harness divide_integer_single_valid tier=quick label=complete props=C01,C06 fn=rusty_variant/src/variant.rs::Variant::divide
harness!(divide_integer_single_valid, 1, {
    let a = vs::i32();
    vs::assume(a >= -32768 && a <= 32767);
    let b = vs::f32();
    vs::assume(b.is_finite());
    if KF_F17 {
        vs::assume(b == 0.0 || b.abs() >= 0.00001);
    }
    let r = Variant::VInteger(a).divide(Variant::VSingle(b));
    c06(&r);
    assert!(is_dz(&r) == (b == 0.0), "C01: Division by zero exactly when the divisor is exactly zero");
    reach!(matches!(&r, Ok(Variant::VInteger(_))));
    reach!(matches!(&r, Ok(Variant::VSingle(_)) | Ok(Variant::VDouble(_))));
    reach!(is_dz(&r));
    std::mem::forget(r);
});

//# harness divide_integer_double tier=thorough label=complete props=C01,C06 fn=rusty_variant/src/variant.rs::Variant::divide timeout=1800 attempt=1
harness!(divide_integer_double, 1, {
    let a = vs::i32();
    vs::assume(a >= -32768 && a <= 32767);
    let b = vs::f64();
    vs::assume(b.is_finite());
    let x = a as f64;
    let y = b as f64;
    let q = if b == 0.0 { 0.0 } else { x / y }; // IEEE-754 quotient
    if KF_F26 {
        vs::assume(q.is_finite()); // a non-finite quotient: finding F26
    }
    let d = if q.is_finite() { (q - q.round()).abs() } else { 1.0 }; // distance to the nearest whole number (used by the F26 carve-out only)
    if KF_F17 {
        vs::assume(b == 0.0 || b.abs() >= 0.00001);
    }
    if KF_F26 {
        vs::assume(b == 0.0 || d > 0.0001 || (d == 0.0 && q.abs() < 9.2e18));
    }
    let r = Variant::VInteger(a).divide(Variant::VDouble(b));
    if b == 0.0 {
        assert!(is_dz(&r), "C01: a zero divisor must raise Division by zero");
    } else {
        assert!(!is_dz(&r), "C01: Division by zero although the divisor is not zero");
        if q.is_finite() {
            assert!(matches!(&r, Ok(v) if exact(v) == q as f64), "C01: not the IEEE-754 quotient");
        } else {
            assert!(is_ovf(&r), "C06: a quotient that is not finite must raise Overflow");
        }
    }
    c06(&r);
    reach!(q == 3.5);
    reach!(is_dz(&r));
    reach!(matches!(&r, Ok(Variant::VInteger(_))));
    std::mem::forget(r);
});

//# harness divide_integer_double_valid tier=quick label=complete props=C01,C06 fn=rusty_variant/src/variant.rs::Variant::divide
harness!(divide_integer_double_valid, 1, {
    let a = vs::i32();
    vs::assume(a >= -32768 && a <= 32767);
    let b = vs::f64();
    vs::assume(b.is_finite());
    if KF_F17 {
        vs::assume(b == 0.0 || b.abs() >= 0.00001);
    }
    let r = Variant::VInteger(a).divide(Variant::VDouble(b));
    c06(&r);
    assert!(is_dz(&r) == (b == 0.0), "C01: Division by zero exactly when the divisor is exactly zero");
    reach!(matches!(&r, Ok(Variant::VInteger(_))));
    reach!(matches!(&r, Ok(Variant::VSingle(_)) | Ok(Variant::VDouble(_))));
    reach!(is_dz(&r));
    std::mem::forget(r);
});

//# harness divide_long_integer tier=thorough label=complete props=C01,C06 fn=rusty_variant/src/variant.rs::Variant::divide timeout=1800 attempt=1
harness!(divide_long_integer, 1, {
    let a = vs::i64();
    vs::assume(a >= -2147483648 && a <= 2147483647);
    let b = vs::i32();
    vs::assume(b >= -32768 && b <= 32767);
    let x = a as f64;
    let y = b as f64;
    let q = if b == 0 { 0.0 } else { x / y }; // IEEE-754 quotient
    if KF_F26 {
        vs::assume(q.is_finite()); // a non-finite quotient: finding F26
    }
    let d = if q.is_finite() { (q - q.round()).abs() } else { 1.0 }; // distance to the nearest whole number (used by the F26 carve-out only)
    if KF_F19 {
        vs::assume(a >= -TWO24 && a <= TWO24);
    }
    if KF_F26 {
        vs::assume(b == 0 || d > 0.0001 || (d == 0.0 && q.abs() < 9.2e18));
    }
    let r = Variant::VLong(a).divide(Variant::VInteger(b));
    if b == 0 {
        assert!(is_dz(&r), "C01: a zero divisor must raise Division by zero");
    } else {
        assert!(!is_dz(&r), "C01: Division by zero although the divisor is not zero");
        if q.is_finite() {
            assert!(matches!(&r, Ok(v) if exact(v) == q as f64), "C01: not the IEEE-754 quotient");
        } else {
            assert!(is_ovf(&r), "C06: a quotient that is not finite must raise Overflow");
        }
    }
    c06(&r);
    reach!(q == 3.5);
    reach!(is_dz(&r));
    reach!(matches!(&r, Ok(Variant::VInteger(_))));
    std::mem::forget(r);
});

//# harness divide_long_integer_valid tier=quick label=complete props=C01,C06 fn=rusty_variant/src/variant.rs::Variant::divide
harness!(divide_long_integer_valid, 1, {
    let a = vs::i64();
    vs::assume(a >= -2147483648 && a <= 2147483647);
    let b = vs::i32();
    vs::assume(b >= -32768 && b <= 32767);
    let r = Variant::VLong(a).divide(Variant::VInteger(b));
    c06(&r);
    assert!(is_dz(&r) == (b == 0), "C01: Division by zero exactly when the divisor is exactly zero");
    reach!(matches!(&r, Ok(Variant::VInteger(_))));
    reach!(matches!(&r, Ok(Variant::VSingle(_)) | Ok(Variant::VDouble(_))));
    reach!(is_dz(&r));
    std::mem::forget(r);
});

//# harness divide_long_long tier=thorough label=complete props=C01,C06 fn=rusty_variant/src/variant.rs::Variant::divide timeout=1800 attempt=1
harness!(divide_long_long, 1, {
    let a = vs::i64();
    vs::assume(a >= -2147483648 && a <= 2147483647);
    let b = vs::i64();
    vs::assume(b >= -2147483648 && b <= 2147483647);
    let x = a as f64;
    let y = b as f64;
    let q = if b == 0 { 0.0 } else { x / y }; // IEEE-754 quotient
    if KF_F26 {
        vs::assume(q.is_finite()); // a non-finite quotient: finding F26
    }
    let d = if q.is_finite() { (q - q.round()).abs() } else { 1.0 }; // distance to the nearest whole number (used by the F26 carve-out only)
    if KF_F19 {
        vs::assume(a >= -TWO24 && a <= TWO24 && b >= -TWO24 && b <= TWO24);
    }
    if KF_F26 {
        vs::assume(b == 0 || d > 0.0001 || (d == 0.0 && q.abs() < 9.2e18));
    }
    let r = Variant::VLong(a).divide(Variant::VLong(b));
    if b == 0 {
        assert!(is_dz(&r), "C01: a zero divisor must raise Division by zero");
    } else {
        assert!(!is_dz(&r), "C01: Division by zero although the divisor is not zero");
        if q.is_finite() {
            assert!(matches!(&r, Ok(v) if exact(v) == q as f64), "C01: not the IEEE-754 quotient");
        } else {
            assert!(is_ovf(&r), "C06: a quotient that is not finite must raise Overflow");
        }
    }
    c06(&r);
    reach!(q == 3.5);
    reach!(is_dz(&r));
    reach!(matches!(&r, Ok(Variant::VInteger(_))));
    std::mem::forget(r);
});

//# harness divide_long_long_valid tier=quick label=complete props=C01,C06 fn=rusty_variant/src/variant.rs::Variant::divide
harness!(divide_long_long_valid, 1, {
    let a = vs::i64();
    vs::assume(a >= -2147483648 && a <= 2147483647);
    let b = vs::i64();
    vs::assume(b >= -2147483648 && b <= 2147483647);
    let r = Variant::VLong(a).divide(Variant::VLong(b));
    c06(&r);
    assert!(is_dz(&r) == (b == 0), "C01: Division by zero exactly when the divisor is exactly zero");
    reach!(matches!(&r, Ok(Variant::VInteger(_))));
    reach!(matches!(&r, Ok(Variant::VSingle(_)) | Ok(Variant::VDouble(_))));
    reach!(is_dz(&r));
    std::mem::forget(r);
});

//# harness divide_long_single tier=thorough label=complete props=C01,C06 fn=rusty_variant/src/variant.rs::Variant::divide timeout=1800 attempt=1
harness!(divide_long_single, 1, {
    let a = vs::i64();
    vs::assume(a >= -2147483648 && a <= 2147483647);
    let b = vs::f32();
    vs::assume(b.is_finite());
    let x = a as f32;
    let y = b as f32;
    let q = if b == 0.0 { 0.0 } else { x / y }; // IEEE-754 quotient
    if KF_F26 {
        vs::assume(q.is_finite()); // a non-finite quotient: finding F26
    }
    let d = if q.is_finite() { (q - q.round()).abs() } else { 1.0 }; // distance to the nearest whole number (used by the F26 carve-out only)
    if KF_F19 {
        vs::assume(a >= -TWO24 && a <= TWO24);
    }
    if KF_F17 {
        vs::assume(b == 0.0 || b.abs() >= 0.00001);
    }
    if KF_F26 {
        vs::assume(b == 0.0 || d > 0.0001 || (d == 0.0 && q.abs() < 9.2e18));
    }
    let r = Variant::VLong(a).divide(Variant::VSingle(b));
    if b == 0.0 {
        assert!(is_dz(&r), "C01: a zero divisor must raise Division by zero");
    } else {
        assert!(!is_dz(&r), "C01: Division by zero although the divisor is not zero");
        if q.is_finite() {
            assert!(matches!(&r, Ok(v) if exact(v) == q as f64), "C01: not the IEEE-754 quotient");
        } else {
            assert!(is_ovf(&r), "C06: a quotient that is not finite must raise Overflow");
        }
    }
    c06(&r);
    reach!(q == 3.5);
    reach!(is_dz(&r));
    reach!(matches!(&r, Ok(Variant::VInteger(_))));
    std::mem::forget(r);
});

//# harness divide_long_single_valid tier=quick label=complete props=C01,C06 fn=rusty_variant/src/variant.rs::Variant::divide
harness!(divide_long_single_valid, 1, {
    let a = vs::i64();
    vs::assume(a >= -2147483648 && a <= 2147483647);
    let b = vs::f32();
    vs::assume(b.is_finite());
    if KF_F17 {
        vs::assume(b == 0.0 || b.abs() >= 0.00001);
    }
    let r = Variant::VLong(a).divide(Variant::VSingle(b));
    c06(&r);
    assert!(is_dz(&r) == (b == 0.0), "C01: Division by zero exactly when the divisor is exactly zero");
    reach!(matches!(&r, Ok(Variant::VInteger(_))));
    reach!(matches!(&r, Ok(Variant::VSingle(_)) | Ok(Variant::VDouble(_))));
    reach!(is_dz(&r));
    std::mem::forget(r);
});

//# harness divide_long_double tier=thorough label=complete props=C01,C06 fn=rusty_variant/src/variant.rs::Variant::divide timeout=1800 attempt=1
harness!(divide_long_double, 1, {
    let a = vs::i64();
    vs::assume(a >= -2147483648 && a <= 2147483647);
    let b = vs::f64();
    vs::assume(b.is_finite());
    let x = a as f64;
    let y = b as f64;
    let q = if b == 0.0 { 0.0 } else { x / y }; // IEEE-754 quotient
    if KF_F26 {
        vs::assume(q.is_finite()); // a non-finite quotient: finding F26
    }
    let d = if q.is_finite() { (q - q.round()).abs() } else { 1.0 }; // distance to the nearest whole number (used by the F26 carve-out only)
    if KF_F17 {
        vs::assume(b == 0.0 || b.abs() >= 0.00001);
    }
    if KF_F26 {
        vs::assume(b == 0.0 || d > 0.0001 || (d == 0.0 && q.abs() < 9.2e18));
    }
    let r = Variant::VLong(a).divide(Variant::VDouble(b));
    if b == 0.0 {
        assert!(is_dz(&r), "C01: a zero divisor must raise Division by zero");
    } else {
        assert!(!is_dz(&r), "C01: Division by zero although the divisor is not zero");
        if q.is_finite() {
            assert!(matches!(&r, Ok(v) if exact(v) == q as f64), "C01: not the IEEE-754 quotient");
        } else {
            assert!(is_ovf(&r), "C06: a quotient that is not finite must raise Overflow");
        }
    }
    c06(&r);
    reach!(q == 3.5);
    reach!(is_dz(&r));
    reach!(matches!(&r, Ok(Variant::VInteger(_))));
    std::mem::forget(r);
});

//# harness divide_long_double_valid tier=quick label=complete props=C01,C06 fn=rusty_variant/src/variant.rs::Variant::divide
harness!(divide_long_double_valid, 1, {
    let a = vs::i64();
    vs::assume(a >= -2147483648 && a <= 2147483647);
    let b = vs::f64();
    vs::assume(b.is_finite());
    if KF_F17 {
        vs::assume(b == 0.0 || b.abs() >= 0.00001);
    }
    let r = Variant::VLong(a).divide(Variant::VDouble(b));
    c06(&r);
    assert!(is_dz(&r) == (b == 0.0), "C01: Division by zero exactly when the divisor is exactly zero");
    reach!(matches!(&r, Ok(Variant::VInteger(_))));
    reach!(matches!(&r, Ok(Variant::VSingle(_)) | Ok(Variant::VDouble(_))));
    reach!(is_dz(&r));
    std::mem::forget(r);
});

//# harness divide_single_integer tier=thorough label=complete props=C01,C06 fn=rusty_variant/src/variant.rs::Variant::divide timeout=1800 attempt=1
harness!(divide_single_integer, 1, {
    let a = vs::f32();
    vs::assume(a.is_finite());
    let b = vs::i32();
    vs::assume(b >= -32768 && b <= 32767);
    let x = a as f32;
    let y = b as f32;
    let q = if b == 0 { 0.0 } else { x / y }; // IEEE-754 quotient
    if KF_F26 {
        vs::assume(q.is_finite()); // a non-finite quotient: finding F26
    }
    let d = if q.is_finite() { (q - q.round()).abs() } else { 1.0 }; // distance to the nearest whole number (used by the F26 carve-out only)
    if KF_F26 {
        vs::assume(b == 0 || d > 0.0001 || (d == 0.0 && q.abs() < 9.2e18));
    }
    let r = Variant::VSingle(a).divide(Variant::VInteger(b));
    if b == 0 {
        assert!(is_dz(&r), "C01: a zero divisor must raise Division by zero");
    } else {
        assert!(!is_dz(&r), "C01: Division by zero although the divisor is not zero");
        if q.is_finite() {
            assert!(matches!(&r, Ok(v) if exact(v) == q as f64), "C01: not the IEEE-754 quotient");
        } else {
            assert!(is_ovf(&r), "C06: a quotient that is not finite must raise Overflow");
        }
    }
    c06(&r);
    reach!(q == 3.5);
    reach!(is_dz(&r));
    reach!(matches!(&r, Ok(Variant::VInteger(_))));
    std::mem::forget(r);
});

//# harness divide_single_integer_valid tier=quick label=complete props=C01,C06 fn=rusty_variant/src/variant.rs::Variant::divide
harness!(divide_single_integer_valid, 1, {
    let a = vs::f32();
    vs::assume(a.is_finite());
    let b = vs::i32();
    vs::assume(b >= -32768 && b <= 32767);
    let r = Variant::VSingle(a).divide(Variant::VInteger(b));
    c06(&r);
    assert!(is_dz(&r) == (b == 0), "C01: Division by zero exactly when the divisor is exactly zero");
    reach!(matches!(&r, Ok(Variant::VInteger(_))));
    reach!(matches!(&r, Ok(Variant::VSingle(_)) | Ok(Variant::VDouble(_))));
    reach!(is_dz(&r));
    std::mem::forget(r);
});

//# harness divide_single_long tier=thorough label=complete props=C01,C06 fn=rusty_variant/src/variant.rs::Variant::divide timeout=1800 attempt=1
harness!(divide_single_long, 1, {
    let a = vs::f32();
    vs::assume(a.is_finite());
    let b = vs::i64();
    vs::assume(b >= -2147483648 && b <= 2147483647);
    let x = a as f32;
    let y = b as f32;
    let q = if b == 0 { 0.0 } else { x / y }; // IEEE-754 quotient
    if KF_F26 {
        vs::assume(q.is_finite()); // a non-finite quotient: finding F26
    }
    let d = if q.is_finite() { (q - q.round()).abs() } else { 1.0 }; // distance to the nearest whole number (used by the F26 carve-out only)
    if KF_F19 {
        vs::assume(b >= -TWO24 && b <= TWO24);
    }
    if KF_F26 {
        vs::assume(b == 0 || d > 0.0001 || (d == 0.0 && q.abs() < 9.2e18));
    }
    let r = Variant::VSingle(a).divide(Variant::VLong(b));
    if b == 0 {
        assert!(is_dz(&r), "C01: a zero divisor must raise Division by zero");
    } else {
        assert!(!is_dz(&r), "C01: Division by zero although the divisor is not zero");
        if q.is_finite() {
            assert!(matches!(&r, Ok(v) if exact(v) == q as f64), "C01: not the IEEE-754 quotient");
        } else {
            assert!(is_ovf(&r), "C06: a quotient that is not finite must raise Overflow");
        }
    }
    c06(&r);
    reach!(q == 3.5);
    reach!(is_dz(&r));
    reach!(matches!(&r, Ok(Variant::VInteger(_))));
    std::mem::forget(r);
});

//# harness divide_single_long_valid tier=quick label=complete props=C01,C06 fn=rusty_variant/src/variant.rs::Variant::divide
harness!(divide_single_long_valid, 1, {
    let a = vs::f32();
    vs::assume(a.is_finite());
    let b = vs::i64();
    vs::assume(b >= -2147483648 && b <= 2147483647);
    let r = Variant::VSingle(a).divide(Variant::VLong(b));
    c06(&r);
    assert!(is_dz(&r) == (b == 0), "C01: Division by zero exactly when the divisor is exactly zero");
    reach!(matches!(&r, Ok(Variant::VInteger(_))));
    reach!(matches!(&r, Ok(Variant::VSingle(_)) | Ok(Variant::VDouble(_))));
    reach!(is_dz(&r));
    std::mem::forget(r);
});

//# harness divide_single_single tier=thorough label=complete props=C01,C06 fn=rusty_variant/src/variant.rs::Variant::divide timeout=1800 attempt=1
harness!(divide_single_single, 1, {
    let a = vs::f32();
    vs::assume(a.is_finite());
    let b = vs::f32();
    vs::assume(b.is_finite());
    let x = a as f32;
    let y = b as f32;
    let q = if b == 0.0 { 0.0 } else { x / y }; // IEEE-754 quotient
    if KF_F26 {
        vs::assume(q.is_finite()); // a non-finite quotient: finding F26
    }
    let d = if q.is_finite() { (q - q.round()).abs() } else { 1.0 }; // distance to the nearest whole number (used by the F26 carve-out only)
    if KF_F17 {
        vs::assume(b == 0.0 || b.abs() >= 0.00001);
    }
    if KF_F26 {
        vs::assume(b == 0.0 || d > 0.0001 || (d == 0.0 && q.abs() < 9.2e18));
    }
    let r = Variant::VSingle(a).divide(Variant::VSingle(b));
    if b == 0.0 {
        assert!(is_dz(&r), "C01: a zero divisor must raise Division by zero");
    } else {
        assert!(!is_dz(&r), "C01: Division by zero although the divisor is not zero");
        if q.is_finite() {
            assert!(matches!(&r, Ok(v) if exact(v) == q as f64), "C01: not the IEEE-754 quotient");
        } else {
            assert!(is_ovf(&r), "C06: a quotient that is not finite must raise Overflow");
        }
    }
    c06(&r);
    reach!(q == 3.5);
    reach!(is_dz(&r));
    reach!(matches!(&r, Ok(Variant::VInteger(_))));
    std::mem::forget(r);
});

//# harness divide_single_single_valid tier=quick label=complete props=C01,C06 fn=rusty_variant/src/variant.rs::Variant::divide
harness!(divide_single_single_valid, 1, {
    let a = vs::f32();
    vs::assume(a.is_finite());
    let b = vs::f32();
    vs::assume(b.is_finite());
    if KF_F26 {
        vs::assume((a as f64).abs() <= 3.0e33); // |divisor| >= 1e-5 whenever a division happens, so the quotient is finite (beyond: F26)
    }
    if KF_F17 {
        vs::assume(b == 0.0 || b.abs() >= 0.00001);
    }
    let r = Variant::VSingle(a).divide(Variant::VSingle(b));
    c06(&r);
    assert!(is_dz(&r) == (b == 0.0), "C01: Division by zero exactly when the divisor is exactly zero");
    reach!(matches!(&r, Ok(Variant::VInteger(_))));
    reach!(matches!(&r, Ok(Variant::VSingle(_)) | Ok(Variant::VDouble(_))));
    reach!(is_dz(&r));
    std::mem::forget(r);
});

//# harness divide_single_double tier=thorough label=complete props=C01,C06 fn=rusty_variant/src/variant.rs::Variant::divide timeout=1800 attempt=1
harness!(divide_single_double, 1, {
    let a = vs::f32();
    vs::assume(a.is_finite());
    let b = vs::f64();
    vs::assume(b.is_finite());
    let x = a as f64;
    let y = b as f64;
    let q = if b == 0.0 { 0.0 } else { x / y }; // IEEE-754 quotient
    if KF_F26 {
        vs::assume(q.is_finite()); // a non-finite quotient: finding F26
    }
    let d = if q.is_finite() { (q - q.round()).abs() } else { 1.0 }; // distance to the nearest whole number (used by the F26 carve-out only)
    if KF_F17 {
        vs::assume(b == 0.0 || b.abs() >= 0.00001);
    }
    if KF_F26 {
        vs::assume(b == 0.0 || d > 0.0001 || (d == 0.0 && q.abs() < 9.2e18));
    }
    let r = Variant::VSingle(a).divide(Variant::VDouble(b));
    if b == 0.0 {
        assert!(is_dz(&r), "C01: a zero divisor must raise Division by zero");
    } else {
        assert!(!is_dz(&r), "C01: Division by zero although the divisor is not zero");
        if q.is_finite() {
            assert!(matches!(&r, Ok(v) if exact(v) == q as f64), "C01: not the IEEE-754 quotient");
        } else {
            assert!(is_ovf(&r), "C06: a quotient that is not finite must raise Overflow");
        }
    }
    c06(&r);
    reach!(q == 3.5);
    reach!(is_dz(&r));
    reach!(matches!(&r, Ok(Variant::VInteger(_))));
    std::mem::forget(r);
});

//# harness divide_single_double_valid tier=quick label=complete props=C01,C06 fn=rusty_variant/src/variant.rs::Variant::divide
harness!(divide_single_double_valid, 1, {
    let a = vs::f32();
    vs::assume(a.is_finite());
    let b = vs::f64();
    vs::assume(b.is_finite());
    if KF_F26 {
        vs::assume((a as f64).abs() <= 1.0e303); // |divisor| >= 1e-5 whenever a division happens, so the quotient is finite (beyond: F26)
    }
    if KF_F17 {
        vs::assume(b == 0.0 || b.abs() >= 0.00001);
    }
    let r = Variant::VSingle(a).divide(Variant::VDouble(b));
    c06(&r);
    assert!(is_dz(&r) == (b == 0.0), "C01: Division by zero exactly when the divisor is exactly zero");
    reach!(matches!(&r, Ok(Variant::VInteger(_))));
    reach!(matches!(&r, Ok(Variant::VSingle(_)) | Ok(Variant::VDouble(_))));
    reach!(is_dz(&r));
    std::mem::forget(r);
});

//# harness divide_double_integer tier=thorough label=complete props=C01,C06 fn=rusty_variant/src/variant.rs::Variant::divide timeout=1800 attempt=1
harness!(divide_double_integer, 1, {
    let a = vs::f64();
    vs::assume(a.is_finite());
    let b = vs::i32();
    vs::assume(b >= -32768 && b <= 32767);
    let x = a as f64;
    let y = b as f64;
    let q = if b == 0 { 0.0 } else { x / y }; // IEEE-754 quotient
    if KF_F26 {
        vs::assume(q.is_finite()); // a non-finite quotient: finding F26
    }
    let d = if q.is_finite() { (q - q.round()).abs() } else { 1.0 }; // distance to the nearest whole number (used by the F26 carve-out only)
    if KF_F26 {
        vs::assume(b == 0 || d > 0.0001 || (d == 0.0 && q.abs() < 9.2e18));
    }
    let r = Variant::VDouble(a).divide(Variant::VInteger(b));
    if b == 0 {
        assert!(is_dz(&r), "C01: a zero divisor must raise Division by zero");
    } else {
        assert!(!is_dz(&r), "C01: Division by zero although the divisor is not zero");
        if q.is_finite() {
            assert!(matches!(&r, Ok(v) if exact(v) == q as f64), "C01: not the IEEE-754 quotient");
        } else {
            assert!(is_ovf(&r), "C06: a quotient that is not finite must raise Overflow");
        }
    }
    c06(&r);
    reach!(q == 3.5);
    reach!(is_dz(&r));
    reach!(matches!(&r, Ok(Variant::VInteger(_))));
    std::mem::forget(r);
});

//# harness divide_double_integer_valid tier=quick label=complete props=C01,C06 fn=rusty_variant/src/variant.rs::Variant::divide
harness!(divide_double_integer_valid, 1, {
    let a = vs::f64();
    vs::assume(a.is_finite());
    let b = vs::i32();
    vs::assume(b >= -32768 && b <= 32767);
    let r = Variant::VDouble(a).divide(Variant::VInteger(b));
    c06(&r);
    assert!(is_dz(&r) == (b == 0), "C01: Division by zero exactly when the divisor is exactly zero");
    reach!(matches!(&r, Ok(Variant::VInteger(_))));
    reach!(matches!(&r, Ok(Variant::VSingle(_)) | Ok(Variant::VDouble(_))));
    reach!(is_dz(&r));
    std::mem::forget(r);
});

//# harness divide_double_long tier=thorough label=complete props=C01,C06 fn=rusty_variant/src/variant.rs::Variant::divide timeout=1800 attempt=1
harness!(divide_double_long, 1, {
    let a = vs::f64();
    vs::assume(a.is_finite());
    let b = vs::i64();
    vs::assume(b >= -2147483648 && b <= 2147483647);
    let x = a as f64;
    let y = b as f64;
    let q = if b == 0 { 0.0 } else { x / y }; // IEEE-754 quotient
    if KF_F26 {
        vs::assume(q.is_finite()); // a non-finite quotient: finding F26
    }
    let d = if q.is_finite() { (q - q.round()).abs() } else { 1.0 }; // distance to the nearest whole number (used by the F26 carve-out only)
    if KF_F26 {
        vs::assume(b == 0 || d > 0.0001 || (d == 0.0 && q.abs() < 9.2e18));
    }
    let r = Variant::VDouble(a).divide(Variant::VLong(b));
    if b == 0 {
        assert!(is_dz(&r), "C01: a zero divisor must raise Division by zero");
    } else {
        assert!(!is_dz(&r), "C01: Division by zero although the divisor is not zero");
        if q.is_finite() {
            assert!(matches!(&r, Ok(v) if exact(v) == q as f64), "C01: not the IEEE-754 quotient");
        } else {
            assert!(is_ovf(&r), "C06: a quotient that is not finite must raise Overflow");
        }
    }
    c06(&r);
    reach!(q == 3.5);
    reach!(is_dz(&r));
    reach!(matches!(&r, Ok(Variant::VInteger(_))));
    std::mem::forget(r);
});

//# harness divide_double_long_valid tier=quick label=complete props=C01,C06 fn=rusty_variant/src/variant.rs::Variant::divide
harness!(divide_double_long_valid, 1, {
    let a = vs::f64();
    vs::assume(a.is_finite());
    let b = vs::i64();
    vs::assume(b >= -2147483648 && b <= 2147483647);
    let r = Variant::VDouble(a).divide(Variant::VLong(b));
    c06(&r);
    assert!(is_dz(&r) == (b == 0), "C01: Division by zero exactly when the divisor is exactly zero");
    reach!(matches!(&r, Ok(Variant::VInteger(_))));
    reach!(matches!(&r, Ok(Variant::VSingle(_)) | Ok(Variant::VDouble(_))));
    reach!(is_dz(&r));
    std::mem::forget(r);
});

//# harness divide_double_single tier=thorough label=complete props=C01,C06 fn=rusty_variant/src/variant.rs::Variant::divide timeout=1800 attempt=1
harness!(divide_double_single, 1, {
    let a = vs::f64();
    vs::assume(a.is_finite());
    let b = vs::f32();
    vs::assume(b.is_finite());
    let x = a as f64;
    let y = b as f64;
    let q = if b == 0.0 { 0.0 } else { x / y }; // IEEE-754 quotient
    if KF_F26 {
        vs::assume(q.is_finite()); // a non-finite quotient: finding F26
    }
    let d = if q.is_finite() { (q - q.round()).abs() } else { 1.0 }; // distance to the nearest whole number (used by the F26 carve-out only)
    if KF_F17 {
        vs::assume(b == 0.0 || b.abs() >= 0.00001);
    }
    if KF_F26 {
        vs::assume(b == 0.0 || d > 0.0001 || (d == 0.0 && q.abs() < 9.2e18));
    }
    let r = Variant::VDouble(a).divide(Variant::VSingle(b));
    if b == 0.0 {
        assert!(is_dz(&r), "C01: a zero divisor must raise Division by zero");
    } else {
        assert!(!is_dz(&r), "C01: Division by zero although the divisor is not zero");
        if q.is_finite() {
            assert!(matches!(&r, Ok(v) if exact(v) == q as f64), "C01: not the IEEE-754 quotient");
        } else {
            assert!(is_ovf(&r), "C06: a quotient that is not finite must raise Overflow");
        }
    }
    c06(&r);
    reach!(q == 3.5);
    reach!(is_dz(&r));
    reach!(matches!(&r, Ok(Variant::VInteger(_))));
    std::mem::forget(r);
});

//# harness divide_double_single_valid tier=quick label=complete props=C01,C06 fn=rusty_variant/src/variant.rs::Variant::divide
harness!(divide_double_single_valid, 1, {
    let a = vs::f64();
    vs::assume(a.is_finite());
    let b = vs::f32();
    vs::assume(b.is_finite());
    if KF_F26 {
        vs::assume((a as f64).abs() <= 1.0e303); // |divisor| >= 1e-5 whenever a division happens, so the quotient is finite (beyond: F26)
    }
    if KF_F17 {
        vs::assume(b == 0.0 || b.abs() >= 0.00001);
    }
    let r = Variant::VDouble(a).divide(Variant::VSingle(b));
    c06(&r);
    assert!(is_dz(&r) == (b == 0.0), "C01: Division by zero exactly when the divisor is exactly zero");
    reach!(matches!(&r, Ok(Variant::VInteger(_))));
    reach!(matches!(&r, Ok(Variant::VSingle(_)) | Ok(Variant::VDouble(_))));
    reach!(is_dz(&r));
    std::mem::forget(r);
});

//# harness divide_double_double tier=thorough label=complete props=C01,C06 fn=rusty_variant/src/variant.rs::Variant::divide timeout=1800 attempt=1
harness!(divide_double_double, 1, {
    let a = vs::f64();
    vs::assume(a.is_finite());
    let b = vs::f64();
    vs::assume(b.is_finite());
    let x = a as f64;
    let y = b as f64;
    let q = if b == 0.0 { 0.0 } else { x / y }; // IEEE-754 quotient
    if KF_F26 {
        vs::assume(q.is_finite()); // a non-finite quotient: finding F26
    }
    let d = if q.is_finite() { (q - q.round()).abs() } else { 1.0 }; // distance to the nearest whole number (used by the F26 carve-out only)
    if KF_F17 {
        vs::assume(b == 0.0 || b.abs() >= 0.00001);
    }
    if KF_F26 {
        vs::assume(b == 0.0 || d > 0.0001 || (d == 0.0 && q.abs() < 9.2e18));
    }
    let r = Variant::VDouble(a).divide(Variant::VDouble(b));
    if b == 0.0 {
        assert!(is_dz(&r), "C01: a zero divisor must raise Division by zero");
    } else {
        assert!(!is_dz(&r), "C01: Division by zero although the divisor is not zero");
        if q.is_finite() {
            assert!(matches!(&r, Ok(v) if exact(v) == q as f64), "C01: not the IEEE-754 quotient");
        } else {
            assert!(is_ovf(&r), "C06: a quotient that is not finite must raise Overflow");
        }
    }
    c06(&r);
    reach!(q == 3.5);
    reach!(is_dz(&r));
    reach!(matches!(&r, Ok(Variant::VInteger(_))));
    std::mem::forget(r);
});

//# harness divide_double_double_valid tier=quick label=complete props=C01,C06 fn=rusty_variant/src/variant.rs::Variant::divide
harness!(divide_double_double_valid, 1, {
    let a = vs::f64();
    vs::assume(a.is_finite());
    let b = vs::f64();
    vs::assume(b.is_finite());
    if KF_F26 {
        vs::assume((a as f64).abs() <= 1.0e303); // |divisor| >= 1e-5 whenever a division happens, so the quotient is finite (beyond: F26)
    }
    if KF_F17 {
        vs::assume(b == 0.0 || b.abs() >= 0.00001);
    }
    let r = Variant::VDouble(a).divide(Variant::VDouble(b));
    c06(&r);
    assert!(is_dz(&r) == (b == 0.0), "C01: Division by zero exactly when the divisor is exactly zero");
    reach!(matches!(&r, Ok(Variant::VInteger(_))));
    reach!(matches!(&r, Ok(Variant::VSingle(_)) | Ok(Variant::VDouble(_))));
    reach!(is_dz(&r));
    std::mem::forget(r);
});

//# harness finding_f26_divide_integer_integer tier=thorough label=complete props=C01 fn=rusty_variant/src/variant.rs::Variant::divide expect=finding:F26 standalone=1 timeout=1500
harness!(finding_f26_divide_integer_integer, 1, {
    let a = vs::i32();
    vs::assume(a >= -32768 && a <= 32767);
    let b = vs::i32();
    vs::assume(b >= -32768 && b <= 32767);
    let x = a as f32;
    let y = b as f32;
    let q = if b == 0 { 0.0 } else { x / y }; // IEEE-754 quotient
    if KF_F26 {
        vs::assume(q.is_finite()); // a non-finite quotient: finding F26
    }
    let d = if q.is_finite() { (q - q.round()).abs() } else { 1.0 }; // distance to the nearest whole number (used by the F26 carve-out only)
    vs::assume(!(b == 0) && !(d > 0.0001 || (d == 0.0 && q.abs() < 9.2e18)));
    let r = Variant::VInteger(a).divide(Variant::VInteger(b));
    if b == 0 {
        assert!(is_dz(&r), "C01: a zero divisor must raise Division by zero");
    } else {
        assert!(!is_dz(&r), "C01: Division by zero although the divisor is not zero");
        if q.is_finite() {
            assert!(matches!(&r, Ok(v) if exact(v) == q as f64), "C01: not the IEEE-754 quotient");
        } else {
            assert!(is_ovf(&r), "C06: a quotient that is not finite must raise Overflow");
        }
    }
    std::mem::forget(r);
});

//# harness finding_f26_divide_single_single tier=quick label=complete props=C01 fn=rusty_variant/src/variant.rs::Variant::divide expect=finding:F26 standalone=1 timeout=1500
harness!(finding_f26_divide_single_single, 1, {
    let a = vs::f32();
    vs::assume(a.is_finite());
    let b = vs::f32();
    vs::assume(b.is_finite());
    let x = a as f32;
    let y = b as f32;
    let q = if b == 0.0 { 0.0 } else { x / y }; // IEEE-754 quotient
    if KF_F26 {
        vs::assume(q.is_finite()); // a non-finite quotient: finding F26
    }
    let d = if q.is_finite() { (q - q.round()).abs() } else { 1.0 }; // distance to the nearest whole number (used by the F26 carve-out only)
    vs::assume(a == 1.0e27 && b == 1.0); // X! = 1E27 : PRINT X! / 1  (whole quotient >= 2^63 saturates)
    vs::assume(!(b == 0.0) && !(d > 0.0001 || (d == 0.0 && q.abs() < 9.2e18)));
    vs::assume(b == 0.0 || b.abs() >= 0.00001);
    let r = Variant::VSingle(a).divide(Variant::VSingle(b));
    if b == 0.0 {
        assert!(is_dz(&r), "C01: a zero divisor must raise Division by zero");
    } else {
        assert!(!is_dz(&r), "C01: Division by zero although the divisor is not zero");
        if q.is_finite() {
            assert!(matches!(&r, Ok(v) if exact(v) == q as f64), "C01: not the IEEE-754 quotient");
        } else {
            assert!(is_ovf(&r), "C06: a quotient that is not finite must raise Overflow");
        }
    }
    std::mem::forget(r);
});

//# harness finding_f26_divide_double_double tier=quick label=complete props=C01 fn=rusty_variant/src/variant.rs::Variant::divide expect=finding:F26 standalone=1 timeout=1500
harness!(finding_f26_divide_double_double, 1, {
    let a = vs::f64();
    vs::assume(a.is_finite());
    let b = vs::f64();
    vs::assume(b.is_finite());
    let x = a as f64;
    let y = b as f64;
    let q = if b == 0.0 { 0.0 } else { x / y }; // IEEE-754 quotient
    if KF_F26 {
        vs::assume(q.is_finite()); // a non-finite quotient: finding F26
    }
    let d = if q.is_finite() { (q - q.round()).abs() } else { 1.0 }; // distance to the nearest whole number (used by the F26 carve-out only)
    vs::assume(a == 1.0 && b == 20000.0); // PRINT 1# / 20000#  (quotient within 1e-4 of a whole number is snapped)
    vs::assume(!(b == 0.0) && !(d > 0.0001 || (d == 0.0 && q.abs() < 9.2e18)));
    vs::assume(b == 0.0 || b.abs() >= 0.00001);
    let r = Variant::VDouble(a).divide(Variant::VDouble(b));
    if b == 0.0 {
        assert!(is_dz(&r), "C01: a zero divisor must raise Division by zero");
    } else {
        assert!(!is_dz(&r), "C01: Division by zero although the divisor is not zero");
        if q.is_finite() {
            assert!(matches!(&r, Ok(v) if exact(v) == q as f64), "C01: not the IEEE-754 quotient");
        } else {
            assert!(is_ovf(&r), "C06: a quotient that is not finite must raise Overflow");
        }
    }
    std::mem::forget(r);
});

//# harness finding_f17_divide_integer_single tier=quick label=complete props=C01 fn=rusty_variant/src/variant.rs::Variant::divide expect=finding:F17
harness!(finding_f17_divide_integer_single, 1, {
    let a = vs::i32();
    vs::assume(a >= -32768 && a <= 32767);
    let b = vs::f32();
    vs::assume(b.is_finite());
    let x = a as f32;
    let y = b as f32;
    let q = if b == 0.0 { 0.0 } else { x / y }; // IEEE-754 quotient
    if KF_F26 {
        vs::assume(q.is_finite()); // a non-finite quotient: finding F26
    }
    let d = if q.is_finite() { (q - q.round()).abs() } else { 1.0 }; // distance to the nearest whole number (used by the F26 carve-out only)
    vs::assume(!(b == 0.0 || b.abs() >= 0.00001));
    let r = Variant::VInteger(a).divide(Variant::VSingle(b));
    if b == 0.0 {
        assert!(is_dz(&r), "C01: a zero divisor must raise Division by zero");
    } else {
        assert!(!is_dz(&r), "C01: Division by zero although the divisor is not zero");
        if q.is_finite() {
            assert!(matches!(&r, Ok(v) if exact(v) == q as f64), "C01: not the IEEE-754 quotient");
        } else {
            assert!(is_ovf(&r), "C06: a quotient that is not finite must raise Overflow");
        }
    }
    std::mem::forget(r);
});

//# harness finding_f17_divide_double_double tier=quick label=complete props=C01 fn=rusty_variant/src/variant.rs::Variant::divide expect=finding:F17
harness!(finding_f17_divide_double_double, 1, {
    let a = vs::f64();
    vs::assume(a.is_finite());
    let b = vs::f64();
    vs::assume(b.is_finite());
    let x = a as f64;
    let y = b as f64;
    let q = if b == 0.0 { 0.0 } else { x / y }; // IEEE-754 quotient
    if KF_F26 {
        vs::assume(q.is_finite()); // a non-finite quotient: finding F26
    }
    let d = if q.is_finite() { (q - q.round()).abs() } else { 1.0 }; // distance to the nearest whole number (used by the F26 carve-out only)
    vs::assume(!(b == 0.0 || b.abs() >= 0.00001));
    let r = Variant::VDouble(a).divide(Variant::VDouble(b));
    if b == 0.0 {
        assert!(is_dz(&r), "C01: a zero divisor must raise Division by zero");
    } else {
        assert!(!is_dz(&r), "C01: Division by zero although the divisor is not zero");
        if q.is_finite() {
            assert!(matches!(&r, Ok(v) if exact(v) == q as f64), "C01: not the IEEE-754 quotient");
        } else {
            assert!(is_ovf(&r), "C06: a quotient that is not finite must raise Overflow");
        }
    }
    std::mem::forget(r);
});

//# harness finding_f19_divide_long_integer tier=quick label=complete props=C01 fn=rusty_variant/src/variant.rs::Variant::divide expect=finding:F19 standalone=1
harness!(finding_f19_divide_long_integer, 1, {
    let a = vs::i64();
    vs::assume(a >= -2147483648 && a <= 2147483647);
    let b = vs::i32();
    vs::assume(b >= -32768 && b <= 32767);
    vs::assume(b == 1 && !(a >= -TWO24 && a <= TWO24)); // a LONG beyond 2^24 divided by 1
    let r = Variant::VLong(a).divide(Variant::VInteger(b));
    assert!(matches!(&r, Ok(v) if exact(v) == a as f64), "C01: x / 1 is not x");
    std::mem::forget(r);
});

//# harness finding_f19_divide_long_long tier=quick label=complete props=C01 fn=rusty_variant/src/variant.rs::Variant::divide expect=finding:F19 standalone=1
harness!(finding_f19_divide_long_long, 1, {
    let a = vs::i64();
    vs::assume(a >= -2147483648 && a <= 2147483647);
    let b = vs::i64();
    vs::assume(b >= -2147483648 && b <= 2147483647);
    vs::assume(b == 1 && !(a >= -TWO24 && a <= TWO24 && b >= -TWO24 && b <= TWO24)); // a LONG beyond 2^24 divided by 1
    let r = Variant::VLong(a).divide(Variant::VLong(b));
    assert!(matches!(&r, Ok(v) if exact(v) == a as f64), "C01: x / 1 is not x");
    std::mem::forget(r);
});

// ---------------------------------------------------------------------------------------------
// modulo

//# harness modulo_integer_integer tier=quick label=complete props=C01,C06 fn=rusty_variant/src/variant.rs::Variant::modulo
harness!(modulo_integer_integer, 1, {
    let a = vs::i32();
    vs::assume(a >= -32768 && a <= 32767);
    let b = vs::i32();
    vs::assume(b >= -32768 && b <= 32767);
    let afit = (a as i64) >= IMIN && (a as i64) <= IMAX;
    let ra: i64 = a as i64;
    let bfit = (b as i64) >= IMIN && (b as i64) <= IMAX;
    let rb: i64 = b as i64;
    let r = Variant::VInteger(a).modulo(Variant::VInteger(b));
    if rb == 0 {
        assert!(is_dz(&r), "C01: MOD by (a value rounding to) zero must raise Division by zero");
    } else if !afit || !bfit {
        assert!(is_ovf(&r), "C06: an operand that does not fit INTEGER must raise Overflow");
    } else {
        match &r {
            Ok(Variant::VInteger(n)) => {
                let n = *n as i64;
                assert!(n.abs() < rb.abs() && (n == 0 || (n < 0) == (ra < 0)), "C01: a remainder is smaller than the divisor and has the sign of the dividend");
            }
            _ => assert!(false, "C01: MOD of two operands that fit INTEGER must yield an INTEGER"),
        }
    }
    c06(&r);
    reach!(is_dz(&r));
    reach!(is_integer(&r, -1));
    std::mem::forget(r);
});

//# harness modulo_integer_integer_exact tier=thorough label=complete props=C01 fn=rusty_variant/src/variant.rs::Variant::modulo timeout=1800 attempt=1
harness!(modulo_integer_integer_exact, 1, {
    let a = vs::i32();
    vs::assume(a >= -32768 && a <= 32767);
    let b = vs::i32();
    vs::assume(b >= -32768 && b <= 32767);
    let afit = (a as i64) >= IMIN && (a as i64) <= IMAX;
    let ra: i64 = a as i64;
    let bfit = (b as i64) >= IMIN && (b as i64) <= IMAX;
    let rb: i64 = b as i64;
    vs::assume(rb != 0 && afit && bfit);
    let r = Variant::VInteger(a).modulo(Variant::VInteger(b));
    if rb == 0 {
        assert!(is_dz(&r), "C01: MOD by (a value rounding to) zero must raise Division by zero");
    } else if !afit || !bfit {
        assert!(is_ovf(&r), "C06: an operand that does not fit INTEGER must raise Overflow");
    } else {
        assert!(is_integer(&r, ((ra as i32) % (rb as i32)) as i64), "C01: not the remainder (sign of the dividend) of the rounded operands");
    }
    reach!(is_integer(&r, -1));
    std::mem::forget(r);
});

//# harness modulo_integer_long tier=quick label=complete props=C01,C06 fn=rusty_variant/src/variant.rs::Variant::modulo
harness!(modulo_integer_long, 1, {
    let a = vs::i32();
    vs::assume(a >= -32768 && a <= 32767);
    let b = vs::i64();
    vs::assume(b >= -2147483648 && b <= 2147483647);
    let afit = (a as i64) >= IMIN && (a as i64) <= IMAX;
    let ra: i64 = a as i64;
    let bfit = (b as i64) >= IMIN && (b as i64) <= IMAX;
    let rb: i64 = b as i64;
    if KF_F21 {
        vs::assume(rb == 0 || !afit || !bfit);
    }
    let r = Variant::VInteger(a).modulo(Variant::VLong(b));
    if rb == 0 {
        assert!(is_dz(&r), "C01: MOD by (a value rounding to) zero must raise Division by zero");
    } else if !afit || !bfit {
        assert!(is_ovf(&r), "C06: an operand that does not fit INTEGER must raise Overflow");
    } else {
        match &r {
            Ok(Variant::VInteger(n)) => {
                let n = *n as i64;
                assert!(n.abs() < rb.abs() && (n == 0 || (n < 0) == (ra < 0)), "C01: a remainder is smaller than the divisor and has the sign of the dividend");
            }
            _ => assert!(false, "C01: MOD of two operands that fit INTEGER must yield an INTEGER"),
        }
    }
    c06(&r);
    reach!(is_dz(&r));
    reach!(is_ovf(&r));
    std::mem::forget(r);
});

//# harness modulo_integer_single tier=quick label=complete props=C01,C06 fn=rusty_variant/src/variant.rs::Variant::modulo
harness!(modulo_integer_single, 1, {
    let a = vs::i32();
    vs::assume(a >= -32768 && a <= 32767);
    let b = vs::f32();
    vs::assume(b.is_finite());
    let afit = (a as i64) >= IMIN && (a as i64) <= IMAX;
    let ra: i64 = a as i64;
    let bx = b as f64;
    vs::assume((bx - bx.trunc()).abs() != 0.5); // not an exact tie: "nearest" is unique
    let bn = bx.round(); // nearest whole number
    let bfit = bn >= -32768.0 && bn <= 32767.0;
    let rb: i64 = if bfit { bn as i64 } else { if bn == 0.0 { 0 } else { 1 } };
    if KF_F18 {
        vs::assume(bx.abs() < 2147483647.5);
    }
    let r = Variant::VInteger(a).modulo(Variant::VSingle(b));
    if rb == 0 {
        assert!(is_dz(&r), "C01: MOD by (a value rounding to) zero must raise Division by zero");
    } else if !afit || !bfit {
        assert!(is_ovf(&r), "C06: an operand that does not fit INTEGER must raise Overflow");
    } else {
        match &r {
            Ok(Variant::VInteger(n)) => {
                let n = *n as i64;
                assert!(n.abs() < rb.abs() && (n == 0 || (n < 0) == (ra < 0)), "C01: a remainder is smaller than the divisor and has the sign of the dividend");
            }
            _ => assert!(false, "C01: MOD of two operands that fit INTEGER must yield an INTEGER"),
        }
    }
    c06(&r);
    reach!(is_dz(&r));
    reach!(is_integer(&r, -1));
    reach!(is_ovf(&r));
    std::mem::forget(r);
});

//# harness modulo_integer_single_exact tier=thorough label=complete props=C01 fn=rusty_variant/src/variant.rs::Variant::modulo timeout=1800 attempt=1
harness!(modulo_integer_single_exact, 1, {
    let a = vs::i32();
    vs::assume(a >= -32768 && a <= 32767);
    let b = vs::f32();
    vs::assume(b.is_finite());
    let afit = (a as i64) >= IMIN && (a as i64) <= IMAX;
    let ra: i64 = a as i64;
    let bx = b as f64;
    vs::assume((bx - bx.trunc()).abs() != 0.5); // not an exact tie: "nearest" is unique
    let bn = bx.round(); // nearest whole number
    let bfit = bn >= -32768.0 && bn <= 32767.0;
    let rb: i64 = if bfit { bn as i64 } else { if bn == 0.0 { 0 } else { 1 } };
    if KF_F18 {
        vs::assume(bx.abs() < 2147483647.5);
    }
    vs::assume(rb != 0 && afit && bfit);
    let r = Variant::VInteger(a).modulo(Variant::VSingle(b));
    if rb == 0 {
        assert!(is_dz(&r), "C01: MOD by (a value rounding to) zero must raise Division by zero");
    } else if !afit || !bfit {
        assert!(is_ovf(&r), "C06: an operand that does not fit INTEGER must raise Overflow");
    } else {
        assert!(is_integer(&r, ((ra as i32) % (rb as i32)) as i64), "C01: not the remainder (sign of the dividend) of the rounded operands");
    }
    reach!(is_integer(&r, -1));
    std::mem::forget(r);
});

//# harness modulo_integer_double tier=quick label=complete props=C01,C06 fn=rusty_variant/src/variant.rs::Variant::modulo
harness!(modulo_integer_double, 1, {
    let a = vs::i32();
    vs::assume(a >= -32768 && a <= 32767);
    let b = vs::f64();
    vs::assume(b.is_finite());
    let afit = (a as i64) >= IMIN && (a as i64) <= IMAX;
    let ra: i64 = a as i64;
    let bx = b as f64;
    vs::assume((bx - bx.trunc()).abs() != 0.5); // not an exact tie: "nearest" is unique
    let bn = bx.round(); // nearest whole number
    let bfit = bn >= -32768.0 && bn <= 32767.0;
    let rb: i64 = if bfit { bn as i64 } else { if bn == 0.0 { 0 } else { 1 } };
    if KF_F18 {
        vs::assume(bx.abs() < 2147483647.5);
    }
    let r = Variant::VInteger(a).modulo(Variant::VDouble(b));
    if rb == 0 {
        assert!(is_dz(&r), "C01: MOD by (a value rounding to) zero must raise Division by zero");
    } else if !afit || !bfit {
        assert!(is_ovf(&r), "C06: an operand that does not fit INTEGER must raise Overflow");
    } else {
        match &r {
            Ok(Variant::VInteger(n)) => {
                let n = *n as i64;
                assert!(n.abs() < rb.abs() && (n == 0 || (n < 0) == (ra < 0)), "C01: a remainder is smaller than the divisor and has the sign of the dividend");
            }
            _ => assert!(false, "C01: MOD of two operands that fit INTEGER must yield an INTEGER"),
        }
    }
    c06(&r);
    reach!(is_dz(&r));
    reach!(is_integer(&r, -1));
    reach!(is_ovf(&r));
    std::mem::forget(r);
});

//# harness modulo_integer_double_exact tier=thorough label=complete props=C01 fn=rusty_variant/src/variant.rs::Variant::modulo timeout=1800 attempt=1
harness!(modulo_integer_double_exact, 1, {
    let a = vs::i32();
    vs::assume(a >= -32768 && a <= 32767);
    let b = vs::f64();
    vs::assume(b.is_finite());
    let afit = (a as i64) >= IMIN && (a as i64) <= IMAX;
    let ra: i64 = a as i64;
    let bx = b as f64;
    vs::assume((bx - bx.trunc()).abs() != 0.5); // not an exact tie: "nearest" is unique
    let bn = bx.round(); // nearest whole number
    let bfit = bn >= -32768.0 && bn <= 32767.0;
    let rb: i64 = if bfit { bn as i64 } else { if bn == 0.0 { 0 } else { 1 } };
    if KF_F18 {
        vs::assume(bx.abs() < 2147483647.5);
    }
    vs::assume(rb != 0 && afit && bfit);
    let r = Variant::VInteger(a).modulo(Variant::VDouble(b));
    if rb == 0 {
        assert!(is_dz(&r), "C01: MOD by (a value rounding to) zero must raise Division by zero");
    } else if !afit || !bfit {
        assert!(is_ovf(&r), "C06: an operand that does not fit INTEGER must raise Overflow");
    } else {
        assert!(is_integer(&r, ((ra as i32) % (rb as i32)) as i64), "C01: not the remainder (sign of the dividend) of the rounded operands");
    }
    reach!(is_integer(&r, -1));
    std::mem::forget(r);
});

//# harness modulo_long_integer tier=quick label=complete props=C01,C06 fn=rusty_variant/src/variant.rs::Variant::modulo
harness!(modulo_long_integer, 1, {
    let a = vs::i64();
    vs::assume(a >= -2147483648 && a <= 2147483647);
    let b = vs::i32();
    vs::assume(b >= -32768 && b <= 32767);
    let afit = (a as i64) >= IMIN && (a as i64) <= IMAX;
    let ra: i64 = a as i64;
    let bfit = (b as i64) >= IMIN && (b as i64) <= IMAX;
    let rb: i64 = b as i64;
    if KF_F21 {
        vs::assume(rb == 0 || !afit || !bfit);
    }
    let r = Variant::VLong(a).modulo(Variant::VInteger(b));
    if rb == 0 {
        assert!(is_dz(&r), "C01: MOD by (a value rounding to) zero must raise Division by zero");
    } else if !afit || !bfit {
        assert!(is_ovf(&r), "C06: an operand that does not fit INTEGER must raise Overflow");
    } else {
        match &r {
            Ok(Variant::VInteger(n)) => {
                let n = *n as i64;
                assert!(n.abs() < rb.abs() && (n == 0 || (n < 0) == (ra < 0)), "C01: a remainder is smaller than the divisor and has the sign of the dividend");
            }
            _ => assert!(false, "C01: MOD of two operands that fit INTEGER must yield an INTEGER"),
        }
    }
    c06(&r);
    reach!(is_dz(&r));
    reach!(is_ovf(&r));
    std::mem::forget(r);
});

//# harness modulo_long_long tier=quick label=complete props=C01,C06 fn=rusty_variant/src/variant.rs::Variant::modulo
harness!(modulo_long_long, 1, {
    let a = vs::i64();
    vs::assume(a >= -2147483648 && a <= 2147483647);
    let b = vs::i64();
    vs::assume(b >= -2147483648 && b <= 2147483647);
    let afit = (a as i64) >= IMIN && (a as i64) <= IMAX;
    let ra: i64 = a as i64;
    let bfit = (b as i64) >= IMIN && (b as i64) <= IMAX;
    let rb: i64 = b as i64;
    if KF_F21 {
        vs::assume(rb == 0 || !afit || !bfit);
    }
    let r = Variant::VLong(a).modulo(Variant::VLong(b));
    if rb == 0 {
        assert!(is_dz(&r), "C01: MOD by (a value rounding to) zero must raise Division by zero");
    } else if !afit || !bfit {
        assert!(is_ovf(&r), "C06: an operand that does not fit INTEGER must raise Overflow");
    } else {
        match &r {
            Ok(Variant::VInteger(n)) => {
                let n = *n as i64;
                assert!(n.abs() < rb.abs() && (n == 0 || (n < 0) == (ra < 0)), "C01: a remainder is smaller than the divisor and has the sign of the dividend");
            }
            _ => assert!(false, "C01: MOD of two operands that fit INTEGER must yield an INTEGER"),
        }
    }
    c06(&r);
    reach!(is_dz(&r));
    reach!(is_ovf(&r));
    std::mem::forget(r);
});

//# harness modulo_long_single tier=quick label=complete props=C01,C06 fn=rusty_variant/src/variant.rs::Variant::modulo
harness!(modulo_long_single, 1, {
    let a = vs::i64();
    vs::assume(a >= -2147483648 && a <= 2147483647);
    let b = vs::f32();
    vs::assume(b.is_finite());
    let afit = (a as i64) >= IMIN && (a as i64) <= IMAX;
    let ra: i64 = a as i64;
    let bx = b as f64;
    vs::assume((bx - bx.trunc()).abs() != 0.5); // not an exact tie: "nearest" is unique
    let bn = bx.round(); // nearest whole number
    let bfit = bn >= -32768.0 && bn <= 32767.0;
    let rb: i64 = if bfit { bn as i64 } else { if bn == 0.0 { 0 } else { 1 } };
    if KF_F18 {
        vs::assume(bx.abs() < 2147483647.5);
    }
    if KF_F21 {
        vs::assume(rb == 0 || !afit || !bfit);
    }
    let r = Variant::VLong(a).modulo(Variant::VSingle(b));
    if rb == 0 {
        assert!(is_dz(&r), "C01: MOD by (a value rounding to) zero must raise Division by zero");
    } else if !afit || !bfit {
        assert!(is_ovf(&r), "C06: an operand that does not fit INTEGER must raise Overflow");
    } else {
        match &r {
            Ok(Variant::VInteger(n)) => {
                let n = *n as i64;
                assert!(n.abs() < rb.abs() && (n == 0 || (n < 0) == (ra < 0)), "C01: a remainder is smaller than the divisor and has the sign of the dividend");
            }
            _ => assert!(false, "C01: MOD of two operands that fit INTEGER must yield an INTEGER"),
        }
    }
    c06(&r);
    reach!(is_dz(&r));
    reach!(is_ovf(&r));
    std::mem::forget(r);
});

//# harness modulo_long_double tier=quick label=complete props=C01,C06 fn=rusty_variant/src/variant.rs::Variant::modulo
harness!(modulo_long_double, 1, {
    let a = vs::i64();
    vs::assume(a >= -2147483648 && a <= 2147483647);
    let b = vs::f64();
    vs::assume(b.is_finite());
    let afit = (a as i64) >= IMIN && (a as i64) <= IMAX;
    let ra: i64 = a as i64;
    let bx = b as f64;
    vs::assume((bx - bx.trunc()).abs() != 0.5); // not an exact tie: "nearest" is unique
    let bn = bx.round(); // nearest whole number
    let bfit = bn >= -32768.0 && bn <= 32767.0;
    let rb: i64 = if bfit { bn as i64 } else { if bn == 0.0 { 0 } else { 1 } };
    if KF_F18 {
        vs::assume(bx.abs() < 2147483647.5);
    }
    if KF_F21 {
        vs::assume(rb == 0 || !afit || !bfit);
    }
    let r = Variant::VLong(a).modulo(Variant::VDouble(b));
    if rb == 0 {
        assert!(is_dz(&r), "C01: MOD by (a value rounding to) zero must raise Division by zero");
    } else if !afit || !bfit {
        assert!(is_ovf(&r), "C06: an operand that does not fit INTEGER must raise Overflow");
    } else {
        match &r {
            Ok(Variant::VInteger(n)) => {
                let n = *n as i64;
                assert!(n.abs() < rb.abs() && (n == 0 || (n < 0) == (ra < 0)), "C01: a remainder is smaller than the divisor and has the sign of the dividend");
            }
            _ => assert!(false, "C01: MOD of two operands that fit INTEGER must yield an INTEGER"),
        }
    }
    c06(&r);
    reach!(is_dz(&r));
    reach!(is_ovf(&r));
    std::mem::forget(r);
});

//# harness modulo_single_integer tier=quick label=complete props=C01,C06 fn=rusty_variant/src/variant.rs::Variant::modulo
harness!(modulo_single_integer, 1, {
    let a = vs::f32();
    vs::assume(a.is_finite());
    let b = vs::i32();
    vs::assume(b >= -32768 && b <= 32767);
    let ax = a as f64;
    vs::assume((ax - ax.trunc()).abs() != 0.5); // not an exact tie: "nearest" is unique
    let an = ax.round(); // nearest whole number
    let afit = an >= -32768.0 && an <= 32767.0;
    let ra: i64 = if afit { an as i64 } else { if an == 0.0 { 0 } else { 1 } };
    let bfit = (b as i64) >= IMIN && (b as i64) <= IMAX;
    let rb: i64 = b as i64;
    if KF_F18 {
        vs::assume(ax.abs() < 2147483647.5);
    }
    let r = Variant::VSingle(a).modulo(Variant::VInteger(b));
    if rb == 0 {
        assert!(is_dz(&r), "C01: MOD by (a value rounding to) zero must raise Division by zero");
    } else if !afit || !bfit {
        assert!(is_ovf(&r), "C06: an operand that does not fit INTEGER must raise Overflow");
    } else {
        match &r {
            Ok(Variant::VInteger(n)) => {
                let n = *n as i64;
                assert!(n.abs() < rb.abs() && (n == 0 || (n < 0) == (ra < 0)), "C01: a remainder is smaller than the divisor and has the sign of the dividend");
            }
            _ => assert!(false, "C01: MOD of two operands that fit INTEGER must yield an INTEGER"),
        }
    }
    c06(&r);
    reach!(is_dz(&r));
    reach!(is_integer(&r, -1));
    reach!(is_ovf(&r));
    std::mem::forget(r);
});

//# harness modulo_single_integer_exact tier=thorough label=complete props=C01 fn=rusty_variant/src/variant.rs::Variant::modulo timeout=1800 attempt=1
harness!(modulo_single_integer_exact, 1, {
    let a = vs::f32();
    vs::assume(a.is_finite());
    let b = vs::i32();
    vs::assume(b >= -32768 && b <= 32767);
    let ax = a as f64;
    vs::assume((ax - ax.trunc()).abs() != 0.5); // not an exact tie: "nearest" is unique
    let an = ax.round(); // nearest whole number
    let afit = an >= -32768.0 && an <= 32767.0;
    let ra: i64 = if afit { an as i64 } else { if an == 0.0 { 0 } else { 1 } };
    let bfit = (b as i64) >= IMIN && (b as i64) <= IMAX;
    let rb: i64 = b as i64;
    if KF_F18 {
        vs::assume(ax.abs() < 2147483647.5);
    }
    vs::assume(rb != 0 && afit && bfit);
    let r = Variant::VSingle(a).modulo(Variant::VInteger(b));
    if rb == 0 {
        assert!(is_dz(&r), "C01: MOD by (a value rounding to) zero must raise Division by zero");
    } else if !afit || !bfit {
        assert!(is_ovf(&r), "C06: an operand that does not fit INTEGER must raise Overflow");
    } else {
        assert!(is_integer(&r, ((ra as i32) % (rb as i32)) as i64), "C01: not the remainder (sign of the dividend) of the rounded operands");
    }
    reach!(is_integer(&r, -1));
    std::mem::forget(r);
});

//# harness modulo_single_long tier=quick label=complete props=C01,C06 fn=rusty_variant/src/variant.rs::Variant::modulo
harness!(modulo_single_long, 1, {
    let a = vs::f32();
    vs::assume(a.is_finite());
    let b = vs::i64();
    vs::assume(b >= -2147483648 && b <= 2147483647);
    let ax = a as f64;
    vs::assume((ax - ax.trunc()).abs() != 0.5); // not an exact tie: "nearest" is unique
    let an = ax.round(); // nearest whole number
    let afit = an >= -32768.0 && an <= 32767.0;
    let ra: i64 = if afit { an as i64 } else { if an == 0.0 { 0 } else { 1 } };
    let bfit = (b as i64) >= IMIN && (b as i64) <= IMAX;
    let rb: i64 = b as i64;
    if KF_F18 {
        vs::assume(ax.abs() < 2147483647.5);
    }
    if KF_F21 {
        vs::assume(rb == 0 || !afit || !bfit);
    }
    let r = Variant::VSingle(a).modulo(Variant::VLong(b));
    if rb == 0 {
        assert!(is_dz(&r), "C01: MOD by (a value rounding to) zero must raise Division by zero");
    } else if !afit || !bfit {
        assert!(is_ovf(&r), "C06: an operand that does not fit INTEGER must raise Overflow");
    } else {
        match &r {
            Ok(Variant::VInteger(n)) => {
                let n = *n as i64;
                assert!(n.abs() < rb.abs() && (n == 0 || (n < 0) == (ra < 0)), "C01: a remainder is smaller than the divisor and has the sign of the dividend");
            }
            _ => assert!(false, "C01: MOD of two operands that fit INTEGER must yield an INTEGER"),
        }
    }
    c06(&r);
    reach!(is_dz(&r));
    reach!(is_ovf(&r));
    std::mem::forget(r);
});

//# harness modulo_single_single tier=quick label=complete props=C01,C06 fn=rusty_variant/src/variant.rs::Variant::modulo
harness!(modulo_single_single, 1, {
    let a = vs::f32();
    vs::assume(a.is_finite());
    let b = vs::f32();
    vs::assume(b.is_finite());
    let ax = a as f64;
    vs::assume((ax - ax.trunc()).abs() != 0.5); // not an exact tie: "nearest" is unique
    let an = ax.round(); // nearest whole number
    let afit = an >= -32768.0 && an <= 32767.0;
    let ra: i64 = if afit { an as i64 } else { if an == 0.0 { 0 } else { 1 } };
    let bx = b as f64;
    vs::assume((bx - bx.trunc()).abs() != 0.5); // not an exact tie: "nearest" is unique
    let bn = bx.round(); // nearest whole number
    let bfit = bn >= -32768.0 && bn <= 32767.0;
    let rb: i64 = if bfit { bn as i64 } else { if bn == 0.0 { 0 } else { 1 } };
    if KF_F18 {
        vs::assume(ax.abs() < 2147483647.5 && bx.abs() < 2147483647.5);
    }
    let r = Variant::VSingle(a).modulo(Variant::VSingle(b));
    if rb == 0 {
        assert!(is_dz(&r), "C01: MOD by (a value rounding to) zero must raise Division by zero");
    } else if !afit || !bfit {
        assert!(is_ovf(&r), "C06: an operand that does not fit INTEGER must raise Overflow");
    } else {
        match &r {
            Ok(Variant::VInteger(n)) => {
                let n = *n as i64;
                assert!(n.abs() < rb.abs() && (n == 0 || (n < 0) == (ra < 0)), "C01: a remainder is smaller than the divisor and has the sign of the dividend");
            }
            _ => assert!(false, "C01: MOD of two operands that fit INTEGER must yield an INTEGER"),
        }
    }
    c06(&r);
    reach!(is_dz(&r));
    reach!(is_integer(&r, -1));
    reach!(is_ovf(&r));
    std::mem::forget(r);
});

//# harness modulo_single_single_exact tier=thorough label=complete props=C01 fn=rusty_variant/src/variant.rs::Variant::modulo timeout=1800 attempt=1
harness!(modulo_single_single_exact, 1, {
    let a = vs::f32();
    vs::assume(a.is_finite());
    let b = vs::f32();
    vs::assume(b.is_finite());
    let ax = a as f64;
    vs::assume((ax - ax.trunc()).abs() != 0.5); // not an exact tie: "nearest" is unique
    let an = ax.round(); // nearest whole number
    let afit = an >= -32768.0 && an <= 32767.0;
    let ra: i64 = if afit { an as i64 } else { if an == 0.0 { 0 } else { 1 } };
    let bx = b as f64;
    vs::assume((bx - bx.trunc()).abs() != 0.5); // not an exact tie: "nearest" is unique
    let bn = bx.round(); // nearest whole number
    let bfit = bn >= -32768.0 && bn <= 32767.0;
    let rb: i64 = if bfit { bn as i64 } else { if bn == 0.0 { 0 } else { 1 } };
    if KF_F18 {
        vs::assume(ax.abs() < 2147483647.5 && bx.abs() < 2147483647.5);
    }
    vs::assume(rb != 0 && afit && bfit);
    let r = Variant::VSingle(a).modulo(Variant::VSingle(b));
    if rb == 0 {
        assert!(is_dz(&r), "C01: MOD by (a value rounding to) zero must raise Division by zero");
    } else if !afit || !bfit {
        assert!(is_ovf(&r), "C06: an operand that does not fit INTEGER must raise Overflow");
    } else {
        assert!(is_integer(&r, ((ra as i32) % (rb as i32)) as i64), "C01: not the remainder (sign of the dividend) of the rounded operands");
    }
    reach!(is_integer(&r, -1));
    std::mem::forget(r);
});

//# harness modulo_single_double tier=quick label=complete props=C01,C06 fn=rusty_variant/src/variant.rs::Variant::modulo
harness!(modulo_single_double, 1, {
    let a = vs::f32();
    vs::assume(a.is_finite());
    let b = vs::f64();
    vs::assume(b.is_finite());
    let ax = a as f64;
    vs::assume((ax - ax.trunc()).abs() != 0.5); // not an exact tie: "nearest" is unique
    let an = ax.round(); // nearest whole number
    let afit = an >= -32768.0 && an <= 32767.0;
    let ra: i64 = if afit { an as i64 } else { if an == 0.0 { 0 } else { 1 } };
    let bx = b as f64;
    vs::assume((bx - bx.trunc()).abs() != 0.5); // not an exact tie: "nearest" is unique
    let bn = bx.round(); // nearest whole number
    let bfit = bn >= -32768.0 && bn <= 32767.0;
    let rb: i64 = if bfit { bn as i64 } else { if bn == 0.0 { 0 } else { 1 } };
    if KF_F18 {
        vs::assume(ax.abs() < 2147483647.5 && bx.abs() < 2147483647.5);
    }
    let r = Variant::VSingle(a).modulo(Variant::VDouble(b));
    if rb == 0 {
        assert!(is_dz(&r), "C01: MOD by (a value rounding to) zero must raise Division by zero");
    } else if !afit || !bfit {
        assert!(is_ovf(&r), "C06: an operand that does not fit INTEGER must raise Overflow");
    } else {
        match &r {
            Ok(Variant::VInteger(n)) => {
                let n = *n as i64;
                assert!(n.abs() < rb.abs() && (n == 0 || (n < 0) == (ra < 0)), "C01: a remainder is smaller than the divisor and has the sign of the dividend");
            }
            _ => assert!(false, "C01: MOD of two operands that fit INTEGER must yield an INTEGER"),
        }
    }
    c06(&r);
    reach!(is_dz(&r));
    reach!(is_integer(&r, -1));
    reach!(is_ovf(&r));
    std::mem::forget(r);
});

//# harness modulo_single_double_exact tier=thorough label=complete props=C01 fn=rusty_variant/src/variant.rs::Variant::modulo timeout=1800 attempt=1
harness!(modulo_single_double_exact, 1, {
    let a = vs::f32();
    vs::assume(a.is_finite());
    let b = vs::f64();
    vs::assume(b.is_finite());
    let ax = a as f64;
    vs::assume((ax - ax.trunc()).abs() != 0.5); // not an exact tie: "nearest" is unique
    let an = ax.round(); // nearest whole number
    let afit = an >= -32768.0 && an <= 32767.0;
    let ra: i64 = if afit { an as i64 } else { if an == 0.0 { 0 } else { 1 } };
    let bx = b as f64;
    vs::assume((bx - bx.trunc()).abs() != 0.5); // not an exact tie: "nearest" is unique
    let bn = bx.round(); // nearest whole number
    let bfit = bn >= -32768.0 && bn <= 32767.0;
    let rb: i64 = if bfit { bn as i64 } else { if bn == 0.0 { 0 } else { 1 } };
    if KF_F18 {
        vs::assume(ax.abs() < 2147483647.5 && bx.abs() < 2147483647.5);
    }
    vs::assume(rb != 0 && afit && bfit);
    let r = Variant::VSingle(a).modulo(Variant::VDouble(b));
    if rb == 0 {
        assert!(is_dz(&r), "C01: MOD by (a value rounding to) zero must raise Division by zero");
    } else if !afit || !bfit {
        assert!(is_ovf(&r), "C06: an operand that does not fit INTEGER must raise Overflow");
    } else {
        assert!(is_integer(&r, ((ra as i32) % (rb as i32)) as i64), "C01: not the remainder (sign of the dividend) of the rounded operands");
    }
    reach!(is_integer(&r, -1));
    std::mem::forget(r);
});

//# harness modulo_double_integer tier=quick label=complete props=C01,C06 fn=rusty_variant/src/variant.rs::Variant::modulo
harness!(modulo_double_integer, 1, {
    let a = vs::f64();
    vs::assume(a.is_finite());
    let b = vs::i32();
    vs::assume(b >= -32768 && b <= 32767);
    let ax = a as f64;
    vs::assume((ax - ax.trunc()).abs() != 0.5); // not an exact tie: "nearest" is unique
    let an = ax.round(); // nearest whole number
    let afit = an >= -32768.0 && an <= 32767.0;
    let ra: i64 = if afit { an as i64 } else { if an == 0.0 { 0 } else { 1 } };
    let bfit = (b as i64) >= IMIN && (b as i64) <= IMAX;
    let rb: i64 = b as i64;
    if KF_F18 {
        vs::assume(ax.abs() < 2147483647.5);
    }
    let r = Variant::VDouble(a).modulo(Variant::VInteger(b));
    if rb == 0 {
        assert!(is_dz(&r), "C01: MOD by (a value rounding to) zero must raise Division by zero");
    } else if !afit || !bfit {
        assert!(is_ovf(&r), "C06: an operand that does not fit INTEGER must raise Overflow");
    } else {
        match &r {
            Ok(Variant::VInteger(n)) => {
                let n = *n as i64;
                assert!(n.abs() < rb.abs() && (n == 0 || (n < 0) == (ra < 0)), "C01: a remainder is smaller than the divisor and has the sign of the dividend");
            }
            _ => assert!(false, "C01: MOD of two operands that fit INTEGER must yield an INTEGER"),
        }
    }
    c06(&r);
    reach!(is_dz(&r));
    reach!(is_integer(&r, -1));
    reach!(is_ovf(&r));
    std::mem::forget(r);
});

//# harness modulo_double_integer_exact tier=thorough label=complete props=C01 fn=rusty_variant/src/variant.rs::Variant::modulo timeout=1800 attempt=1
harness!(modulo_double_integer_exact, 1, {
    let a = vs::f64();
    vs::assume(a.is_finite());
    let b = vs::i32();
    vs::assume(b >= -32768 && b <= 32767);
    let ax = a as f64;
    vs::assume((ax - ax.trunc()).abs() != 0.5); // not an exact tie: "nearest" is unique
    let an = ax.round(); // nearest whole number
    let afit = an >= -32768.0 && an <= 32767.0;
    let ra: i64 = if afit { an as i64 } else { if an == 0.0 { 0 } else { 1 } };
    let bfit = (b as i64) >= IMIN && (b as i64) <= IMAX;
    let rb: i64 = b as i64;
    if KF_F18 {
        vs::assume(ax.abs() < 2147483647.5);
    }
    vs::assume(rb != 0 && afit && bfit);
    let r = Variant::VDouble(a).modulo(Variant::VInteger(b));
    if rb == 0 {
        assert!(is_dz(&r), "C01: MOD by (a value rounding to) zero must raise Division by zero");
    } else if !afit || !bfit {
        assert!(is_ovf(&r), "C06: an operand that does not fit INTEGER must raise Overflow");
    } else {
        assert!(is_integer(&r, ((ra as i32) % (rb as i32)) as i64), "C01: not the remainder (sign of the dividend) of the rounded operands");
    }
    reach!(is_integer(&r, -1));
    std::mem::forget(r);
});

//# harness modulo_double_long tier=quick label=complete props=C01,C06 fn=rusty_variant/src/variant.rs::Variant::modulo
harness!(modulo_double_long, 1, {
    let a = vs::f64();
    vs::assume(a.is_finite());
    let b = vs::i64();
    vs::assume(b >= -2147483648 && b <= 2147483647);
    let ax = a as f64;
    vs::assume((ax - ax.trunc()).abs() != 0.5); // not an exact tie: "nearest" is unique
    let an = ax.round(); // nearest whole number
    let afit = an >= -32768.0 && an <= 32767.0;
    let ra: i64 = if afit { an as i64 } else { if an == 0.0 { 0 } else { 1 } };
    let bfit = (b as i64) >= IMIN && (b as i64) <= IMAX;
    let rb: i64 = b as i64;
    if KF_F18 {
        vs::assume(ax.abs() < 2147483647.5);
    }
    if KF_F21 {
        vs::assume(rb == 0 || !afit || !bfit);
    }
    let r = Variant::VDouble(a).modulo(Variant::VLong(b));
    if rb == 0 {
        assert!(is_dz(&r), "C01: MOD by (a value rounding to) zero must raise Division by zero");
    } else if !afit || !bfit {
        assert!(is_ovf(&r), "C06: an operand that does not fit INTEGER must raise Overflow");
    } else {
        match &r {
            Ok(Variant::VInteger(n)) => {
                let n = *n as i64;
                assert!(n.abs() < rb.abs() && (n == 0 || (n < 0) == (ra < 0)), "C01: a remainder is smaller than the divisor and has the sign of the dividend");
            }
            _ => assert!(false, "C01: MOD of two operands that fit INTEGER must yield an INTEGER"),
        }
    }
    c06(&r);
    reach!(is_dz(&r));
    reach!(is_ovf(&r));
    std::mem::forget(r);
});

//# harness modulo_double_single tier=quick label=complete props=C01,C06 fn=rusty_variant/src/variant.rs::Variant::modulo
harness!(modulo_double_single, 1, {
    let a = vs::f64();
    vs::assume(a.is_finite());
    let b = vs::f32();
    vs::assume(b.is_finite());
    let ax = a as f64;
    vs::assume((ax - ax.trunc()).abs() != 0.5); // not an exact tie: "nearest" is unique
    let an = ax.round(); // nearest whole number
    let afit = an >= -32768.0 && an <= 32767.0;
    let ra: i64 = if afit { an as i64 } else { if an == 0.0 { 0 } else { 1 } };
    let bx = b as f64;
    vs::assume((bx - bx.trunc()).abs() != 0.5); // not an exact tie: "nearest" is unique
    let bn = bx.round(); // nearest whole number
    let bfit = bn >= -32768.0 && bn <= 32767.0;
    let rb: i64 = if bfit { bn as i64 } else { if bn == 0.0 { 0 } else { 1 } };
    if KF_F18 {
        vs::assume(ax.abs() < 2147483647.5 && bx.abs() < 2147483647.5);
    }
    let r = Variant::VDouble(a).modulo(Variant::VSingle(b));
    if rb == 0 {
        assert!(is_dz(&r), "C01: MOD by (a value rounding to) zero must raise Division by zero");
    } else if !afit || !bfit {
        assert!(is_ovf(&r), "C06: an operand that does not fit INTEGER must raise Overflow");
    } else {
        match &r {
            Ok(Variant::VInteger(n)) => {
                let n = *n as i64;
                assert!(n.abs() < rb.abs() && (n == 0 || (n < 0) == (ra < 0)), "C01: a remainder is smaller than the divisor and has the sign of the dividend");
            }
            _ => assert!(false, "C01: MOD of two operands that fit INTEGER must yield an INTEGER"),
        }
    }
    c06(&r);
    reach!(is_dz(&r));
    reach!(is_integer(&r, -1));
    reach!(is_ovf(&r));
    std::mem::forget(r);
});

//# harness modulo_double_single_exact tier=thorough label=complete props=C01 fn=rusty_variant/src/variant.rs::Variant::modulo timeout=1800 attempt=1
harness!(modulo_double_single_exact, 1, {
    let a = vs::f64();
    vs::assume(a.is_finite());
    let b = vs::f32();
    vs::assume(b.is_finite());
    let ax = a as f64;
    vs::assume((ax - ax.trunc()).abs() != 0.5); // not an exact tie: "nearest" is unique
    let an = ax.round(); // nearest whole number
    let afit = an >= -32768.0 && an <= 32767.0;
    let ra: i64 = if afit { an as i64 } else { if an == 0.0 { 0 } else { 1 } };
    let bx = b as f64;
    vs::assume((bx - bx.trunc()).abs() != 0.5); // not an exact tie: "nearest" is unique
    let bn = bx.round(); // nearest whole number
    let bfit = bn >= -32768.0 && bn <= 32767.0;
    let rb: i64 = if bfit { bn as i64 } else { if bn == 0.0 { 0 } else { 1 } };
    if KF_F18 {
        vs::assume(ax.abs() < 2147483647.5 && bx.abs() < 2147483647.5);
    }
    vs::assume(rb != 0 && afit && bfit);
    let r = Variant::VDouble(a).modulo(Variant::VSingle(b));
    if rb == 0 {
        assert!(is_dz(&r), "C01: MOD by (a value rounding to) zero must raise Division by zero");
    } else if !afit || !bfit {
        assert!(is_ovf(&r), "C06: an operand that does not fit INTEGER must raise Overflow");
    } else {
        assert!(is_integer(&r, ((ra as i32) % (rb as i32)) as i64), "C01: not the remainder (sign of the dividend) of the rounded operands");
    }
    reach!(is_integer(&r, -1));
    std::mem::forget(r);
});

//# harness modulo_double_double tier=quick label=complete props=C01,C06 fn=rusty_variant/src/variant.rs::Variant::modulo
harness!(modulo_double_double, 1, {
    let a = vs::f64();
    vs::assume(a.is_finite());
    let b = vs::f64();
    vs::assume(b.is_finite());
    let ax = a as f64;
    vs::assume((ax - ax.trunc()).abs() != 0.5); // not an exact tie: "nearest" is unique
    let an = ax.round(); // nearest whole number
    let afit = an >= -32768.0 && an <= 32767.0;
    let ra: i64 = if afit { an as i64 } else { if an == 0.0 { 0 } else { 1 } };
    let bx = b as f64;
    vs::assume((bx - bx.trunc()).abs() != 0.5); // not an exact tie: "nearest" is unique
    let bn = bx.round(); // nearest whole number
    let bfit = bn >= -32768.0 && bn <= 32767.0;
    let rb: i64 = if bfit { bn as i64 } else { if bn == 0.0 { 0 } else { 1 } };
    if KF_F18 {
        vs::assume(ax.abs() < 2147483647.5 && bx.abs() < 2147483647.5);
    }
    let r = Variant::VDouble(a).modulo(Variant::VDouble(b));
    if rb == 0 {
        assert!(is_dz(&r), "C01: MOD by (a value rounding to) zero must raise Division by zero");
    } else if !afit || !bfit {
        assert!(is_ovf(&r), "C06: an operand that does not fit INTEGER must raise Overflow");
    } else {
        match &r {
            Ok(Variant::VInteger(n)) => {
                let n = *n as i64;
                assert!(n.abs() < rb.abs() && (n == 0 || (n < 0) == (ra < 0)), "C01: a remainder is smaller than the divisor and has the sign of the dividend");
            }
            _ => assert!(false, "C01: MOD of two operands that fit INTEGER must yield an INTEGER"),
        }
    }
    c06(&r);
    reach!(is_dz(&r));
    reach!(is_integer(&r, -1));
    reach!(is_ovf(&r));
    std::mem::forget(r);
});

//# harness modulo_double_double_exact tier=thorough label=complete props=C01 fn=rusty_variant/src/variant.rs::Variant::modulo timeout=1800 attempt=1
harness!(modulo_double_double_exact, 1, {
    let a = vs::f64();
    vs::assume(a.is_finite());
    let b = vs::f64();
    vs::assume(b.is_finite());
    let ax = a as f64;
    vs::assume((ax - ax.trunc()).abs() != 0.5); // not an exact tie: "nearest" is unique
    let an = ax.round(); // nearest whole number
    let afit = an >= -32768.0 && an <= 32767.0;
    let ra: i64 = if afit { an as i64 } else { if an == 0.0 { 0 } else { 1 } };
    let bx = b as f64;
    vs::assume((bx - bx.trunc()).abs() != 0.5); // not an exact tie: "nearest" is unique
    let bn = bx.round(); // nearest whole number
    let bfit = bn >= -32768.0 && bn <= 32767.0;
    let rb: i64 = if bfit { bn as i64 } else { if bn == 0.0 { 0 } else { 1 } };
    if KF_F18 {
        vs::assume(ax.abs() < 2147483647.5 && bx.abs() < 2147483647.5);
    }
    vs::assume(rb != 0 && afit && bfit);
    let r = Variant::VDouble(a).modulo(Variant::VDouble(b));
    if rb == 0 {
        assert!(is_dz(&r), "C01: MOD by (a value rounding to) zero must raise Division by zero");
    } else if !afit || !bfit {
        assert!(is_ovf(&r), "C06: an operand that does not fit INTEGER must raise Overflow");
    } else {
        assert!(is_integer(&r, ((ra as i32) % (rb as i32)) as i64), "C01: not the remainder (sign of the dividend) of the rounded operands");
    }
    reach!(is_integer(&r, -1));
    std::mem::forget(r);
});

//# harness finding_f18_modulo_double_integer tier=quick label=complete props=C01,C06,C12 fn=rusty_variant/src/variant.rs::Variant::modulo expect=finding:F18
harness!(finding_f18_modulo_double_integer, 1, {
    let a = vs::f64();
    vs::assume(a.is_finite());
    let b = vs::i32();
    vs::assume(b >= -32768 && b <= 32767);
    let ax = a as f64;
    vs::assume((ax - ax.trunc()).abs() != 0.5); // not an exact tie: "nearest" is unique
    let an = ax.round(); // nearest whole number
    let afit = an >= -32768.0 && an <= 32767.0;
    let ra: i64 = if afit { an as i64 } else { if an == 0.0 { 0 } else { 1 } };
    let bfit = (b as i64) >= IMIN && (b as i64) <= IMAX;
    let rb: i64 = b as i64;
    vs::assume(!(ax.abs() < 2147483647.5));
    let r = Variant::VDouble(a).modulo(Variant::VInteger(b));
    if rb == 0 {
        assert!(is_dz(&r), "C01: MOD by (a value rounding to) zero must raise Division by zero");
    } else if !afit || !bfit {
        assert!(is_ovf(&r), "C06: an operand that does not fit INTEGER must raise Overflow");
    } else {
        match &r {
            Ok(Variant::VInteger(n)) => {
                let n = *n as i64;
                assert!(n.abs() < rb.abs() && (n == 0 || (n < 0) == (ra < 0)), "C01: a remainder is smaller than the divisor and has the sign of the dividend");
            }
            _ => assert!(false, "C01: MOD of two operands that fit INTEGER must yield an INTEGER"),
        }
    }
    c06(&r);
    std::mem::forget(r);
});

//# harness finding_f18_modulo_integer_single tier=quick label=complete props=C01,C06,C12 fn=rusty_variant/src/variant.rs::Variant::modulo expect=finding:F18
harness!(finding_f18_modulo_integer_single, 1, {
    let a = vs::i32();
    vs::assume(a >= -32768 && a <= 32767);
    let b = vs::f32();
    vs::assume(b.is_finite());
    let afit = (a as i64) >= IMIN && (a as i64) <= IMAX;
    let ra: i64 = a as i64;
    let bx = b as f64;
    vs::assume((bx - bx.trunc()).abs() != 0.5); // not an exact tie: "nearest" is unique
    let bn = bx.round(); // nearest whole number
    let bfit = bn >= -32768.0 && bn <= 32767.0;
    let rb: i64 = if bfit { bn as i64 } else { if bn == 0.0 { 0 } else { 1 } };
    vs::assume(!(bx.abs() < 2147483647.5));
    let r = Variant::VInteger(a).modulo(Variant::VSingle(b));
    if rb == 0 {
        assert!(is_dz(&r), "C01: MOD by (a value rounding to) zero must raise Division by zero");
    } else if !afit || !bfit {
        assert!(is_ovf(&r), "C06: an operand that does not fit INTEGER must raise Overflow");
    } else {
        match &r {
            Ok(Variant::VInteger(n)) => {
                let n = *n as i64;
                assert!(n.abs() < rb.abs() && (n == 0 || (n < 0) == (ra < 0)), "C01: a remainder is smaller than the divisor and has the sign of the dividend");
            }
            _ => assert!(false, "C01: MOD of two operands that fit INTEGER must yield an INTEGER"),
        }
    }
    c06(&r);
    std::mem::forget(r);
});

//# harness finding_f21_modulo_long_integer tier=quick label=complete props=C01 fn=rusty_variant/src/variant.rs::Variant::modulo expect=finding:F21
harness!(finding_f21_modulo_long_integer, 1, {
    let a = vs::i64();
    vs::assume(a >= -2147483648 && a <= 2147483647);
    let b = vs::i32();
    vs::assume(b >= -32768 && b <= 32767);
    let afit = (a as i64) >= IMIN && (a as i64) <= IMAX;
    let ra: i64 = a as i64;
    let bfit = (b as i64) >= IMIN && (b as i64) <= IMAX;
    let rb: i64 = b as i64;
    vs::assume(rb != 0 && afit && bfit);
    let r = Variant::VLong(a).modulo(Variant::VInteger(b));
    if rb == 0 {
        assert!(is_dz(&r), "C01: MOD by (a value rounding to) zero must raise Division by zero");
    } else if !afit || !bfit {
        assert!(is_ovf(&r), "C06: an operand that does not fit INTEGER must raise Overflow");
    } else {
        match &r {
            Ok(Variant::VInteger(n)) => {
                let n = *n as i64;
                assert!(n.abs() < rb.abs() && (n == 0 || (n < 0) == (ra < 0)), "C01: a remainder is smaller than the divisor and has the sign of the dividend");
            }
            _ => assert!(false, "C01: MOD of two operands that fit INTEGER must yield an INTEGER"),
        }
    }
    c06(&r);
    std::mem::forget(r);
});

//# harness finding_f21_modulo_integer_long tier=quick label=complete props=C01 fn=rusty_variant/src/variant.rs::Variant::modulo expect=finding:F21
harness!(finding_f21_modulo_integer_long, 1, {
    let a = vs::i32();
    vs::assume(a >= -32768 && a <= 32767);
    let b = vs::i64();
    vs::assume(b >= -2147483648 && b <= 2147483647);
    let afit = (a as i64) >= IMIN && (a as i64) <= IMAX;
    let ra: i64 = a as i64;
    let bfit = (b as i64) >= IMIN && (b as i64) <= IMAX;
    let rb: i64 = b as i64;
    vs::assume(rb != 0 && afit && bfit);
    let r = Variant::VInteger(a).modulo(Variant::VLong(b));
    if rb == 0 {
        assert!(is_dz(&r), "C01: MOD by (a value rounding to) zero must raise Division by zero");
    } else if !afit || !bfit {
        assert!(is_ovf(&r), "C06: an operand that does not fit INTEGER must raise Overflow");
    } else {
        match &r {
            Ok(Variant::VInteger(n)) => {
                let n = *n as i64;
                assert!(n.abs() < rb.abs() && (n == 0 || (n < 0) == (ra < 0)), "C01: a remainder is smaller than the divisor and has the sign of the dividend");
            }
            _ => assert!(false, "C01: MOD of two operands that fit INTEGER must yield an INTEGER"),
        }
    }
    c06(&r);
    std::mem::forget(r);
});

//# harness finding_f21_modulo_long_long tier=quick label=complete props=C01 fn=rusty_variant/src/variant.rs::Variant::modulo expect=finding:F21
harness!(finding_f21_modulo_long_long, 1, {
    let a = vs::i64();
    vs::assume(a >= -2147483648 && a <= 2147483647);
    let b = vs::i64();
    vs::assume(b >= -2147483648 && b <= 2147483647);
    let afit = (a as i64) >= IMIN && (a as i64) <= IMAX;
    let ra: i64 = a as i64;
    let bfit = (b as i64) >= IMIN && (b as i64) <= IMAX;
    let rb: i64 = b as i64;
    vs::assume(rb != 0 && afit && bfit);
    let r = Variant::VLong(a).modulo(Variant::VLong(b));
    if rb == 0 {
        assert!(is_dz(&r), "C01: MOD by (a value rounding to) zero must raise Division by zero");
    } else if !afit || !bfit {
        assert!(is_ovf(&r), "C06: an operand that does not fit INTEGER must raise Overflow");
    } else {
        match &r {
            Ok(Variant::VInteger(n)) => {
                let n = *n as i64;
                assert!(n.abs() < rb.abs() && (n == 0 || (n < 0) == (ra < 0)), "C01: a remainder is smaller than the divisor and has the sign of the dividend");
            }
            _ => assert!(false, "C01: MOD of two operands that fit INTEGER must yield an INTEGER"),
        }
    }
    c06(&r);
    std::mem::forget(r);
});

// ---------------------------------------------------------------------------------------------
// negate, unary_not

//# harness negate_integer tier=quick label=complete props=C01,C06 fn=rusty_variant/src/variant.rs::Variant::negate
harness!(negate_integer, 1, {
    let a = vs::i32();
    vs::assume(a >= -32768 && a <= 32767);
    let m: i64 = -(a as i64);
    let fits = m >= IMIN && m <= IMAX;
    let r = Variant::VInteger(a).negate();
    if fits {
        assert!(is_integer(&r, m), "C01: not the negated value");
    } else {
        assert!(is_ovf(&r), "C06: -MIN does not fit and must raise Overflow");
    }
    c06(&r);
    reach!(!fits);
    reach!(m == IMAX);
    std::mem::forget(r);
});

//# harness negate_long tier=quick label=complete props=C01,C06 fn=rusty_variant/src/variant.rs::Variant::negate
harness!(negate_long, 1, {
    let a = vs::i64();
    vs::assume(a >= -2147483648 && a <= 2147483647);
    let m: i64 = -(a as i64);
    let fits = m >= LMIN && m <= LMAX;
    let r = Variant::VLong(a).negate();
    if fits {
        assert!(is_long(&r, m), "C01: not the negated value");
    } else {
        assert!(is_ovf(&r), "C06: -MIN does not fit and must raise Overflow");
    }
    c06(&r);
    reach!(!fits);
    reach!(m == LMAX);
    std::mem::forget(r);
});

//# harness negate_single tier=quick label=complete props=C01,C06 fn=rusty_variant/src/variant.rs::Variant::negate
harness!(negate_single, 1, {
    let a = vs::f32();
    vs::assume(a.is_finite());
    let r = Variant::VSingle(a).negate();
    assert!(is_single(&r, -a), "C01: not the negated value");
    c06(&r);
    reach!(a == 1.5);
    std::mem::forget(r);
});

//# harness negate_double tier=quick label=complete props=C01,C06 fn=rusty_variant/src/variant.rs::Variant::negate
harness!(negate_double, 1, {
    let a = vs::f64();
    vs::assume(a.is_finite());
    let r = Variant::VDouble(a).negate();
    assert!(is_double(&r, -a), "C01: not the negated value");
    c06(&r);
    reach!(a == 1.5);
    std::mem::forget(r);
});

//# harness not_integer tier=quick label=complete props=C01,C06,C19 fn=rusty_variant/src/variant.rs::Variant::unary_not
harness!(not_integer, 1, {
    let a = vs::i32();
    vs::assume(a >= -32768 && a <= 32767);
    let r = Variant::VInteger(a).unary_not();
    let m: i64 = !(a as i64); // bitwise complement of the two's-complement word = -a - 1
    assert!(is_integer(&r, m), "C01/C19: NOT is not the bitwise complement");
    c06(&r);
    reach!(m == IMAX);
    std::mem::forget(r);
});

//# harness not_long tier=quick label=complete props=C01,C06,C19 fn=rusty_variant/src/variant.rs::Variant::unary_not
harness!(not_long, 1, {
    let a = vs::i64();
    vs::assume(a >= -2147483648 && a <= 2147483647);
    let r = Variant::VLong(a).unary_not();
    let m: i64 = !(a as i64); // bitwise complement of the two's-complement word = -a - 1
    assert!(is_long(&r, m), "C01/C19: NOT is not the bitwise complement");
    c06(&r);
    reach!(m == LMAX);
    std::mem::forget(r);
});

//# harness not_single tier=quick label=complete props=C01,C06,C19 fn=rusty_variant/src/variant.rs::Variant::unary_not
harness!(not_single, 1, {
    let a = vs::f32();
    vs::assume(a.is_finite());
    vs::assume(a.abs() <= 4194304.0 && (a - a.trunc()).abs() != 0.5); // exactly-representable domain, no tie
    let r = Variant::VSingle(a).unary_not();
    let m: i64 = !(a.round() as i64); // complement of the operand rounded to nearest
    assert!(matches!(&r, Ok(v) if exact(v) == m as f64), "C01: NOT is not the complement of the rounded operand");
    c06(&r);
    reach!(m == -3);
    std::mem::forget(r);
});

//# harness not_double tier=quick label=complete props=C01,C06,C19 fn=rusty_variant/src/variant.rs::Variant::unary_not
harness!(not_double, 1, {
    let a = vs::f64();
    vs::assume(a.is_finite());
    vs::assume(a.abs() <= 4194304.0 && (a - a.trunc()).abs() != 0.5); // exactly-representable domain, no tie
    let r = Variant::VDouble(a).unary_not();
    let m: i64 = !(a.round() as i64); // complement of the operand rounded to nearest
    assert!(matches!(&r, Ok(v) if exact(v) == m as f64), "C01: NOT is not the complement of the rounded operand");
    c06(&r);
    reach!(m == -3);
    std::mem::forget(r);
});

//# harness not_single_valid tier=quick label=complete props=C06 fn=rusty_variant/src/variant.rs::Variant::unary_not
harness!(not_single_valid, 1, {
    let a = vs::f32();
    vs::assume(a.is_finite());
    let r = Variant::VSingle(a).unary_not();
    c06(&r);
    reach!(a > 1.0e30);
    std::mem::forget(r);
});

//# harness not_double_valid tier=quick label=complete props=C06 fn=rusty_variant/src/variant.rs::Variant::unary_not
harness!(not_double_valid, 1, {
    let a = vs::f64();
    vs::assume(a.is_finite());
    let r = Variant::VDouble(a).unary_not();
    c06(&r);
    reach!(a > 1.0e30);
    std::mem::forget(r);
});

// ---------------------------------------------------------------------------------------------
// and, or (INTEGER x INTEGER; the VM casts both operands to INTEGER first: unit type_table)

//# harness and_integer_integer tier=quick label=complete props=C01,C06,C19 fn=rusty_variant/src/variant.rs::Variant::and
harness!(and_integer_integer, 18, {
    let a = vs::i16();
    let b = vs::i16();
    let r = Variant::VInteger(a as i32).and(Variant::VInteger(b as i32));
    assert!(is_integer(&r, (a & b) as i64), "C01/C19: AND is not the bitwise AND of the 16-bit words");
    c06(&r);
    reach!(a & b == 0x0ff0);
    std::mem::forget(r);
});

//# harness or_integer_integer tier=quick label=complete props=C01,C06,C19 fn=rusty_variant/src/variant.rs::Variant::or
harness!(or_integer_integer, 18, {
    let a = vs::i16();
    let b = vs::i16();
    let r = Variant::VInteger(a as i32).or(Variant::VInteger(b as i32));
    assert!(is_integer(&r, (a | b) as i64), "C01/C19: OR is not the bitwise OR of the 16-bit words");
    c06(&r);
    reach!(a | b == 0x0ff0);
    std::mem::forget(r);
});

// ---------------------------------------------------------------------------------------------
// try_cmp

//# harness cmp_integer_integer tier=quick label=complete props=C01 fn=rusty_variant/src/variant.rs::Variant::try_cmp
harness!(cmp_integer_integer, 1, {
    let a = vs::i32();
    vs::assume(a >= -32768 && a <= 32767);
    let b = vs::i32();
    vs::assume(b >= -32768 && b <= 32767);
    let expected = (a as i64).cmp(&(b as i64));
    let va = Variant::VInteger(a);
    let vb = Variant::VInteger(b);
    let r = va.try_cmp(&vb);
    assert!(matches!(r, Ok(o) if o == expected), "C01: comparison differs from the order on the exact values");
    reach!(expected == Ordering::Less);
    reach!(expected == Ordering::Equal);
    reach!(expected == Ordering::Greater);
    std::mem::forget(r);
    std::mem::forget(va);
    std::mem::forget(vb);
});

//# harness cmp_integer_long tier=quick label=complete props=C01 fn=rusty_variant/src/variant.rs::Variant::try_cmp
harness!(cmp_integer_long, 1, {
    let a = vs::i32();
    vs::assume(a >= -32768 && a <= 32767);
    let b = vs::i64();
    vs::assume(b >= -2147483648 && b <= 2147483647);
    let expected = (a as i64).cmp(&(b as i64));
    let va = Variant::VInteger(a);
    let vb = Variant::VLong(b);
    let r = va.try_cmp(&vb);
    assert!(matches!(r, Ok(o) if o == expected), "C01: comparison differs from the order on the exact values");
    reach!(expected == Ordering::Less);
    reach!(expected == Ordering::Equal);
    reach!(expected == Ordering::Greater);
    std::mem::forget(r);
    std::mem::forget(va);
    std::mem::forget(vb);
});

//# harness cmp_integer_single tier=quick label=complete props=C01 fn=rusty_variant/src/variant.rs::Variant::try_cmp
harness!(cmp_integer_single, 1, {
    let a = vs::i32();
    vs::assume(a >= -32768 && a <= 32767);
    let b = vs::f32();
    vs::assume(b.is_finite());
    let x = a as f64; // exact
    let y = b as f64; // exact
    vs::assume(x == y || (x - y).abs() >= 0.00002); // outside the fuzz of ApproximateCmp
    let expected = if x < y { Ordering::Less } else if x > y { Ordering::Greater } else { Ordering::Equal };
    let va = Variant::VInteger(a);
    let vb = Variant::VSingle(b);
    let r = va.try_cmp(&vb);
    assert!(matches!(r, Ok(o) if o == expected), "C01: comparison differs from the order on the exact values");
    reach!(expected == Ordering::Less);
    reach!(expected == Ordering::Equal);
    reach!(expected == Ordering::Greater);
    std::mem::forget(r);
    std::mem::forget(va);
    std::mem::forget(vb);
});

//# harness cmp_integer_double tier=quick label=complete props=C01 fn=rusty_variant/src/variant.rs::Variant::try_cmp
harness!(cmp_integer_double, 1, {
    let a = vs::i32();
    vs::assume(a >= -32768 && a <= 32767);
    let b = vs::f64();
    vs::assume(b.is_finite());
    let x = a as f64; // exact
    let y = b as f64; // exact
    vs::assume(x == y || (x - y).abs() >= 0.00002); // outside the fuzz of ApproximateCmp
    let expected = if x < y { Ordering::Less } else if x > y { Ordering::Greater } else { Ordering::Equal };
    let va = Variant::VInteger(a);
    let vb = Variant::VDouble(b);
    let r = va.try_cmp(&vb);
    assert!(matches!(r, Ok(o) if o == expected), "C01: comparison differs from the order on the exact values");
    reach!(expected == Ordering::Less);
    reach!(expected == Ordering::Equal);
    reach!(expected == Ordering::Greater);
    std::mem::forget(r);
    std::mem::forget(va);
    std::mem::forget(vb);
});

//# harness cmp_long_integer tier=quick label=complete props=C01 fn=rusty_variant/src/variant.rs::Variant::try_cmp
harness!(cmp_long_integer, 1, {
    let a = vs::i64();
    vs::assume(a >= -2147483648 && a <= 2147483647);
    let b = vs::i32();
    vs::assume(b >= -32768 && b <= 32767);
    let expected = (a as i64).cmp(&(b as i64));
    let va = Variant::VLong(a);
    let vb = Variant::VInteger(b);
    let r = va.try_cmp(&vb);
    assert!(matches!(r, Ok(o) if o == expected), "C01: comparison differs from the order on the exact values");
    reach!(expected == Ordering::Less);
    reach!(expected == Ordering::Equal);
    reach!(expected == Ordering::Greater);
    std::mem::forget(r);
    std::mem::forget(va);
    std::mem::forget(vb);
});

//# harness cmp_long_long tier=quick label=complete props=C01 fn=rusty_variant/src/variant.rs::Variant::try_cmp
harness!(cmp_long_long, 1, {
    let a = vs::i64();
    vs::assume(a >= -2147483648 && a <= 2147483647);
    let b = vs::i64();
    vs::assume(b >= -2147483648 && b <= 2147483647);
    let expected = (a as i64).cmp(&(b as i64));
    let va = Variant::VLong(a);
    let vb = Variant::VLong(b);
    let r = va.try_cmp(&vb);
    assert!(matches!(r, Ok(o) if o == expected), "C01: comparison differs from the order on the exact values");
    reach!(expected == Ordering::Less);
    reach!(expected == Ordering::Equal);
    reach!(expected == Ordering::Greater);
    std::mem::forget(r);
    std::mem::forget(va);
    std::mem::forget(vb);
});

//# harness cmp_long_single tier=quick label=complete props=C01 fn=rusty_variant/src/variant.rs::Variant::try_cmp
harness!(cmp_long_single, 1, {
    let a = vs::i64();
    vs::assume(a >= -2147483648 && a <= 2147483647);
    let b = vs::f32();
    vs::assume(b.is_finite());
    vs::assume(a >= -TWO24 && a <= TWO24); // exactly representable as SINGLE
    let x = a as f64; // exact
    let y = b as f64; // exact
    vs::assume(x == y || (x - y).abs() >= 0.00002); // outside the fuzz of ApproximateCmp
    let expected = if x < y { Ordering::Less } else if x > y { Ordering::Greater } else { Ordering::Equal };
    let va = Variant::VLong(a);
    let vb = Variant::VSingle(b);
    let r = va.try_cmp(&vb);
    assert!(matches!(r, Ok(o) if o == expected), "C01: comparison differs from the order on the exact values");
    reach!(expected == Ordering::Less);
    reach!(expected == Ordering::Equal);
    reach!(expected == Ordering::Greater);
    std::mem::forget(r);
    std::mem::forget(va);
    std::mem::forget(vb);
});

//# harness cmp_long_double tier=quick label=complete props=C01 fn=rusty_variant/src/variant.rs::Variant::try_cmp
harness!(cmp_long_double, 1, {
    let a = vs::i64();
    vs::assume(a >= -2147483648 && a <= 2147483647);
    let b = vs::f64();
    vs::assume(b.is_finite());
    let x = a as f64; // exact
    let y = b as f64; // exact
    vs::assume(x == y || (x - y).abs() >= 0.00002); // outside the fuzz of ApproximateCmp
    let expected = if x < y { Ordering::Less } else if x > y { Ordering::Greater } else { Ordering::Equal };
    let va = Variant::VLong(a);
    let vb = Variant::VDouble(b);
    let r = va.try_cmp(&vb);
    assert!(matches!(r, Ok(o) if o == expected), "C01: comparison differs from the order on the exact values");
    reach!(expected == Ordering::Less);
    reach!(expected == Ordering::Equal);
    reach!(expected == Ordering::Greater);
    std::mem::forget(r);
    std::mem::forget(va);
    std::mem::forget(vb);
});

//# harness cmp_single_integer tier=quick label=complete props=C01 fn=rusty_variant/src/variant.rs::Variant::try_cmp
harness!(cmp_single_integer, 1, {
    let a = vs::f32();
    vs::assume(a.is_finite());
    let b = vs::i32();
    vs::assume(b >= -32768 && b <= 32767);
    let x = a as f64; // exact
    let y = b as f64; // exact
    vs::assume(x == y || (x - y).abs() >= 0.00002); // outside the fuzz of ApproximateCmp
    let expected = if x < y { Ordering::Less } else if x > y { Ordering::Greater } else { Ordering::Equal };
    let va = Variant::VSingle(a);
    let vb = Variant::VInteger(b);
    let r = va.try_cmp(&vb);
    assert!(matches!(r, Ok(o) if o == expected), "C01: comparison differs from the order on the exact values");
    reach!(expected == Ordering::Less);
    reach!(expected == Ordering::Equal);
    reach!(expected == Ordering::Greater);
    std::mem::forget(r);
    std::mem::forget(va);
    std::mem::forget(vb);
});

//# harness cmp_single_long tier=quick label=complete props=C01 fn=rusty_variant/src/variant.rs::Variant::try_cmp
harness!(cmp_single_long, 1, {
    let a = vs::f32();
    vs::assume(a.is_finite());
    let b = vs::i64();
    vs::assume(b >= -2147483648 && b <= 2147483647);
    vs::assume(b >= -TWO24 && b <= TWO24); // exactly representable as SINGLE
    let x = a as f64; // exact
    let y = b as f64; // exact
    vs::assume(x == y || (x - y).abs() >= 0.00002); // outside the fuzz of ApproximateCmp
    let expected = if x < y { Ordering::Less } else if x > y { Ordering::Greater } else { Ordering::Equal };
    let va = Variant::VSingle(a);
    let vb = Variant::VLong(b);
    let r = va.try_cmp(&vb);
    assert!(matches!(r, Ok(o) if o == expected), "C01: comparison differs from the order on the exact values");
    reach!(expected == Ordering::Less);
    reach!(expected == Ordering::Equal);
    reach!(expected == Ordering::Greater);
    std::mem::forget(r);
    std::mem::forget(va);
    std::mem::forget(vb);
});

//# harness cmp_single_single tier=quick label=complete props=C01 fn=rusty_variant/src/variant.rs::Variant::try_cmp
harness!(cmp_single_single, 1, {
    let a = vs::f32();
    vs::assume(a.is_finite());
    let b = vs::f32();
    vs::assume(b.is_finite());
    let x = a as f64; // exact
    let y = b as f64; // exact
    vs::assume(x == y || (x - y).abs() >= 0.00002); // outside the fuzz of ApproximateCmp
    let expected = if x < y { Ordering::Less } else if x > y { Ordering::Greater } else { Ordering::Equal };
    let va = Variant::VSingle(a);
    let vb = Variant::VSingle(b);
    let r = va.try_cmp(&vb);
    assert!(matches!(r, Ok(o) if o == expected), "C01: comparison differs from the order on the exact values");
    reach!(expected == Ordering::Less);
    reach!(expected == Ordering::Equal);
    reach!(expected == Ordering::Greater);
    std::mem::forget(r);
    std::mem::forget(va);
    std::mem::forget(vb);
});

//# harness cmp_single_double tier=quick label=complete props=C01 fn=rusty_variant/src/variant.rs::Variant::try_cmp
harness!(cmp_single_double, 1, {
    let a = vs::f32();
    vs::assume(a.is_finite());
    let b = vs::f64();
    vs::assume(b.is_finite());
    let x = a as f64; // exact
    let y = b as f64; // exact
    vs::assume(x == y || (x - y).abs() >= 0.00002); // outside the fuzz of ApproximateCmp
    let expected = if x < y { Ordering::Less } else if x > y { Ordering::Greater } else { Ordering::Equal };
    let va = Variant::VSingle(a);
    let vb = Variant::VDouble(b);
    let r = va.try_cmp(&vb);
    assert!(matches!(r, Ok(o) if o == expected), "C01: comparison differs from the order on the exact values");
    reach!(expected == Ordering::Less);
    reach!(expected == Ordering::Equal);
    reach!(expected == Ordering::Greater);
    std::mem::forget(r);
    std::mem::forget(va);
    std::mem::forget(vb);
});

//# harness cmp_double_integer tier=quick label=complete props=C01 fn=rusty_variant/src/variant.rs::Variant::try_cmp
harness!(cmp_double_integer, 1, {
    let a = vs::f64();
    vs::assume(a.is_finite());
    let b = vs::i32();
    vs::assume(b >= -32768 && b <= 32767);
    let x = a as f64; // exact
    let y = b as f64; // exact
    vs::assume(x == y || (x - y).abs() >= 0.00002); // outside the fuzz of ApproximateCmp
    let expected = if x < y { Ordering::Less } else if x > y { Ordering::Greater } else { Ordering::Equal };
    let va = Variant::VDouble(a);
    let vb = Variant::VInteger(b);
    let r = va.try_cmp(&vb);
    assert!(matches!(r, Ok(o) if o == expected), "C01: comparison differs from the order on the exact values");
    reach!(expected == Ordering::Less);
    reach!(expected == Ordering::Equal);
    reach!(expected == Ordering::Greater);
    std::mem::forget(r);
    std::mem::forget(va);
    std::mem::forget(vb);
});

//# harness cmp_double_long tier=quick label=complete props=C01 fn=rusty_variant/src/variant.rs::Variant::try_cmp
harness!(cmp_double_long, 1, {
    let a = vs::f64();
    vs::assume(a.is_finite());
    let b = vs::i64();
    vs::assume(b >= -2147483648 && b <= 2147483647);
    let x = a as f64; // exact
    let y = b as f64; // exact
    vs::assume(x == y || (x - y).abs() >= 0.00002); // outside the fuzz of ApproximateCmp
    let expected = if x < y { Ordering::Less } else if x > y { Ordering::Greater } else { Ordering::Equal };
    let va = Variant::VDouble(a);
    let vb = Variant::VLong(b);
    let r = va.try_cmp(&vb);
    assert!(matches!(r, Ok(o) if o == expected), "C01: comparison differs from the order on the exact values");
    reach!(expected == Ordering::Less);
    reach!(expected == Ordering::Equal);
    reach!(expected == Ordering::Greater);
    std::mem::forget(r);
    std::mem::forget(va);
    std::mem::forget(vb);
});

//# harness cmp_double_single tier=quick label=complete props=C01 fn=rusty_variant/src/variant.rs::Variant::try_cmp
harness!(cmp_double_single, 1, {
    let a = vs::f64();
    vs::assume(a.is_finite());
    let b = vs::f32();
    vs::assume(b.is_finite());
    let x = a as f64; // exact
    let y = b as f64; // exact
    vs::assume(x == y || (x - y).abs() >= 0.00002); // outside the fuzz of ApproximateCmp
    let expected = if x < y { Ordering::Less } else if x > y { Ordering::Greater } else { Ordering::Equal };
    let va = Variant::VDouble(a);
    let vb = Variant::VSingle(b);
    let r = va.try_cmp(&vb);
    assert!(matches!(r, Ok(o) if o == expected), "C01: comparison differs from the order on the exact values");
    reach!(expected == Ordering::Less);
    reach!(expected == Ordering::Equal);
    reach!(expected == Ordering::Greater);
    std::mem::forget(r);
    std::mem::forget(va);
    std::mem::forget(vb);
});

//# harness cmp_double_double tier=quick label=complete props=C01 fn=rusty_variant/src/variant.rs::Variant::try_cmp
harness!(cmp_double_double, 1, {
    let a = vs::f64();
    vs::assume(a.is_finite());
    let b = vs::f64();
    vs::assume(b.is_finite());
    let x = a as f64; // exact
    let y = b as f64; // exact
    vs::assume(x == y || (x - y).abs() >= 0.00002); // outside the fuzz of ApproximateCmp
    let expected = if x < y { Ordering::Less } else if x > y { Ordering::Greater } else { Ordering::Equal };
    let va = Variant::VDouble(a);
    let vb = Variant::VDouble(b);
    let r = va.try_cmp(&vb);
    assert!(matches!(r, Ok(o) if o == expected), "C01: comparison differs from the order on the exact values");
    reach!(expected == Ordering::Less);
    reach!(expected == Ordering::Equal);
    reach!(expected == Ordering::Greater);
    std::mem::forget(r);
    std::mem::forget(va);
    std::mem::forget(vb);
});

//# harness cmp_string_string tier=quick label=bounded(len<=1) props=C01 fn=rusty_variant/src/variant.rs::Variant::try_cmp
harness!(cmp_string_string, 3, {
    let ca = vs::u8();
    let cb = vs::u8();
    vs::assume(ca < 128 && cb < 128);
    let ea = vs::bool();
    let eb = vs::bool();
    let mut sa = String::new();
    if !ea {
        sa.push(ca as char);
    }
    let mut sb = String::new();
    if !eb {
        sb.push(cb as char);
    }
    let va = Variant::VString(sa);
    let vb = Variant::VString(sb);
    let r = va.try_cmp(&vb);
    // byte-lexicographic order: the empty string is least
    let expected = match (ea, eb) {
        (true, true) => Ordering::Equal,
        (true, false) => Ordering::Less,
        (false, true) => Ordering::Greater,
        (false, false) => ca.cmp(&cb),
    };
    assert!(matches!(r, Ok(o) if o == expected), "C01: string comparison is not the lexicographic order");
    reach!(expected == Ordering::Less && !ea);
    reach!(expected == Ordering::Equal && !ea);
    std::mem::forget(r);
    std::mem::forget(va);
    std::mem::forget(vb);
});
