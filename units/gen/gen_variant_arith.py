HEAD = r'''//# unit variant_arith kind=kani_in crate=rusty_variant inject=rusty_variant/src/variant.rs
//! C01 / C06 — the primitive arithmetic, logical and relational steps of the VM (`Variant::plus, minus,
//! multiply, divide, modulo, negate, unary_not, and, or, try_cmp`), one obligation per operator x operand-kind
//! pair, payloads fully symbolic under the type invariant `valid(a) && valid(b)`.
//! Two postconditions per obligation:
//!  (C01) the reference result.  Result type = the wider operand type (INTEGER < LONG < SINGLE < DOUBLE).
//!        Whole-number result types: the mathematical result when it fits the type.  SINGLE/DOUBLE: the IEEE-754
//!        operation in that format on the operands converted to it.  `/`: floating-point division -- the IEEE quotient
//!        in the format both operands convert to exactly (INTEGER -> SINGLE, LONG -> DOUBLE, the wider of the two), a
//!        divisor that is exactly zero -> Division by zero, a quotient that is not finite -> Overflow.  The VM and the
//!        constant folder divide through `rusty_linter::core::qb_divide` (units qb_divide, type_table), which converts BOTH
//!        operands to the type of the quotient first, so they reach `Variant::divide` on SINGLE x SINGLE and
//!        DOUBLE x DOUBLE only; the mixed pairs are kept under contract as the public API.  For LONG x SINGLE and
//!        SINGLE x LONG that API divides in SINGLE format (the repository's unit tests divide::long::test_single and
//!        divide::single::test_long demand a SINGLE result there): the reference of these two pairs says so.
//!        MOD: operands rounded to nearest, both must
//!        fit INTEGER, remainder with the sign of the dividend.  Comparisons: the order on the exact values, for
//!        floats inside the domain `x = y or |x - y| >= 2e-5` (there the deliberate 1e-5 fuzz of `ApproximateCmp`
//!        cannot matter) and, when a LONG meets a SINGLE, |long| <= 2^24 (exactly representable).
//!  (C06) `Ok(v) => valid(v)`; otherwise the error is Overflow or DivisionByZero — never a wrapped or
//!        out-of-range value, never a panic (debug-build overflow checks are on under Kani).
//! Known findings are carved out with `if KF_<id> { assume(..) }` and reproduced by `finding_*` harnesses:
//!  F4  + - * on whole numbers do not range-check          F14 + - * on floats store inf instead of Overflow
//!  F26 `/` snaps quotients within 1e-4 of a whole number and saturates whole quotients >= 2^63
//!  F17 `/` reports Division by zero for 0 < |divisor| < 1e-5   F18 MOD gives TypeMismatch for |operand| >= 2^31
//!  F19 `/` converts LONG operands to SINGLE (loses precision beyond 2^24)   F20 a - b computed as -(b - a) gives -0
//! (The main `divide_*` harnesses are thorough-tier attempts -- two copies of a float divider.  Therefore the reproduction
//!  harnesses of F26 and F19 are `standalone=1`: once the finding is repaired they stay as ordinary quick-tier obligations;
//!  the clause F17 broke -- Division by zero exactly for a divisor that is exactly zero -- is asserted over the whole
//!  domain by the quick `divide_*_valid` harnesses.)
//! Loop-free except AND/OR (16-iteration loops unwound 18): complete.

const IMIN: i64 = -32768;
const IMAX: i64 = 32767;
const LMIN: i64 = -2147483648;
const LMAX: i64 = 2147483647;
const TWO24: i64 = 16777216;

fn valid(v: &Variant) -> bool {
    match v {
        Variant::VInteger(i) => (-32768..=32767).contains(i),
        Variant::VLong(l) => (-2147483648..=2147483647).contains(l),
        Variant::VSingle(f) => f.is_finite(),
        Variant::VDouble(d) => d.is_finite(),
        _ => true,
    }
}
type R = Result<Variant, VariantError>;
fn is_ovf(r: &R) -> bool {
    matches!(r, Err(VariantError::Overflow))
}
fn is_dz(r: &R) -> bool {
    matches!(r, Err(VariantError::DivisionByZero))
}
fn is_integer(r: &R, m: i64) -> bool {
    matches!(r, Ok(Variant::VInteger(n)) if *n as i64 == m)
}
fn is_long(r: &R, m: i64) -> bool {
    matches!(r, Ok(Variant::VLong(n)) if *n == m)
}
fn is_single(r: &R, x: f32) -> bool {
    matches!(r, Ok(Variant::VSingle(f)) if f.to_bits() == x.to_bits())
}
fn is_double(r: &R, x: f64) -> bool {
    matches!(r, Ok(Variant::VDouble(f)) if f.to_bits() == x.to_bits())
}
/// exact numeric value of a valid numeric result (every valid value is a double)
fn exact(v: &Variant) -> f64 {
    match v {
        Variant::VInteger(i) => *i as f64,
        Variant::VLong(l) => *l as f64,
        Variant::VSingle(f) => *f as f64,
        Variant::VDouble(d) => *d,
        _ => f64::NAN,
    }
}
/// (C06)
fn c06(r: &R) {
    match r {
        Ok(v) => assert!(valid(v), "C06: the result violates the type invariant of its own type"),
        Err(e) => assert!(matches!(e, VariantError::Overflow | VariantError::DivisionByZero), "C06: error other than Overflow / Division by zero"),
    }
}
'''

K = {
    'integer': dict(decl='let {n} = vs::i32();\n    vs::assume({n} >= -32768 && {n} <= 32767);', ctor='Variant::VInteger({n})', rank=0, t='i64'),
    'long': dict(decl='let {n} = vs::i64();\n    vs::assume({n} >= -2147483648 && {n} <= 2147483647);', ctor='Variant::VLong({n})', rank=1, t='i64'),
    'single': dict(decl='let {n} = vs::f32();\n    vs::assume({n}.is_finite());', ctor='Variant::VSingle({n})', rank=2, t='f32'),
    'double': dict(decl='let {n} = vs::f64();\n    vs::assume({n}.is_finite());', ctor='Variant::VDouble({n})', rank=3, t='f64'),
}
ORDER = ['integer', 'long', 'single', 'double']
SYM = {'plus': '+', 'minus': '-', 'multiply': '*'}
FILE = 'rusty_variant/src/variant.rs::Variant::'
out = [HEAD]


def wider(k1, k2):
    return k1 if K[k1]['rank'] >= K[k2]['rank'] else k2


def H(name, props, fn, body, unwind=1, label='complete', extra='', smt=False, tier='quick'):
    out.append('\n//# harness %s tier=%s label=%s props=%s fn=%s%s%s%s\n%s!(%s, %d, {\n%s});\n' %
               (name, tier, label, props, FILE, fn, extra, ' solver=cvc5' if smt else '', 'harness_cvc5' if smt else 'harness', name, unwind, body))


# ------------------------------------------------------------------------------------------- + - *
out.append('\n// ---------------------------------------------------------------------------------------------\n// plus, minus, multiply\n')
for op in ('plus', 'minus', 'multiply'):
    for k1 in ORDER:
        for k2 in ORDER:
            w = wider(k1, k2)
            decl = '    ' + K[k1]['decl'].format(n='a') + '\n    ' + K[k2]['decl'].format(n='b') + '\n'
            call = '    let r = %s.%s(%s);\n' % (K[k1]['ctor'].format(n='a'), op, K[k2]['ctor'].format(n='b'))
            name = '%s_%s_%s' % (op, k1, k2)
            if w in ('integer', 'long'):
                lo, hi = ('IMIN', 'IMAX') if w == 'integer' else ('LMIN', 'LMAX')
                if op == 'multiply' and (k1, k2) == ('long', 'integer'):
                    ref = '    let m: i64 = (b as i64) * (a as i64); // the mathematical result (no overflow in 64 bits)\n    let fits = m >= %s && m <= %s;\n' % (lo, hi)
                else:
                    ref = '    let m: i64 = (a as i64) %s (b as i64); // the mathematical result (no overflow in 64 bits)\n    let fits = m >= %s && m <= %s;\n' % (SYM[op], lo, hi)
                post = ('    if fits {\n        assert!(is_%s(&r, m), "C01: not the mathematical result in the wider operand type");\n    } else {\n'
                        '        assert!(is_ovf(&r), "C06: a result that does not fit must raise Overflow");\n    }\n    c06(&r);\n' % w)
                body = decl + ref + '    if KF_F4 {\n        vs::assume(fits);\n    }\n' + call + post + \
                    '    reach!(m == %s);\n    reach!(m == %s);\n    std::mem::forget(r);\n' % (hi, lo)
                H(name, 'C01,C06', op, body)
                fbody = decl + ref + '    vs::assume(!fits);\n' + call + \
                    '    assert!(is_ovf(&r), "C06: a result that does not fit must raise Overflow, not be stored");\n    std::mem::forget(r);\n'
                H('finding_f4_%s' % name, 'C06', op, fbody, extra=' expect=finding:F4')
            else:
                t = K[w]['t']
                commuted = op == 'multiply' and (k1, k2) in (('integer', 'single'), ('long', 'single'), ('integer', 'double'), ('long', 'double'), ('double', 'single'))
                expr = 'y * x; // IEEE-754 product (commutative) in the wider operand format' if commuted else 'x %s y; // IEEE-754 operation in the wider operand format' % SYM[op]
                ref = '    let x = a as %s;\n    let y = b as %s;\n    let z = %s\n' % (t, t, expr)
                smt = op == 'multiply' and w == 'single'       # no double inside the Variant: CBMC's SMT back end works
                slow = op == 'multiply' and w == 'double'      # two 53-bit multipliers for the SAT solver
                kw = dict(smt=smt, tier='thorough' if slow else 'quick', extra=' timeout=1800 attempt=1' if slow else '')
                swapped = op == 'minus' and (k1, k2) in (('double', 'single'), ('integer', 'single'), ('integer', 'double'), ('long', 'single'), ('long', 'double'))
                carve = '    if KF_F14 {\n        vs::assume(z.is_finite());\n    }\n'
                if swapped:
                    carve += '    if KF_F20 {\n        vs::assume(x != y);\n    }\n'
                post = ('    if z.is_finite() {\n        assert!(is_%s(&r, z), "C01: not the IEEE-754 result in the wider operand format");\n    } else {\n'
                        '        assert!(is_ovf(&r), "C06: a non-finite result must raise Overflow");\n    }\n    c06(&r);\n' % w)
                body = decl + ref + carve + call + post + '    reach!(z == 2.5);\n    reach!(z < -1.0e30);\n    std::mem::forget(r);\n'
                H(name, 'C01,C06', op, body, **kw)
                can_overflow = (op == 'multiply') or (k1 == k2)
                if can_overflow:
                    fbody = decl + ref + '    vs::assume(!z.is_finite());\n' + call + \
                        '    assert!(is_ovf(&r), "C06: a non-finite result must raise Overflow, not be stored");\n    std::mem::forget(r);\n'
                    H('finding_f14_%s' % name, 'C06', op, fbody, extra=' expect=finding:F14')
                if swapped:
                    fbody = decl + ref + '    vs::assume(x == y);\n' + call + \
                        '    assert!(is_%s(&r, 0.0), "C01: x - x is +0 (printed as 0), not -0");\n    std::mem::forget(r);\n' % w
                    H('finding_f20_%s' % name, 'C01', op, fbody, extra=' expect=finding:F20')

# ------------------------------------------------------------------------------------------- divide
out.append('\n// ---------------------------------------------------------------------------------------------\n// divide\n')


def div_parts(k1, k2):
    # floating-point division: INTEGER converts to SINGLE, LONG to DOUBLE, the quotient has the wider format;
    # LONG x SINGLE / SINGLE x LONG: SINGLE format at this API (pinned by the repository's unit tests, see the unit header)
    if 'double' in (k1, k2) or ('long' in (k1, k2) and 'single' not in (k1, k2)):
        fmt = 'f64'
    else:
        fmt = 'f32'
    decl = '    ' + K[k1]['decl'].format(n='a') + '\n    ' + K[k2]['decl'].format(n='b') + '\n'
    call = '    let r = %s.divide(%s);\n' % (K[k1]['ctor'].format(n='a'), K[k2]['ctor'].format(n='b'))
    zero = 'b == 0' if K[k2]['t'] == 'i64' else 'b == 0.0'
    ref = ('    let x = a as %s;\n    let y = b as %s;\n    let q = if %s { 0.0 } else { x / y }; // IEEE-754 quotient\n'
           '    if KF_F26 {\n        vs::assume(q.is_finite()); // a non-finite quotient: finding F26\n    }\n    let d = if q.is_finite() { (q - q.round()).abs() } else { 1.0 }; // distance to the nearest whole number (used by the F26 carve-out only)\n') % (fmt, fmt, zero)
    f19 = []
    if 'double' not in (k1, k2):
        if k1 == 'long':
            f19.append('a >= -TWO24 && a <= TWO24')
        if k2 == 'long':
            f19.append('b >= -TWO24 && b <= TWO24')
    f17 = None
    if K[k2]['t'] in ('f32', 'f64'):
        f17 = 'b == 0.0 || b.abs() >= 0.00001'
    f16 = 'd > 0.0001 || (d == 0.0 && q.abs() < 9.2e18)'
    return fmt, decl, call, ref, zero, f19, f17, f16


DIVPOST = '''    if %(zero)s {
        assert!(is_dz(&r), "C01: a zero divisor must raise Division by zero");
    } else {
        assert!(!is_dz(&r), "C01: Division by zero although the divisor is not zero");
        if q.is_finite() {
            assert!(matches!(&r, Ok(v) if exact(v) == q as f64), "C01: not the IEEE-754 quotient");
        } else {
            assert!(is_ovf(&r), "C06: a quotient that is not finite must raise Overflow");
        }
    }
'''
for k1 in ORDER:
    for k2 in ORDER:
        fmt, decl, call, ref, zero, f19, f17, f16 = div_parts(k1, k2)
        carve = ''
        if f19:
            carve += '    if KF_F19 {\n        vs::assume(%s);\n    }\n' % ' && '.join(f19)
        if f17:
            carve += '    if KF_F17 {\n        vs::assume(%s);\n    }\n' % f17
        carve += '    if KF_F26 {\n        vs::assume(%s || %s);\n    }\n' % (zero, f16)
        body = decl + ref + carve + call + DIVPOST % dict(zero=zero) + \
            '    c06(&r);\n    reach!(q == 3.5);\n    reach!(is_dz(&r));\n    reach!(matches!(&r, Ok(Variant::VInteger(_))));\n    std::mem::forget(r);\n'
        slow = fmt == 'f64'
        H('divide_%s_%s' % (k1, k2), 'C01,C06', 'divide', body, tier='thorough', extra=' timeout=1800 attempt=1')
        # the C06 half alone needs no reference quotient: every valid operand pair, quick tier
        lim = ''
        if K[k2]['t'] != 'i64' and K[k1]['t'] != 'i64':
            lim = '    if KF_F26 {\n        vs::assume((a as f64).abs() <= %s); // |divisor| >= 1e-5 whenever a division happens, so the quotient is finite (beyond: F26)\n    }\n' % ('3.0e33' if fmt == 'f32' else '1.0e303')
        # ... and so does the clause of C01 that F17 broke: Division by zero exactly for a divisor that is exactly zero
        zcarve = ('    if KF_F17 {\n        vs::assume(%s);\n    }\n' % f17) if f17 else ''
        vbody = decl + lim + zcarve + call + '    c06(&r);\n    assert!(is_dz(&r) == (%s), "C01: Division by zero exactly when the divisor is exactly zero");\n' % zero + \
            '    reach!(matches!(&r, Ok(Variant::VInteger(_))));\n    reach!(matches!(&r, Ok(Variant::VSingle(_)) | Ok(Variant::VDouble(_))));\n    reach!(is_dz(&r));\n    std::mem::forget(r);\n'
        H('divide_%s_%s_valid' % (k1, k2), 'C01,C06', 'divide', vbody)
# finding reproductions on representative pairs
for fid, pairs in (('f26', [('integer', 'integer'), ('single', 'single'), ('double', 'double')]),
                   ('f17', [('integer', 'single'), ('double', 'double')]),
                   ('f19', [('long', 'integer'), ('long', 'long')])):
    for k1, k2 in pairs:
        fmt, decl, call, ref, zero, f19, f17, f16 = div_parts(k1, k2)
        pre = ''
        if fid == 'f26':
            pre = ''
            if (k1, k2) == ('single', 'single'):
                pre = '    vs::assume(a == 1.0e27 && b == 1.0); // X! = 1E27 : PRINT X! / 1  (whole quotient >= 2^63 saturates)\n'
            if (k1, k2) == ('double', 'double'):
                pre = '    vs::assume(a == 1.0 && b == 20000.0); // PRINT 1# / 20000#  (quotient within 1e-4 of a whole number is snapped)\n'
            pre += '    vs::assume(!(%s) && !(%s));\n' % (zero, f16)
            if f17:
                pre += '    vs::assume(%s);\n' % f17
        elif fid == 'f17':
            pre = '    vs::assume(!(%s));\n' % f17
        else:
            body = decl + '    vs::assume(b == 1 && !(%s)); // a LONG beyond 2^24 divided by 1\n' % ' && '.join(f19) + call + \
                '    assert!(matches!(&r, Ok(v) if exact(v) == a as f64), "C01: x / 1 is not x");\n    std::mem::forget(r);\n'
            H('finding_%s_divide_%s_%s' % (fid, k1, k2), 'C01', 'divide', body, extra=' expect=finding:%s standalone=1' % fid.upper())
            continue
        body = decl + ref + pre + call + DIVPOST % dict(zero=zero) + '    std::mem::forget(r);\n'
        # f26: standalone (the value clause on the snapped inputs is decidable: 16-bit operands / concrete inputs);
        # f17: not standalone -- its clause (Division by zero only for a zero divisor) is part of the quick `divide_*_valid`
        # harnesses over the whole domain, the value of the quotient on these inputs is the main (thorough) harness
        # (the INTEGER / INTEGER instance needs 5 minutes of CBMC - two 16-bit operands through the float divider -, the long pole
        #  of the quick checks of C01: thorough tier; its domain is covered in the quick tier by divide_integer_integer_valid for
        #  the error clauses and by the two concrete-input instances below for the value clause)
        H('finding_%s_divide_%s_%s' % (fid, k1, k2), 'C01', 'divide', body,
          extra=' expect=finding:%s%s' % (fid.upper(), ' standalone=1 timeout=1500' if fid == 'f26' else ''),
          tier='thorough' if (fid, k1, k2) == ('f26', 'integer', 'integer') else 'quick')

# ------------------------------------------------------------------------------------------- modulo
out.append('\n// ---------------------------------------------------------------------------------------------\n// modulo\n')


def mod_parts(k1, k2):
    decl = '    ' + K[k1]['decl'].format(n='a') + '\n    ' + K[k2]['decl'].format(n='b') + '\n'
    call = '    let r = %s.modulo(%s);\n' % (K[k1]['ctor'].format(n='a'), K[k2]['ctor'].format(n='b'))
    ref = ''
    f18 = []
    for n, k in (('a', k1), ('b', k2)):
        if K[k]['t'] == 'i64':
            ref += '    let %sfit = (%s as i64) >= IMIN && (%s as i64) <= IMAX;\n    let r%s: i64 = %s as i64;\n' % (n, n, n, n, n)
        else:
            ref += ('    let %sx = %s as f64;\n    vs::assume((%sx - %sx.trunc()).abs() != 0.5); // not an exact tie: "nearest" is unique\n'
                    '    let %sn = %sx.round(); // nearest whole number\n    let %sfit = %sn >= -32768.0 && %sn <= 32767.0;\n'
                    '    let r%s: i64 = if %sfit { %sn as i64 } else { if %sn == 0.0 { 0 } else { 1 } };\n') % ((n,) * 13)
            f18.append('%sx.abs() < 2147483647.5' % n)
    return decl, call, ref, f18


MODPOST = '''    if rb == 0 {
        assert!(is_dz(&r), "C01: MOD by (a value rounding to) zero must raise Division by zero");
    } else if !afit || !bfit {
        assert!(is_ovf(&r), "C06: an operand that does not fit INTEGER must raise Overflow");
    } else {
        %s
    }
'''
BOUNDS = '''match &r {
            Ok(Variant::VInteger(n)) => {
                let n = *n as i64;
                assert!(n.abs() < rb.abs() && (n == 0 || (n < 0) == (ra < 0)), "C01: a remainder is smaller than the divisor and has the sign of the dividend");
            }
            _ => assert!(false, "C01: MOD of two operands that fit INTEGER must yield an INTEGER"),
        }'''
EXACT = 'assert!(is_integer(&r, ((ra as i32) % (rb as i32)) as i64), "C01: not the remainder (sign of the dividend) of the rounded operands");'
for k1 in ORDER:
    for k2 in ORDER:
        decl, call, ref, f18 = mod_parts(k1, k2)
        carve = ''
        if f18:
            carve = '    if KF_F18 {\n        vs::assume(%s);\n    }\n' % ' && '.join(f18)
        haslong = 'long' in (k1, k2)
        if haslong:
            carve += '    if KF_F21 {\n        vs::assume(rb == 0 || !afit || !bfit);\n    }\n'
        reach = '    reach!(is_dz(&r));\n' + ('    reach!(is_integer(&r, -1));\n' if not haslong else '') + \
            ('    reach!(is_ovf(&r));\n' if (k1, k2) != ('integer', 'integer') else '')
        body = decl + ref + carve + call + MODPOST % BOUNDS + '    c06(&r);\n' + reach + '    std::mem::forget(r);\n'
        H('modulo_%s_%s' % (k1, k2), 'C01,C06', 'modulo', body, unwind=1)
        if not haslong:
            # the exact remainder needs two 32-bit dividers to be proved equal: slow for the SAT solver
            body = decl + ref + carve + '    vs::assume(rb != 0 && afit && bfit);\n' + call + MODPOST % EXACT + '    reach!(is_integer(&r, -1));\n    std::mem::forget(r);\n'
            H('modulo_%s_%s_exact' % (k1, k2), 'C01', 'modulo', body, unwind=1, tier='thorough', extra=' timeout=1800 attempt=1')
for k1, k2 in (('double', 'integer'), ('integer', 'single')):
    decl, call, ref, f18 = mod_parts(k1, k2)
    body = decl + ref + '    vs::assume(!(%s));\n' % ' && '.join(f18) + call + MODPOST % BOUNDS + '    c06(&r);\n    std::mem::forget(r);\n'
    H('finding_f18_modulo_%s_%s' % (k1, k2), 'C01,C06,C12', 'modulo', body, unwind=1, extra=' expect=finding:F18')
for k1, k2 in (('long', 'integer'), ('integer', 'long'), ('long', 'long')):
    decl, call, ref, f18 = mod_parts(k1, k2)
    body = decl + ref + '    vs::assume(rb != 0 && afit && bfit);\n' + call + MODPOST % BOUNDS + '    c06(&r);\n    std::mem::forget(r);\n'
    H('finding_f21_modulo_%s_%s' % (k1, k2), 'C01', 'modulo', body, unwind=1, extra=' expect=finding:F21')

# ------------------------------------------------------------------------------------------- unary
out.append('\n// ---------------------------------------------------------------------------------------------\n// negate, unary_not\n')
for k in ORDER:
    decl = '    ' + K[k]['decl'].format(n='a') + '\n'
    call = '    let r = %s.negate();\n' % K[k]['ctor'].format(n='a')
    if K[k]['t'] == 'i64':
        lo, hi = ('IMIN', 'IMAX') if k == 'integer' else ('LMIN', 'LMAX')
        body = decl + '    let m: i64 = -(a as i64);\n    let fits = m >= %s && m <= %s;\n' % (lo, hi) + call + \
            '    if fits {\n        assert!(is_%s(&r, m), "C01: not the negated value");\n    } else {\n        assert!(is_ovf(&r), "C06: -MIN does not fit and must raise Overflow");\n    }\n    c06(&r);\n    reach!(!fits);\n    reach!(m == %s);\n    std::mem::forget(r);\n' % (k, hi)
    else:
        body = decl + call + '    assert!(is_%s(&r, -a), "C01: not the negated value");\n    c06(&r);\n    reach!(a == 1.5);\n    std::mem::forget(r);\n' % k
    H('negate_%s' % k, 'C01,C06', 'negate', body)
for k in ORDER:
    decl = '    ' + K[k]['decl'].format(n='a') + '\n'
    call = '    let r = %s.unary_not();\n' % K[k]['ctor'].format(n='a')
    if K[k]['t'] == 'i64':
        body = decl + call + '    let m: i64 = !(a as i64); // bitwise complement of the two\'s-complement word = -a - 1\n    assert!(is_%s(&r, m), "C01/C19: NOT is not the bitwise complement");\n    c06(&r);\n    reach!(m == %s);\n    std::mem::forget(r);\n' % (k, 'IMAX' if k == 'integer' else 'LMAX')
    else:
        body = decl + '    vs::assume(a.abs() <= 4194304.0 && (a - a.trunc()).abs() != 0.5); // exactly-representable domain, no tie\n' + call + \
            '    let m: i64 = !(a.round() as i64); // complement of the operand rounded to nearest\n    assert!(matches!(&r, Ok(v) if exact(v) == m as f64), "C01: NOT is not the complement of the rounded operand");\n    c06(&r);\n    reach!(m == -3);\n    std::mem::forget(r);\n'
    H('not_%s' % k, 'C01,C06,C19', 'unary_not', body)
# NOT on floats over the whole domain: result stays valid (C06 only)
for k in ('single', 'double'):
    decl = '    ' + K[k]['decl'].format(n='a') + '\n'
    body = decl + '    let r = %s.unary_not();\n    c06(&r);\n    reach!(a > 1.0e30);\n    std::mem::forget(r);\n' % K[k]['ctor'].format(n='a')
    H('not_%s_valid' % k, 'C06', 'unary_not', body)

# ------------------------------------------------------------------------------------------- and / or
out.append('''
// ---------------------------------------------------------------------------------------------
// and, or (INTEGER x INTEGER; the VM casts both operands to INTEGER first: unit type_table)

//# harness and_integer_integer tier=quick label=complete props=C01,C06,C19 fn=rusty_variant/src/variant.rs::Variant::and
harness!(and_integer_integer, 18, {
    let a = vs::i16();
    let b = vs::i16();
    let r = Variant::VInteger(a as i32).and(Variant::VInteger(b as i32));
    assert!(is_integer(&r, (a & b) as i64), "C01/C19: AND is not the bitwise AND of the 16-bit words");
    c06(&r);
    reach!(a & b == 0x0ff0);
    std::mem::forget(r);
});

//# harness or_integer_integer tier=quick label=complete props=C01,C06,C19 fn=rusty_variant/src/variant.rs::Variant::or
harness!(or_integer_integer, 18, {
    let a = vs::i16();
    let b = vs::i16();
    let r = Variant::VInteger(a as i32).or(Variant::VInteger(b as i32));
    assert!(is_integer(&r, (a | b) as i64), "C01/C19: OR is not the bitwise OR of the 16-bit words");
    c06(&r);
    reach!(a | b == 0x0ff0);
    std::mem::forget(r);
});
''')

# ------------------------------------------------------------------------------------------- try_cmp
out.append('\n// ---------------------------------------------------------------------------------------------\n// try_cmp\n')
for k1 in ORDER:
    for k2 in ORDER:
        decl = '    ' + K[k1]['decl'].format(n='a') + '\n    ' + K[k2]['decl'].format(n='b') + '\n'
        pre = ''
        whole = K[k1]['t'] == 'i64' and K[k2]['t'] == 'i64'
        if whole:
            ref = '    let expected = (a as i64).cmp(&(b as i64));\n'
        else:
            if (k1, k2) in (('single', 'long'), ('long', 'single')):
                n = 'a' if k1 == 'long' else 'b'
                pre += '    vs::assume(%s >= -TWO24 && %s <= TWO24); // exactly representable as SINGLE\n' % (n, n)
            ref = ('    let x = a as f64; // exact\n    let y = b as f64; // exact\n'
                   '    vs::assume(x == y || (x - y).abs() >= 0.00002); // outside the fuzz of ApproximateCmp\n'
                   '    let expected = if x < y { Ordering::Less } else if x > y { Ordering::Greater } else { Ordering::Equal };\n')
        body = decl + pre + ref + '    let va = %s;\n    let vb = %s;\n    let r = va.try_cmp(&vb);\n' % (K[k1]['ctor'].format(n='a'), K[k2]['ctor'].format(n='b')) + \
            '    assert!(matches!(r, Ok(o) if o == expected), "C01: comparison differs from the order on the exact values");\n' + \
            '    reach!(expected == Ordering::Less);\n    reach!(expected == Ordering::Equal);\n    reach!(expected == Ordering::Greater);\n' + \
            '    std::mem::forget(r);\n    std::mem::forget(va);\n    std::mem::forget(vb);\n'
        H('cmp_%s_%s' % (k1, k2), 'C01', 'try_cmp', body)

out.append('''
//# harness cmp_string_string tier=quick label=bounded(len<=1) props=C01 fn=rusty_variant/src/variant.rs::Variant::try_cmp
harness!(cmp_string_string, 3, {
    let ca = vs::u8();
    let cb = vs::u8();
    vs::assume(ca < 128 && cb < 128);
    let ea = vs::bool();
    let eb = vs::bool();
    let mut sa = String::new();
    if !ea {
        sa.push(ca as char);
    }
    let mut sb = String::new();
    if !eb {
        sb.push(cb as char);
    }
    let va = Variant::VString(sa);
    let vb = Variant::VString(sb);
    let r = va.try_cmp(&vb);
    // byte-lexicographic order: the empty string is least
    let expected = match (ea, eb) {
        (true, true) => Ordering::Equal,
        (true, false) => Ordering::Less,
        (false, true) => Ordering::Greater,
        (false, false) => ca.cmp(&cb),
    };
    assert!(matches!(r, Ok(o) if o == expected), "C01: string comparison is not the lexicographic order");
    reach!(expected == Ordering::Less && !ea);
    reach!(expected == Ordering::Equal && !ea);
    std::mem::forget(r);
    std::mem::forget(va);
    std::mem::forget(vb);
});
''')
open('' + __import__('os').path.join(__import__('os').path.dirname(__import__('os').path.abspath(__file__)), '..', 'kani_in', '') + 'variant_arith.rs', 'w').write(''.join(out))
