//# unit write_printer kind=kani_in crate=rusty_basic inject=rusty_basic/src/interpreter/write_printer.rs
//# assume "the column stays below 2^32 (it is a usize that only println resets; an overflow needs 2^64 characters without a line break)"
//# assume "the underlying writer accepts every byte it is given (write returns the full length, flush succeeds): the stub writer records the bytes"
// C16 / C18 — the per-device column counter and the bytes a device receives.
// Contract (property statement C16: "a comma pads to the next multiple of 14 columns", "the line ends with
// CR LF", "the column ... restarts after a CR or LF inside a string"; C18: what PRINT # hands to the file):
//   print(s):   bytes handed to the writer = s with every CR and every LF replaced by CR LF, the returned count is
//               that number of bytes; column afterwards = number of characters after the last CR/LF of s if s
//               contains one, otherwise old column + |s|
//   println():  writes exactly CR LF, column = 0
//   move_to_next_print_zone(): from column c the new column is the least multiple of 14 strictly greater than c
//               and exactly (new - c) spaces are written
// String code: bounded (|s| <= 2 symbolic ASCII characters; start columns 0..=41 enumerated concretely).

const CAP: usize = 20;

struct Rec {
    data: [u8; CAP],
    n: usize,
    flushes: usize,
}

impl Rec {
    fn new() -> Self {
        Rec { data: [0; CAP], n: 0, flushes: 0 }
    }
}

impl Write for Rec {
    fn write(&mut self, buf: &[u8]) -> std::io::Result<usize> {
        let mut i = 0;
        while i < buf.len() {
            assert!(self.n < CAP, "harness recorder too small");
            self.data[self.n] = buf[i];
            self.n += 1;
            i += 1;
        }
        Ok(buf.len())
    }
    fn flush(&mut self) -> std::io::Result<()> {
        self.flushes += 1;
        Ok(())
    }
}

fn printer_at(col: usize) -> WritePrinter<Rec> {
    WritePrinter { writer: Rec::new(), last_column: col }
}

fn any_column() -> usize {
    let c = vs::u32() as usize;
    c
}

// the text of the contract for print(s), computed byte by byte
struct Expect {
    data: [u8; CAP],
    n: usize,
    col: usize,
}

fn expect_print(bytes: &[u8], col0: usize) -> Expect {
    let mut e = Expect { data: [0; CAP], n: 0, col: col0 };
    let mut i = 0;
    while i < bytes.len() {
        let b = bytes[i];
        if b == b'\r' || b == b'\n' {
            e.data[e.n] = b'\r';
            e.data[e.n + 1] = b'\n';
            e.n += 2;
            e.col = 0;
        } else {
            e.data[e.n] = b;
            e.n += 1;
            e.col += 1;
        }
        i += 1;
    }
    e
}

fn check_print(bytes: &[u8]) {
    let col0 = any_column();
    let mut p = printer_at(col0);
    let s = unsafe { std::str::from_utf8_unchecked(bytes) }; // ASCII by construction
    let r = p.print(s);
    let e = expect_print(bytes, col0);
    assert!(p.last_column == e.col, "column after print: characters after the last CR/LF, else old column + length");
    assert!(p.writer.n == e.n, "number of bytes handed to the device");
    let mut i = 0;
    while i < e.n {
        assert!(p.writer.data[i] == e.data[i], "bytes handed to the device: s with each CR / LF replaced by CR LF");
        i += 1;
    }
    assert!(matches!(r, Ok(k) if k == e.n), "print returns the number of bytes written");
    std::mem::forget(r);
}

//# harness print_len0 tier=quick label=bounded(|s|=0) props=C16,C18 fn=rusty_basic/src/interpreter/write_printer.rs::WritePrinter::print
harness!(print_len0, 8, {
    let col0 = any_column();
    let mut p = printer_at(col0);
    let r = p.print("");
    assert!(p.last_column == col0, "printing the empty string leaves the column");
    assert!(p.writer.n == 0, "printing the empty string writes nothing");
    assert!(matches!(r, Ok(0)));
    reach!(col0 == 13);
    std::mem::forget(r);
});

//# harness print_len1 tier=quick label=bounded(|s|=1,ascii) props=C16,C18 fn=rusty_basic/src/interpreter/write_printer.rs::WritePrinter::print
harness!(print_len1, 8, {
    let b = [vs::ascii() as u8];
    check_print(&b);
    reach!(b[0] == b'\n');
    reach!(b[0] == b'x');
});

//# harness print_len2 tier=thorough label=bounded(|s|=2,ascii) props=C16,C18 fn=rusty_basic/src/interpreter/write_printer.rs::WritePrinter::print timeout=900
harness!(print_len2, 8, {
    let b = [vs::ascii() as u8, vs::ascii() as u8];
    check_print(&b);
    reach!(b[0] == b'\r' && b[1] == b'\n');
    reach!(b[0] == b'a' && b[1] == b'\n');
});

//# harness print_len2_break_first tier=thorough label=bounded(|s|=2,first_char_CR_or_LF) props=C16,C18 fn=rusty_basic/src/interpreter/write_printer.rs::WritePrinter::print timeout=900
harness!(print_len2_break_first, 8, {
    let b = [if vs::bool() { b'\r' } else { b'\n' }, vs::ascii() as u8];
    check_print(&b);
    reach!(b[0] == b'\r' && b[1] == b'\n');
    reach!(b[1] == b'a');
});

//# harness println_resets tier=quick label=complete props=C16,C18 fn=rusty_basic/src/interpreter/write_printer.rs::WritePrinter::println
harness!(println_resets, 8, {
    let col0 = any_column();
    let mut p = printer_at(col0);
    let r = p.println();
    assert!(p.last_column == 0, "println resets the column");
    assert!(p.writer.n == 2 && p.writer.data[0] == b'\r' && p.writer.data[1] == b'\n', "println writes CR LF");
    assert!(matches!(r, Ok(2)));
    reach!(col0 > 0);
    std::mem::forget(r);
});

fn check_zone(col: usize) {
    let mut p = printer_at(col);
    let r = p.move_to_next_print_zone();
    let next = (col / 14 + 1) * 14; // least multiple of 14 strictly greater than col
    assert!(p.last_column == next, "a comma moves to the next multiple of 14, strictly greater than the old column");
    assert!(p.writer.n == next - col, "exactly new - old characters are written");
    let mut i = 0;
    while i < p.writer.n {
        assert!(p.writer.data[i] == b' ', "the padding consists of spaces");
        i += 1;
    }
    assert!(matches!(r, Ok(k) if k == next - col), "returns the number of bytes written");
    std::mem::forget(r);
}

//# harness zone_from_0_6 tier=quick label=bounded(columns_0..=6_enumerated) props=C16 fn=rusty_basic/src/interpreter/write_printer.rs::WritePrinter::move_to_next_print_zone timeout=900
harness!(zone_from_0_6, 17, {
    let mut col = 0;
    while col < 7 {
        check_zone(col);
        col += 1;
    }
    reach!(col == 7);
});

//# harness zone_from_7_13 tier=quick label=bounded(columns_7..=13_enumerated) props=C16 fn=rusty_basic/src/interpreter/write_printer.rs::WritePrinter::move_to_next_print_zone timeout=900
harness!(zone_from_7_13, 17, {
    let mut col = 7;
    while col < 14 {
        check_zone(col);
        col += 1;
    }
    reach!(col == 14);
});

//# harness zone_from_14_20 tier=quick label=bounded(columns_14..=20_enumerated) props=C16 fn=rusty_basic/src/interpreter/write_printer.rs::WritePrinter::move_to_next_print_zone timeout=900
harness!(zone_from_14_20, 17, {
    let mut col = 14;
    while col < 21 {
        check_zone(col);
        col += 1;
    }
    reach!(col == 21);
});

//# harness zone_from_21_27 tier=quick label=bounded(columns_21..=27_enumerated) props=C16 fn=rusty_basic/src/interpreter/write_printer.rs::WritePrinter::move_to_next_print_zone timeout=900
harness!(zone_from_21_27, 17, {
    let mut col = 21;
    while col < 28 {
        check_zone(col);
        col += 1;
    }
    reach!(col == 28);
});

//# harness zone_from_28_34 tier=quick label=bounded(columns_28..=34_enumerated) props=C16 fn=rusty_basic/src/interpreter/write_printer.rs::WritePrinter::move_to_next_print_zone timeout=900
harness!(zone_from_28_34, 17, {
    let mut col = 28;
    while col < 35 {
        check_zone(col);
        col += 1;
    }
    reach!(col == 35);
});

//# harness zone_from_35_41 tier=quick label=bounded(columns_35..=41_enumerated) props=C16 fn=rusty_basic/src/interpreter/write_printer.rs::WritePrinter::move_to_next_print_zone timeout=900
harness!(zone_from_35_41, 17, {
    let mut col = 35;
    while col < 42 {
        check_zone(col);
        col += 1;
    }
    reach!(col == 42);
});

