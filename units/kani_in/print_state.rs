//# unit print_state kind=kani_in crate=rusty_basic inject=rusty_basic/src/interpreter/print.rs
//# assume "the glue in interpreter/main.rs (print_comma: on_print_comma + move_to_next_print_zone; print_value_from_a: print / print_variant of what PrintState returns; print_end: print remaining + println iff the returned flag) is read, not under contract: it needs the real Context (HashMap)"
//# assume "number text itself is core::fmt (trusted): only the first, second and last character and the number of print calls are inspected; SINGLE/DOUBLE rendering is not executed (float Display does not terminate in CBMC)"
// C16 — the per-statement PRINT state machine and the number/string rendering helper.
// Contract (property statement): "the line ends with CR LF unless the statement ends in a separator",
// "a semicolon adds nothing", "PRINT writes each number with a leading space or minus sign and a trailing
// space and each string verbatim".
//   set_printer_type(t)  starts a statement: type = t, handle 0, no format, index 0, and *no separator seen yet*
//   print_value_from_a(v) without format string: hands back exactly v, clears "last item was a separator"
//   on_print_comma / print_semicolon: set "last item was a separator", change nothing else
//   print_end without format string: returns (None, newline) with newline == !(last item was a separator),
//                        clears the flag, changes nothing else
//   => for every item sequence the statement ends with a newline iff its last item is not a separator
//      (and a statement without items ends with a newline)
//   print_variant(n): exactly one print call whose text starts with ' ' if n >= 0 and with '-' otherwise,
//                     continues with a digit and ends with ' '; print_variant(string): the string verbatim.
// All PrintState harnesses are loop-free over the whole state (format_string = None): complete.

fn any_printer_type() -> PrinterType {
    match vs::choice(3) {
        0 => PrinterType::Print,
        1 => PrinterType::LPrint,
        _ => PrinterType::File,
    }
}

fn any_state(flag: bool) -> PrintState {
    PrintState {
        printer_type: any_printer_type(),
        file_handle: vs::u8().into(),
        format_string: None,
        should_skip_new_line: flag,
        format_string_index: vs::usize(),
    }
}

struct Snap {
    t: PrinterType,
    h: FileHandle,
    idx: usize,
}

fn snap(s: &PrintState) -> Snap {
    Snap { t: s.printer_type, h: s.file_handle, idx: s.format_string_index }
}

fn frame_holds(s: &PrintState, before: &Snap) -> bool {
    s.printer_type == before.t && s.file_handle == before.h && s.format_string_index == before.idx && s.format_string.is_none()
}

//# harness separators_set_flag_only tier=quick label=complete props=C16 fn=rusty_basic/src/interpreter/print.rs::PrintState::print_semicolon
harness!(separators_set_flag_only, 2, {
    let mut s = any_state(vs::bool());
    let b = snap(&s);
    if vs::bool() {
        s.on_print_comma();
    } else {
        s.print_semicolon();
    }
    assert!(s.should_skip_new_line, "after a separator the newline is suppressed");
    assert!(frame_holds(&s, &b), "a separator changes nothing else in the statement state");
    reach!(b.idx == 3);
    std::mem::forget(s);
});

//# harness value_clears_flag tier=quick label=complete props=C16 fn=rusty_basic/src/interpreter/print.rs::PrintState::print_value_from_a
harness!(value_clears_flag, 2, {
    let mut s = any_state(vs::bool());
    let b = snap(&s);
    let n = vs::i32();
    let r = s.print_value_from_a(Variant::VInteger(n));
    assert!(!s.should_skip_new_line, "after a value the line is to be ended again");
    assert!(frame_holds(&s, &b), "printing a value without format string changes nothing else");
    assert!(matches!(&r, Ok((None, Some(Variant::VInteger(k)))) if *k == n), "the value is handed to the device unchanged");
    reach!(n < 0);
    std::mem::forget(r);
    std::mem::forget(s);
});

//# harness end_reports_flag tier=quick label=complete props=C16 fn=rusty_basic/src/interpreter/print.rs::PrintState::print_end
harness!(end_reports_flag, 2, {
    let flag = vs::bool();
    let mut s = any_state(flag);
    let b = snap(&s);
    let r = s.print_end();
    assert!(matches!(&r, Ok((None, nl)) if *nl == !flag), "newline exactly when the last item was not a separator");
    assert!(!s.should_skip_new_line, "the next statement starts without a pending separator");
    assert!(frame_holds(&s, &b), "print_end changes nothing else");
    reach!(flag);
    reach!(!flag);
    std::mem::forget(r);
    std::mem::forget(s);
});

//# harness new_statement tier=quick label=complete props=C16 fn=rusty_basic/src/interpreter/print.rs::PrintState::set_printer_type
harness!(new_statement, 2, {
    let flag = vs::bool();
    if KF_F25 {
        // F25: a separator flag left behind by a statement that was aborted after `;` / `,` survives
        vs::assume(!flag);
    }
    let mut s = any_state(flag);
    let t = any_printer_type();
    s.set_printer_type(t);
    assert!(s.printer_type == t && s.get_printer_type() == t);
    assert!(s.file_handle == FileHandle::from(0) && s.format_string.is_none() && s.format_string_index == 0,
        "a new statement starts on the default device state");
    assert!(!s.should_skip_new_line, "a new statement has not seen a separator yet");
    reach!(matches!(t, PrinterType::File));
    std::mem::forget(s);
});

//# harness finding_f25_stale_separator tier=quick label=complete props=C16 fn=rusty_basic/src/interpreter/print.rs::PrintState::set_printer_type expect=finding:F25
harness!(finding_f25_stale_separator, 2, {
    let mut s = any_state(true);
    let t = any_printer_type();
    s.set_printer_type(t);
    assert!(!s.should_skip_new_line, "a new statement has not seen a separator yet");
    std::mem::forget(s);
});

// one statement: SetPrinterType, up to three items, PrintEnd
//# harness statement_newline_rule tier=quick label=complete props=C16 fn=rusty_basic/src/interpreter/print.rs::PrintState::print_end
harness!(statement_newline_rule, 5, {
    let mut s = PrintState::new();
    s.set_printer_type(any_printer_type());
    let n = vs::choice(4);
    let mut last_is_separator = false;
    let mut i = 0;
    while i < 3 {
        if i < n {
            match vs::choice(3) {
                0 => {
                    let r = s.print_value_from_a(Variant::VInteger(1));
                    assert!(r.is_ok());
                    std::mem::forget(r);
                    last_is_separator = false;
                }
                1 => {
                    s.on_print_comma();
                    last_is_separator = true;
                }
                _ => {
                    s.print_semicolon();
                    last_is_separator = true;
                }
            }
        }
        i += 1;
    }
    let r = s.print_end();
    assert!(matches!(&r, Ok((None, nl)) if *nl == !last_is_separator),
        "the line ends with a newline unless the last item was a separator");
    reach!(n == 0);
    reach!(n == 3 && last_is_separator);
    reach!(n == 3 && !last_is_separator);
    std::mem::forget(r);
    std::mem::forget(s);
});

// ---- PrintHelper ------------------------------------------------------------------------------
struct RecPrinter {
    calls: usize,
    len: usize,
    first: u8,
    second: u8,
    last: u8,
    others: usize,
}

impl RecPrinter {
    fn new() -> Self {
        RecPrinter { calls: 0, len: 0, first: 0, second: 0, last: 0, others: 0 }
    }
}

impl Printer for RecPrinter {
    fn print(&mut self, s: &str) -> std::io::Result<usize> {
        let b = s.as_bytes();
        self.calls += 1;
        self.len = b.len();
        if b.len() > 0 {
            self.first = b[0];
            self.last = b[b.len() - 1];
        }
        if b.len() > 1 {
            self.second = b[1];
        }
        Ok(b.len())
    }
    fn println(&mut self) -> std::io::Result<usize> {
        self.others += 1;
        Ok(2)
    }
    fn move_to_next_print_zone(&mut self) -> std::io::Result<usize> {
        self.others += 1;
        Ok(0)
    }
}

fn check_number(p: &RecPrinter, non_negative: bool) {
    assert!(p.calls == 1 && p.others == 0, "a number is one print call and nothing else");
    assert!(p.len >= 3, "sign position, at least one digit, trailing space");
    if non_negative {
        assert!(p.first == b' ', "a non-negative number gets a leading space");
    } else {
        assert!(p.first == b'-', "a negative number starts with its minus sign");
    }
    assert!(p.second >= b'0' && p.second <= b'9', "the digits follow the sign position immediately");
    assert!(p.last == b' ', "a number gets a trailing space");
}

// print_variant harnesses: attempts. CBMC does not finish them (> 15 min each): the panic arm of print_variant
// formats the Variant with {:?} (Debug of arrays/records/HashMap) and is explored although unreachable, and
// core::fmt on a symbolic integer does not terminate either.  The sign rule is therefore checked in quick tier
// on print_number (the function that builds the text) with concrete payloads, see number_* below; that
// print_variant passes `n >= 0` as leading_space is read (4 one-line match arms), not proved.

// attempt: format!(" {} ", 7) does not finish in CBMC within 15 min (the variant without the leading literal, number_negative, takes 30 s)

//# harness number_negative tier=quick label=bounded(payload_-7) props=C16 fn=rusty_basic/src/interpreter/print.rs::PrintHelper::print_number timeout=900
harness!(number_negative, 8, {
    let mut p = RecPrinter::new();
    let r = p.print_number(-7i32, false);
    assert!(r.is_ok());
    check_number(&p, false);
    assert!(p.len == 3 && p.second == b'7', "minus sign, the digit, trailing space");
    reach!(p.calls == 1);
    std::mem::forget(r);
});
