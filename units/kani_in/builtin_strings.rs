//# unit builtin_strings kind=kani_in crate=rusty_basic inject=rusty_basic/src/interpreter/built_ins/mod.rs stubbing=1
//# support mock_interpreter_boxed.rs
//# assume "contract stubs of units/support/mock_interpreter.rs (Kani only; the native replay runs the real Context): Variables::get(i) = the i-th argument of the call, Context::set_built_in_function_result(f, v) = the result slot of f holds v, RandomState::new = a fixed state"
//# assume "strings of at most 3 characters: concrete strings (\"\", \"abc\", \"aXb\" with X = CHR$(200), blanks/tabs patterns) with every count / start / length SYMBOLIC over the whole INTEGER range -32768..=32767; symbolic characters (all 128 ASCII codes, or all of CHR$(128..255)) where CBMC bears it: UCASE$/LCASE$/LTRIM$/RTRIM$/LEN/MID$ on 2 characters, STRING$ on 1"
//# assume "SPACE$(n) / STRING$(n, c): 0 <= n <= 3 (the loops run n times) and every n < 0; INSTR: haystack of 3 characters and needle of 1..2 characters over the alphabet {a,b}, start over the whole INTEGER range; the empty needle is outside the property statement and not exercised"
//# assume "numeric arguments arrive as INTEGER values (Variant::VInteger), what the checker's require_integer_argument + the generated cast deliver; LONG/SINGLE/DOUBLE counts are the business of unit variant_casts (to_non_negative_int / to_positive_int)"
// C17 -- the string built-in FUNCTION WRAPPERS `built_ins::<f>::run<S: InterpreterTrait>` under contract, driven through
// the mock interpreter (the whole wrapper runs: argument fetch, range checks, kernel, result slot).
//
// Character model: a BASIC string is a sequence of character codes 0..=255 (CHR$); the Rust String holds code c as the
// char U+00c (one byte below 128, two bytes from 128 on).  Every oracle below works on the CODE sequence, written from
// the property statement with plain index arithmetic; none shares code with the repository.
//
// Contracts (property C17: "LEFT$, RIGHT$ and MID$ return exactly the prefix, suffix and substring their arguments describe
// (so LEFT$(s,n) + MID$(s,n+1) = s, with counts clamped to the length), INSTR(n,s,t) for non-empty t is the least position
// >= n where t occurs in s or else 0, and LEN(a+b) = LEN(a)+LEN(b). UCASE$/LCASE$ change only letters, LTRIM$/RTRIM$ remove
// exactly the leading/trailing blanks, SPACE$(n) = STRING$(n,32) has n characters ... Negative counts and non-positive
// start positions raise Illegal function call (5)"):
//   LEFT$(s,n)   n >= 0: Ok, slot Left  = s[0 .. min(n,|s|)];           n < 0: Err(IllegalFunctionCall), no slot written
//   RIGHT$(s,n)  n >= 0: Ok, slot Right = s[|s|-min(n,|s|) .. |s|];     n < 0: Err(IllegalFunctionCall), no slot written
//   MID$(s,p[,l]) p >= 1 (and l >= 0): Ok, slot Mid = s[p-1 .. min(p-1+l,|s|)] (to the end without l, "" when p > |s|);
//                p <= 0 or l < 0: Err(IllegalFunctionCall), no slot written;   LEFT$(s,n) + MID$(s,n+1) = s
//   LEN(s)       Ok, slot Len = |s| (characters);   LEN(a+b) = LEN(a)+LEN(b) with a+b = Variant::plus
//   UCASE$/LCASE$ Ok, same length, position i = the other-case letter if s[i] is a letter a-z / A-Z, else s[i] unchanged
//   LTRIM$/RTRIM$ Ok, s without its maximal leading / trailing run of CHR$(32) -- nothing else removed
//   SPACE$(n)    n >= 0: Ok, n times CHR$(32);  n < 0: Err(IllegalFunctionCall), no slot written   (obligation space_count)
//   STRING$(n,c) n >= 0 and 0 <= c <= 255: Ok, n times CHR$(c);  STRING$(n,s$), s$ <> "": n times the first character of s$;
//                n < 0, c outside 0..255, s$ = "": Err(IllegalFunctionCall), no slot written;   SPACE$(n) = STRING$(n,32)
//   INSTR([n,]s,t) t <> "": n >= 1 (1 when absent): Ok, slot InStr = least p >= n with s[p-1 .. p-1+|t|] = t, else 0;
//                n <= 0: Err(IllegalFunctionCall), no slot written
// "slot F = v" means: `result_of(&m, F)` is v -- the mock remembers WHICH function's slot was written.
//
// Suspected defects this unit reports (see PROPOSED_FINDINGS.md; reproduced on the binary):
//   F40 LTRIM$ / F41 RTRIM$ strip every Unicode white-space character (TAB, LF, VT, FF, CR, CHR$(133), CHR$(160)), not only blanks
//   F42 RIGHT$ / F43 MID$ index CHARACTERS with BYTE lengths: wrong for any string with a character >= CHR$(128)
//   F44 INSTR slices the haystack at byte offsets and unwraps: PANIC for a haystack with a character >= CHR$(128)

const MAXC: usize = 3; // characters per string
const MAXB: usize = 6; // bytes per string (a character code >= 128 takes two)

/// One character of a BASIC string: its code, and whether the code is >= 128 (two UTF-8 bytes in the Rust String).
/// `wide` is fixed by the constructor and CONCRETE for CBMC even when the code is symbolic, so that the byte length of
/// every string in this unit is a constant (a symbolic byte length means allocations of symbolic size: no result).
#[derive(Clone, Copy)]
struct Ch {
    code: u8,
    wide: bool,
}

/// the character with this (constant) code
fn ch(code: u8) -> Ch {
    Ch { code, wide: code >= 128 }
}

/// any of the 128 ASCII characters CHR$(0..127)
fn any_ascii() -> Ch {
    Ch { code: vs::ascii() as u8, wide: false }
}

/// any of the characters CHR$(128..255)
fn any_latin1() -> Ch {
    let c = vs::u8();
    vs::assume(c >= 128);
    Ch { code: c, wide: true }
}

const NOCH: Ch = Ch { code: 0, wide: false };

/// The Rust String that holds the BASIC string with the given characters (code c is the char U+00c: one byte below
/// 128, the two bytes 110000xx 10xxxxxx from 128 on).  Written out here, no repository code involved.
fn bstr(cs: &[Ch]) -> String {
    let mut v: Vec<u8> = Vec::with_capacity(MAXB);
    let mut i = 0;
    while i < cs.len() {
        let c = cs[i].code;
        if cs[i].wide {
            v.push(0xC0 | (c >> 6));
            v.push(0x80 | (c & 0x3F));
        } else {
            v.push(c);
        }
        i += 1;
    }
    unsafe { String::from_utf8_unchecked(v) }
}

fn arg_s(cs: &[Ch]) -> Box<Variant> {
    arg(Variant::VString(bstr(cs)))
}

fn arg_i(n: i32) -> Box<Variant> {
    arg(Variant::VInteger(n))
}

fn put_ch(exp: &mut [u8; MAXB], m: &mut usize, c: Ch) {
    if c.wide {
        exp[*m] = 0xC0 | (c.code >> 6);
        exp[*m + 1] = 0x80 | (c.code & 0x3F);
        *m += 2;
    } else {
        exp[*m] = c.code;
        *m += 1;
    }
}

/// "the value is the string with exactly the characters want[0..n]" (n <= MAXC).  Loop-free on purpose: the
/// unwinding bound of a harness is then the bound of the loops of the REAL code only.
fn is_bstr(v: Option<&Variant>, want: &[Ch; MAXC], n: usize) -> bool {
    let mut exp = [0u8; MAXB];
    let mut m = 0;
    if n > 0 {
        put_ch(&mut exp, &mut m, want[0]);
    }
    if n > 1 {
        put_ch(&mut exp, &mut m, want[1]);
    }
    if n > 2 {
        put_ch(&mut exp, &mut m, want[2]);
    }
    match v {
        Some(Variant::VString(s)) => {
            let g = s.as_bytes();
            n <= MAXC
                && g.len() == m
                && (m < 1 || g[0] == exp[0])
                && (m < 2 || g[1] == exp[1])
                && (m < 3 || g[2] == exp[2])
                && (m < 4 || g[3] == exp[3])
                && (m < 5 || g[4] == exp[4])
                && (m < 6 || g[5] == exp[5])
        }
        _ => false,
    }
}

/// the integral value of a numeric result (LEN, INSTR), whichever integral kind carries it
fn int_value(v: Option<&Variant>) -> Option<i64> {
    match v {
        Some(Variant::VInteger(k)) => Some(*k as i64),
        Some(Variant::VLong(k)) => Some(*k),
        _ => None,
    }
}

fn is_illegal(r: &Result<(), RuntimeError>) -> bool {
    matches!(r, Err(RuntimeError::IllegalFunctionCall))
}

/// cs[from .. from+cnt] as a fixed array
fn slice_of(cs: &[Ch], from: usize, cnt: usize) -> [Ch; MAXC] {
    let mut want = [NOCH; MAXC];
    let mut k = 0;
    while k < cs.len() {
        if k >= from && k - from < cnt {
            want[k - from] = cs[k];
        }
        k += 1;
    }
    want
}

// NOTE on harness shape (cost only): ONE wrapper call per harness.  Two calls in one harness make CBMC's points-to sets
// of the argument / result statics ambiguous and the formula explodes (or ends in a spurious "pointer to unallocated
// memory"); the two composition harnesses (left_mid_identity, space_is_string_32) pay for it with tiny inputs.

// ------------------------------------------------------------------------------------------------ LEFT$ / RIGHT$
fn check_left(cs: &[Ch]) -> i32 {
    let n = vs::i16() as i32;
    let mut m = mock_with_boxed_args(vec![arg_s(cs), arg_i(n)]);
    let r = left::run(&mut m);
    if n < 0 {
        assert!(is_illegal(&r), "LEFT$ with a negative count raises Illegal function call");
        assert!(no_result_written(&m, BuiltInFunction::Left, 2), "LEFT$ with a negative count writes no result");
    } else {
        assert!(r.is_ok(), "LEFT$ with a non-negative count succeeds");
        let cnt = if (n as usize) < cs.len() { n as usize } else { cs.len() };
        let want = slice_of(cs, 0, cnt);
        assert!(is_bstr(result_of(&m, BuiltInFunction::Left), &want, cnt), "LEFT$(s,n) is exactly the first min(n,|s|) characters of s");
    }
    std::mem::forget(r);
    std::mem::forget(m);
    n
}

fn check_right(cs: &[Ch]) -> i32 {
    let n = vs::i16() as i32;
    let mut m = mock_with_boxed_args(vec![arg_s(cs), arg_i(n)]);
    let r = right::run(&mut m);
    if n < 0 {
        assert!(is_illegal(&r), "RIGHT$ with a negative count raises Illegal function call");
        assert!(no_result_written(&m, BuiltInFunction::Right, 2), "RIGHT$ with a negative count writes no result");
    } else {
        assert!(r.is_ok(), "RIGHT$ with a non-negative count succeeds");
        let cnt = if (n as usize) < cs.len() { n as usize } else { cs.len() };
        let want = slice_of(cs, cs.len() - cnt, cnt);
        assert!(is_bstr(result_of(&m, BuiltInFunction::Right), &want, cnt), "RIGHT$(s,n) is exactly the last min(n,|s|) characters of s");
    }
    std::mem::forget(r);
    std::mem::forget(m);
    n
}

//# harness left_ascii3 tier=quick label=bounded(|s|=3,ascii;n:INTEGER) props=C17 fn=rusty_basic/src/interpreter/built_ins/left.rs::run timeout=600
harness_bi!(left_ascii3, 6, std_caps, {
    let n = check_left(&[any_ascii(), any_ascii(), any_ascii()]);
    reach!(n == -32768);
    reach!(n == -1);
    reach!(n == 0);
    reach!(n == 1);
    reach!(n == 2);
    reach!(n == 3);
    reach!(n == 4);
    reach!(n == 32767);
});

//# harness left_empty tier=quick label=bounded(s=empty;n:INTEGER) props=C17 fn=rusty_basic/src/interpreter/built_ins/left.rs::run timeout=600
harness_bi!(left_empty, 6, std_caps, {
    let n = check_left(&[]);
    reach!(n == 0);
    reach!(n == 5);
    reach!(n == -1);
});

//# harness left_latin1 tier=thorough label=bounded(s=ascii+CHR$(128..255)+ascii;n:INTEGER) props=C17 fn=rusty_basic/src/interpreter/built_ins/left.rs::run timeout=600
harness_bi!(left_latin1, 6, std_caps, {
    let n = check_left(&[any_ascii(), any_latin1(), any_ascii()]);
    reach!(n == 1);
    reach!(n == 2);
    reach!(n == 3);
    reach!(n == -1);
});

//# harness right_ascii3 tier=quick label=bounded(|s|=3,ascii;n:INTEGER) props=C17 fn=rusty_basic/src/interpreter/built_ins/right.rs::run timeout=600
harness_bi!(right_ascii3, 6, std_caps, {
    let n = check_right(&[any_ascii(), any_ascii(), any_ascii()]);
    reach!(n == -32768);
    reach!(n == -1);
    reach!(n == 0);
    reach!(n == 1);
    reach!(n == 2);
    reach!(n == 3);
    reach!(n == 4);
    reach!(n == 32767);
});

//# harness right_empty tier=quick label=bounded(s=empty;n:INTEGER) props=C17 fn=rusty_basic/src/interpreter/built_ins/right.rs::run timeout=600
harness_bi!(right_empty, 6, std_caps, {
    let n = check_right(&[]);
    reach!(n == 0);
    reach!(n == 5);
    reach!(n == -1);
});

// F42: RIGHT$ compares the count with the BYTE length and skips `byte length - n` CHARACTERS.
//# harness finding_f42_right_latin1 tier=quick label=bounded(s=CHR$(128..255)+ascii+ascii;n:INTEGER) props=C17 fn=rusty_basic/src/interpreter/built_ins/right.rs::run timeout=600 expect=finding:F42 standalone=1
harness_bi!(finding_f42_right_latin1, 6, std_caps, {
    let n = check_right(&[any_latin1(), any_ascii(), any_ascii()]);
    reach!(n == 0);
    reach!(n == -1);
});

// ------------------------------------------------------------------------------------------------ MID$
/// the substring the arguments describe: (from, cnt) in characters
fn mid_spec(len: usize, start: i32, has_len: bool, l: i32) -> (usize, usize) {
    let from = (start - 1) as usize;
    if from >= len {
        (len, 0)
    } else {
        let rest = len - from;
        let cnt = if has_len && (l as usize) < rest { l as usize } else { rest };
        (from, cnt)
    }
}

fn check_mid(cs: &[Ch], has_len: bool) -> (i32, i32) {
    let start = vs::i16() as i32;
    let l = vs::i16() as i32;
    let mut m = if has_len {
        mock_with_boxed_args(vec![arg_s(cs), arg_i(start), arg_i(l)])
    } else {
        mock_with_boxed_args(vec![arg_s(cs), arg_i(start)])
    };
    let nargs = if has_len { 3 } else { 2 };
    let r = mid_fn::run(&mut m);
    if start <= 0 || (has_len && l < 0) {
        assert!(is_illegal(&r), "MID$ with a non-positive start or a negative length raises Illegal function call");
        assert!(no_result_written(&m, BuiltInFunction::Mid, nargs), "MID$ with a non-positive start or a negative length writes no result");
    } else {
        assert!(r.is_ok(), "MID$ with a positive start and a non-negative length succeeds");
        let (from, cnt) = mid_spec(cs.len(), start, has_len, l);
        let want = slice_of(cs, from, cnt);
        assert!(is_bstr(result_of(&m, BuiltInFunction::Mid), &want, cnt), "MID$(s,p[,l]) is exactly the characters p .. min(p+l-1,|s|) of s");
    }
    std::mem::forget(r);
    std::mem::forget(m);
    (start, l)
}

//# harness mid3_ascii3 tier=quick label=bounded(|s|=3,ascii;start,len:INTEGER) props=C17 fn=rusty_basic/src/interpreter/built_ins/mid_fn.rs::run timeout=600
harness_bi!(mid3_ascii3, 6, std_caps, {
    let (p, l) = check_mid(&[any_ascii(), any_ascii(), any_ascii()], true);
    reach!(p == 1 && l == 3);
    reach!(p == 2 && l == 1);
    reach!(p == 2 && l == 2);
    reach!(p == 2 && l == 32767);
    reach!(p == 3 && l == 0);
    reach!(p == 4 && l == 1);
    reach!(p == 32767 && l == 32767);
    reach!(p == 0 && l == 1);
    reach!(p == -32768);
    reach!(p == 1 && l == -1);
});

//# harness mid2_ascii3 tier=quick label=bounded(|s|=3,ascii;start:INTEGER) props=C17 fn=rusty_basic/src/interpreter/built_ins/mid_fn.rs::run timeout=600
harness_bi!(mid2_ascii3, 6, std_caps, {
    let (p, l) = check_mid(&[any_ascii(), any_ascii(), any_ascii()], false);
    reach!(p == 1);
    reach!(p == 2);
    reach!(p == 3);
    reach!(p == 4);
    reach!(p == 32767);
    reach!(p == 0);
    reach!(p == -32768);
});

//# harness mid3_empty tier=thorough label=bounded(s=empty;start,len:INTEGER) props=C17 fn=rusty_basic/src/interpreter/built_ins/mid_fn.rs::run timeout=600
harness_bi!(mid3_empty, 6, std_caps, {
    let (p, l) = check_mid(&[], true);
    reach!(p == 1 && l == 1);
    reach!(p == 1 && l == 0);
    reach!(p == 0);
});

// F43: MID$ slices the UTF-8 BYTES at the CHARACTER positions.
//# harness finding_f43_mid_latin1 tier=quick label=bounded(s=ascii+CHR$(128..255)+ascii;start,len:INTEGER) props=C17 fn=rusty_basic/src/interpreter/built_ins/mid_fn.rs::run timeout=600 expect=finding:F43 standalone=1
harness_bi!(finding_f43_mid_latin1, 6, std_caps, {
    let (p, l) = check_mid(&[any_ascii(), any_latin1(), any_ascii()], true);
    reach!(p == 1 && l == 1);
    reach!(p == 0);
});

// LEFT$(s,n) + MID$(s,n+1) = s   (n >= 0; n+1 must itself be an INTEGER).  Two wrapper calls in one harness: runs WITHOUT the
// capacity stubs (with them CBMC ends in spurious pointer failures / no result) and therefore only while MID$ does not
// build its result with push/collect (45 s on the present tree; with the proposed F43 repair it runs out of memory ->
// thorough tier; the law then follows from left_ascii3 + mid2_ascii3, which state both sides exactly for every n).
//# harness left_mid_identity tier=thorough label=bounded(s=abc;n:0..=32766) props=C17 fn=rusty_basic/src/interpreter/built_ins/left.rs::run,rusty_basic/src/interpreter/built_ins/mid_fn.rs::run timeout=900
harness_bi!(left_mid_identity, 6, {
    let cs = [ch(b'a'), ch(b'b'), ch(b'c')];
    let n = vs::i16() as i32;
    vs::assume(n >= 0 && n < 32767);
    let mut m1 = mock_with_boxed_args(vec![arg_s(&cs), arg_i(n)]);
    let r1 = left::run(&mut m1);
    // the bytes of the LEFT$ part, taken out before the next call starts
    let mut joined = [0u8; MAXB];
    let mut k = 0;
    let ok1 = match result_of(&m1, BuiltInFunction::Left) {
        Some(Variant::VString(s)) if r1.is_ok() && s.len() <= MAXC => {
            let g = s.as_bytes();
            if g.len() > 0 { joined[0] = g[0]; }
            if g.len() > 1 { joined[1] = g[1]; }
            if g.len() > 2 { joined[2] = g[2]; }
            k = g.len();
            true
        }
        _ => false,
    };
    assert!(ok1, "LEFT$(s,n) with n >= 0 yields a string no longer than s");
    let mut m2 = mock_with_boxed_args(vec![arg_s(&cs), arg_i(n + 1)]);
    let r2 = mid_fn::run(&mut m2);
    let ok2 = match result_of(&m2, BuiltInFunction::Mid) {
        Some(Variant::VString(s)) if r2.is_ok() && s.len() <= MAXC => {
            let g = s.as_bytes();
            if g.len() > 0 { joined[k] = g[0]; }
            if g.len() > 1 { joined[k + 1] = g[1]; }
            if g.len() > 2 { joined[k + 2] = g[2]; }
            k += g.len();
            true
        }
        _ => false,
    };
    assert!(ok2, "MID$(s,n+1) with n >= 0 yields a string no longer than s");
    assert!(k == 3 && joined[0] == b'a' && joined[1] == b'b' && joined[2] == b'c', "LEFT$(s,n) + MID$(s,n+1) = s");
    reach!(n == 0);
    reach!(n == 1);
    reach!(n == 3);
    reach!(n == 32766);
    std::mem::forget(r1);
    std::mem::forget(r2);
    std::mem::forget(m1);
    std::mem::forget(m2);
});

// ------------------------------------------------------------------------------------------------ LEN
fn check_len(cs: &[Ch]) {
    let mut m = mock_with_boxed_args(vec![arg_s(cs)]);
    let r = len::run(&mut m);
    assert!(r.is_ok(), "LEN of a string succeeds");
    assert!(int_value(result_of(&m, BuiltInFunction::Len)) == Some(cs.len() as i64), "LEN(s) is the number of characters of s");
    std::mem::forget(r);
    std::mem::forget(m);
}

//# harness len_ascii3 tier=quick label=bounded(|s|=3,ascii) props=C17 fn=rusty_basic/src/interpreter/built_ins/len.rs::run timeout=600
harness_bi!(len_ascii3, 6, std_caps, {
    check_len(&[any_ascii(), any_ascii(), any_ascii()]);
});

//# harness len_latin1 tier=quick label=bounded(|s|=3;CHR$(128..255),ascii,CHR$(128..255)) props=C17 fn=rusty_basic/src/interpreter/built_ins/len.rs::run timeout=600
harness_bi!(len_latin1, 8, std_caps, {
    check_len(&[any_latin1(), any_ascii(), any_latin1()]);
});

//# harness len_empty tier=quick label=bounded(s=empty) props=C17 fn=rusty_basic/src/interpreter/built_ins/len.rs::run timeout=600
harness_bi!(len_empty, 6, std_caps, {
    check_len(&[]);
});

// LEN(a + b) = LEN(a) + LEN(b), with a + b computed by the real string concatenation (Variant::plus).
// ATTEMPT: Variant::plus concatenates with format!("{}{}", ..); CBMC does not get through core::fmt (no result in 400 s
// even for two concrete strings), so this obligation is a stretch goal and never counted.
//# harness len_of_concatenation tier=thorough attempt=1 label=bounded(|a|=2,|b|=1;ascii_and_CHR$(128..255)) props=C17 fn=rusty_basic/src/interpreter/built_ins/len.rs::run,rusty_variant/src/variant.rs::Variant::plus timeout=1200
harness_bi!(len_of_concatenation, 8, std_caps, {
    let a = [any_ascii(), any_latin1()];
    let b = [any_ascii()];
    let sum = Variant::VString(bstr(&a)).plus(Variant::VString(bstr(&b)));
    let boxed = match sum {
        Ok(v) => Some(arg(v)),
        Err(e) => {
            std::mem::forget(e);
            None
        }
    };
    assert!(boxed.is_some(), "the concatenation of two strings succeeds");
    if let Some(ab) = boxed {
        let mut m = mock_with_boxed_args(vec![ab]);
        let r = len::run(&mut m);
        assert!(r.is_ok(), "LEN of a string succeeds");
        assert!(int_value(result_of(&m, BuiltInFunction::Len)) == Some((a.len() + b.len()) as i64), "LEN(a+b) = LEN(a) + LEN(b)");
        std::mem::forget(r);
        std::mem::forget(m);
    }
});

// ------------------------------------------------------------------------------------------------ UCASE$ / LCASE$
fn upper_of(c: Ch) -> Ch {
    if !c.wide && c.code >= b'a' && c.code <= b'z' { Ch { code: c.code - (b'a' - b'A'), wide: false } } else { c }
}

fn lower_of(c: Ch) -> Ch {
    if !c.wide && c.code >= b'A' && c.code <= b'Z' { Ch { code: c.code + (b'a' - b'A'), wide: false } } else { c }
}

fn check_case(cs: &[Ch], upper: bool) {
    let mut m = mock_with_boxed_args(vec![arg_s(cs)]);
    let f = if upper { BuiltInFunction::UCase } else { BuiltInFunction::LCase };
    let r = if upper { ucase::run(&mut m) } else { lcase::run(&mut m) };
    assert!(r.is_ok(), "UCASE$ / LCASE$ of a string succeeds");
    let mut want = [NOCH; MAXC];
    let mut k = 0;
    while k < cs.len() {
        want[k] = if upper { upper_of(cs[k]) } else { lower_of(cs[k]) };
        k += 1;
    }
    assert!(is_bstr(result_of(&m, f), &want, cs.len()), "UCASE$ / LCASE$: same length, a letter becomes the other-case letter, every other character is unchanged");
    std::mem::forget(r);
    std::mem::forget(m);
}

//# harness ucase_ascii3 tier=quick label=bounded(|s|=3,ascii) props=C17 fn=rusty_basic/src/interpreter/built_ins/ucase.rs::run timeout=600
harness_bi!(ucase_ascii3, 6, std_caps, {
    let cs = [any_ascii(), any_ascii(), any_ascii()];
    check_case(&cs, true);
    reach!(cs[0].code == b'a' && cs[1].code == b'z');
    reach!(cs[0].code == b'{' && cs[1].code == b'`');
    reach!(cs[0].code == b'A' && cs[1].code == b'5');
});

//# harness ucase_latin1 tier=quick label=bounded(s=CHR$(128..255)+letter) props=C17 fn=rusty_basic/src/interpreter/built_ins/ucase.rs::run timeout=600
harness_bi!(ucase_latin1, 6, std_caps, {
    let cs = [any_latin1(), any_ascii()];
    check_case(&cs, true);
    reach!(cs[0].code == 0xE8 && cs[1].code == b'q');
});

//# harness lcase_ascii3 tier=quick label=bounded(|s|=3,ascii) props=C17 fn=rusty_basic/src/interpreter/built_ins/lcase.rs::run timeout=600
harness_bi!(lcase_ascii3, 6, std_caps, {
    let cs = [any_ascii(), any_ascii(), any_ascii()];
    check_case(&cs, false);
    reach!(cs[0].code == b'A' && cs[1].code == b'Z');
    reach!(cs[0].code == b'[' && cs[1].code == b'@');
    reach!(cs[0].code == b'a' && cs[1].code == b'5');
});

//# harness lcase_latin1 tier=quick label=bounded(s=CHR$(128..255)+letter) props=C17 fn=rusty_basic/src/interpreter/built_ins/lcase.rs::run timeout=600
harness_bi!(lcase_latin1, 6, std_caps, {
    let cs = [any_latin1(), any_ascii()];
    check_case(&cs, false);
    reach!(cs[0].code == 0xC8 && cs[1].code == b'Q');
});

// ------------------------------------------------------------------------------------------------ LTRIM$ / RTRIM$
fn is_blank(c: Ch) -> bool {
    !c.wide && c.code == 32
}

/// the characters other than the blank that Rust's `trim_start` / `trim_end` strip as well (the failing inputs of F40 / F41)
fn is_other_whitespace(c: Ch) -> bool {
    (c.code >= 9 && c.code <= 13) || c.code == 0x85 || c.code == 0xA0
}

/// F40: the first character that is not a blank is one of the other white-space characters
fn first_non_blank_is_other_whitespace(cs: &[Ch]) -> bool {
    let mut seen = false;
    let mut bad = false;
    let mut k = 0;
    while k < cs.len() {
        if !seen && !is_blank(cs[k]) {
            seen = true;
            bad = is_other_whitespace(cs[k]);
        }
        k += 1;
    }
    bad
}

/// F41: the last character that is not a blank is one of the other white-space characters
fn last_non_blank_is_other_whitespace(cs: &[Ch]) -> bool {
    let mut bad = false;
    let mut k = 0;
    while k < cs.len() {
        if !is_blank(cs[k]) {
            bad = is_other_whitespace(cs[k]);
        }
        k += 1;
    }
    bad
}

fn check_ltrim(cs: &[Ch]) {
    let mut m = mock_with_boxed_args(vec![arg_s(cs)]);
    let r = ltrim::run(&mut m);
    assert!(r.is_ok(), "LTRIM$ of a string succeeds");
    // the maximal leading run of blanks
    let mut lead = 0;
    let mut k = 0;
    while k < cs.len() {
        if lead == k && is_blank(cs[k]) {
            lead = k + 1;
        }
        k += 1;
    }
    let want = slice_of(cs, lead, cs.len() - lead);
    assert!(is_bstr(result_of(&m, BuiltInFunction::LTrim), &want, cs.len() - lead), "LTRIM$(s) is s without its leading blanks (CHR$(32)) and nothing else");
    std::mem::forget(r);
    std::mem::forget(m);
}

fn check_rtrim(cs: &[Ch]) {
    let mut m = mock_with_boxed_args(vec![arg_s(cs)]);
    let r = rtrim::run(&mut m);
    assert!(r.is_ok(), "RTRIM$ of a string succeeds");
    // the maximal trailing run of blanks: keep = length without it
    let mut keep = 0;
    let mut k = 0;
    while k < cs.len() {
        if !is_blank(cs[k]) {
            keep = k + 1;
        }
        k += 1;
    }
    let want = slice_of(cs, 0, keep);
    assert!(is_bstr(result_of(&m, BuiltInFunction::RTrim), &want, keep), "RTRIM$(s) is s without its trailing blanks (CHR$(32)) and nothing else");
    std::mem::forget(r);
    std::mem::forget(m);
}

//# harness ltrim_ascii3 tier=quick label=bounded(|s|=3,ascii) props=C17 fn=rusty_basic/src/interpreter/built_ins/ltrim.rs::run timeout=600
harness_bi!(ltrim_ascii3, 6, std_caps, {
    let cs = [any_ascii(), any_ascii(), any_ascii()];
    if KF_F40 {
        // F40: the first character after the leading blanks is TAB, LF, VT, FF or CR
        vs::assume(!first_non_blank_is_other_whitespace(&cs));
    }
    check_ltrim(&cs);
    reach!(cs[0].code == 32 && cs[1].code == 32 && cs[2].code == 32);
    reach!(cs[0].code == 32 && cs[1].code == 32 && cs[2].code == b'x');
    reach!(cs[0].code == 32 && cs[1].code == b'x' && cs[2].code == 32);
    reach!(cs[0].code == b'x' && cs[1].code == 32 && cs[2].code == 32);
    reach!(cs[0].code == b'x' && cs[1].code == 9 && cs[2].code == 13);
});

//# harness finding_f40_ltrim_whitespace tier=quick label=bounded(|s|=3,ascii) props=C17 fn=rusty_basic/src/interpreter/built_ins/ltrim.rs::run timeout=600 expect=finding:F40
harness_bi!(finding_f40_ltrim_whitespace, 6, std_caps, {
    let cs = [any_ascii(), any_ascii(), any_ascii()];
    vs::assume(first_non_blank_is_other_whitespace(&cs));
    check_ltrim(&cs);
});

//# harness ltrim_latin1 tier=quick label=bounded(s=ascii+CHR$(128..255)+x) props=C17 fn=rusty_basic/src/interpreter/built_ins/ltrim.rs::run timeout=600
harness_bi!(ltrim_latin1, 6, std_caps, {
    let cs = [any_ascii(), any_latin1(), ch(b'x')];
    if KF_F40 {
        // F40: CHR$(133) (NEL) and CHR$(160) (no-break space) are stripped as well
        vs::assume(!first_non_blank_is_other_whitespace(&cs));
    }
    check_ltrim(&cs);
    reach!(cs[0].code == 32 && cs[1].code == 0xC8);
    reach!(cs[0].code == b'y' && cs[1].code == 0xA0);
});

//# harness finding_f40_ltrim_nbsp tier=quick label=bounded(s=blank+CHR$(133|160)+x) props=C17 fn=rusty_basic/src/interpreter/built_ins/ltrim.rs::run timeout=600 expect=finding:F40
harness_bi!(finding_f40_ltrim_nbsp, 6, std_caps, {
    let cs = [ch(32), any_latin1(), ch(b'x')];
    vs::assume(is_other_whitespace(cs[1]));
    check_ltrim(&cs);
});

//# harness rtrim_ascii3 tier=quick label=bounded(|s|=3,ascii) props=C17 fn=rusty_basic/src/interpreter/built_ins/rtrim.rs::run timeout=600
harness_bi!(rtrim_ascii3, 6, std_caps, {
    let cs = [any_ascii(), any_ascii(), any_ascii()];
    if KF_F41 {
        // F41: the last character before the trailing blanks is TAB, LF, VT, FF or CR
        vs::assume(!last_non_blank_is_other_whitespace(&cs));
    }
    check_rtrim(&cs);
    reach!(cs[0].code == 32 && cs[1].code == 32 && cs[2].code == 32);
    reach!(cs[0].code == b'x' && cs[1].code == 32 && cs[2].code == 32);
    reach!(cs[0].code == 32 && cs[1].code == b'x' && cs[2].code == 32);
    reach!(cs[0].code == 32 && cs[1].code == 32 && cs[2].code == b'x');
    reach!(cs[0].code == 13 && cs[1].code == 9 && cs[2].code == b'x');
});

//# harness finding_f41_rtrim_whitespace tier=quick label=bounded(|s|=3,ascii) props=C17 fn=rusty_basic/src/interpreter/built_ins/rtrim.rs::run timeout=600 expect=finding:F41
harness_bi!(finding_f41_rtrim_whitespace, 6, std_caps, {
    let cs = [any_ascii(), any_ascii(), any_ascii()];
    vs::assume(last_non_blank_is_other_whitespace(&cs));
    check_rtrim(&cs);
});

//# harness rtrim_latin1 tier=quick label=bounded(s=x+CHR$(128..255)+ascii) props=C17 fn=rusty_basic/src/interpreter/built_ins/rtrim.rs::run timeout=600
harness_bi!(rtrim_latin1, 6, std_caps, {
    let cs = [ch(b'x'), any_latin1(), any_ascii()];
    if KF_F41 {
        // F41: CHR$(133) (NEL) and CHR$(160) (no-break space) are stripped as well
        vs::assume(!last_non_blank_is_other_whitespace(&cs));
    }
    check_rtrim(&cs);
    reach!(cs[1].code == 0xC8 && cs[2].code == 32);
    reach!(cs[1].code == 0xA0 && cs[2].code == b'y');
});

//# harness finding_f41_rtrim_nbsp tier=quick label=bounded(s=x+CHR$(133|160)+blank) props=C17 fn=rusty_basic/src/interpreter/built_ins/rtrim.rs::run timeout=600 expect=finding:F41
harness_bi!(finding_f41_rtrim_nbsp, 6, std_caps, {
    let cs = [ch(b'x'), any_latin1(), ch(32)];
    vs::assume(is_other_whitespace(cs[1]));
    check_rtrim(&cs);
});

// ------------------------------------------------------------------------------------------------ SPACE$ / STRING$
/// n copies of c (n <= MAXC)
fn copies(c: Ch) -> [Ch; MAXC] {
    [c, c, c]
}

//# harness space_count tier=quick label=bounded(n<=3,every_n<0) props=C17 fn=rusty_basic/src/interpreter/built_ins/space.rs::run timeout=600
harness_bi!(space_count, 6, std_caps, {
    let n = vs::i16() as i32;
    vs::assume(n <= 3);
    let mut m = mock_with_boxed_args(vec![arg_i(n)]);
    let r = space::run(&mut m);
    if n < 0 {
        assert!(is_illegal(&r), "SPACE$ with a negative count raises Illegal function call");
        assert!(no_result_written(&m, BuiltInFunction::Space, 1), "SPACE$ with a negative count writes no result");
    } else {
        assert!(r.is_ok(), "SPACE$ with a non-negative count succeeds");
        assert!(is_bstr(result_of(&m, BuiltInFunction::Space), &copies(ch(32)), n as usize), "SPACE$(n) is n blanks");
    }
    reach!(n == 0);
    reach!(n == 3);
    reach!(n == -1);
    reach!(n == -32768);
    std::mem::forget(r);
    std::mem::forget(m);
});

fn check_string_code(n: i32, code: i32, c: Ch) {
    let mut m = mock_with_boxed_args(vec![arg_i(n), arg_i(code)]);
    let r = string_fn::run(&mut m);
    if n < 0 || code < 0 || code > 255 {
        assert!(is_illegal(&r), "STRING$ with a negative count or a code outside 0..255 raises Illegal function call");
        assert!(no_result_written(&m, BuiltInFunction::String, 2), "STRING$ with a negative count or a code outside 0..255 writes no result");
    } else {
        assert!(r.is_ok(), "STRING$(n, code) with n >= 0 and 0 <= code <= 255 succeeds");
        assert!(is_bstr(result_of(&m, BuiltInFunction::String), &copies(c), n as usize), "STRING$(n, code) is n times CHR$(code)");
    }
    std::mem::forget(r);
    std::mem::forget(m);
}

//# harness string_code_ascii tier=quick label=bounded(n<=3,every_n<0;code:0..=127) props=C17 fn=rusty_basic/src/interpreter/built_ins/string_fn.rs::run timeout=600
harness_bi!(string_code_ascii, 6, std_caps, {
    let n = vs::i16() as i32;
    vs::assume(n <= 3);
    let c = any_ascii();
    check_string_code(n, c.code as i32, c);
    reach!(n == 3 && c.code == 32);
    reach!(n == 0);
    reach!(n == -1 && c.code == 65);
});

//# harness string_code_latin1 tier=thorough label=bounded(n<=3,every_n<0;code:128..=255) props=C17 fn=rusty_basic/src/interpreter/built_ins/string_fn.rs::run timeout=600
harness_bi!(string_code_latin1, 8, std_caps, {
    let n = vs::i16() as i32;
    vs::assume(n <= 3);
    let c = any_latin1();
    check_string_code(n, c.code as i32, c);
    reach!(n == 3 && c.code == 255);
    reach!(n == 2 && c.code == 128);
});

//# harness string_code_out_of_range tier=quick label=bounded(n<=2,every_n<0;code:INTEGER_outside_0..255) props=C17 fn=rusty_basic/src/interpreter/built_ins/string_fn.rs::run timeout=600
harness_bi!(string_code_out_of_range, 6, std_caps, {
    let n = vs::i16() as i32;
    vs::assume(n <= 2);
    let code = vs::i16() as i32;
    vs::assume(code < 0 || code > 255);
    check_string_code(n, code, NOCH);
    reach!(n == 2 && code == 256);
    reach!(n == 1 && code == -1);
    reach!(n == -1 && code == 32767);
});

//# harness string_str tier=quick label=bounded(n<=3,every_n<0;s$=empty|ascii+z|CHR$(128..255)+z) props=C17 fn=rusty_basic/src/interpreter/built_ins/string_fn.rs::run timeout=600
harness_bi!(string_str, 8, std_caps, {
    let n = vs::i16() as i32;
    vs::assume(n <= 3);
    let k = vs::choice(3);
    let c = if k == 2 { any_latin1() } else { any_ascii() };
    let mut m = if k == 0 {
        mock_with_boxed_args(vec![arg_i(n), arg_s(&[])])
    } else {
        mock_with_boxed_args(vec![arg_i(n), arg_s(&[c, ch(b'z')])])
    };
    let r = string_fn::run(&mut m);
    if n < 0 || k == 0 {
        assert!(is_illegal(&r), "STRING$ with a negative count or an empty string raises Illegal function call");
        assert!(no_result_written(&m, BuiltInFunction::String, 2), "STRING$ with a negative count or an empty string writes no result");
    } else {
        assert!(r.is_ok(), "STRING$(n, s$) with n >= 0 and a non-empty s$ succeeds");
        assert!(is_bstr(result_of(&m, BuiltInFunction::String), &copies(c), n as usize), "STRING$(n, s$) is n times the first character of s$");
    }
    reach!(k == 0 && n == 2);
    reach!(k == 1 && n == 3);
    reach!(k == 2 && n == 3);
    reach!(k == 1 && n == -1);
    std::mem::forget(r);
    std::mem::forget(m);
});

// SPACE$(n) = STRING$(n, 32)
//# harness space_is_string_32 tier=quick label=bounded(n<=2,every_n<0) props=C17 fn=rusty_basic/src/interpreter/built_ins/space.rs::run,rusty_basic/src/interpreter/built_ins/string_fn.rs::run timeout=900
harness_bi!(space_is_string_32, 6, std_caps, {
    let n = vs::i16() as i32;
    vs::assume(n <= 2);
    let mut m1 = mock_with_boxed_args(vec![arg_i(n)]);
    let r1 = space::run(&mut m1);
    // (length, bytes) of the SPACE$ result, taken out before the next call starts; length 9 = "no string"
    let (k1, a0, a1) = match result_of(&m1, BuiltInFunction::Space) {
        Some(Variant::VString(s)) if s.len() <= 2 => {
            let g = s.as_bytes();
            (g.len(), if g.len() > 0 { g[0] } else { 0 }, if g.len() > 1 { g[1] } else { 0 })
        }
        _ => (9, 0, 0),
    };
    let ok1 = r1.is_ok();
    let ill1 = is_illegal(&r1);
    let mut m2 = mock_with_boxed_args(vec![arg_i(n), arg_i(32)]);
    let r2 = string_fn::run(&mut m2);
    let (k2, b0, b1) = match result_of(&m2, BuiltInFunction::String) {
        Some(Variant::VString(s)) if s.len() <= 2 => {
            let g = s.as_bytes();
            (g.len(), if g.len() > 0 { g[0] } else { 0 }, if g.len() > 1 { g[1] } else { 0 })
        }
        _ => (9, 0, 0),
    };
    assert!(ok1 == r2.is_ok() && ill1 == is_illegal(&r2), "SPACE$(n) and STRING$(n,32) succeed or fail alike");
    assert!(k1 == k2 && a0 == b0 && a1 == b1, "SPACE$(n) = STRING$(n,32)");
    assert!(n < 0 || k1 == n as usize, "SPACE$(n) has n characters");
    reach!(n == 2);
    reach!(n == 0);
    reach!(n == -1);
    std::mem::forget(r1);
    std::mem::forget(r2);
    std::mem::forget(m1);
    std::mem::forget(m2);
});

// ------------------------------------------------------------------------------------------------ INSTR
fn ab() -> Ch {
    if vs::bool() { ch(b'a') } else { ch(b'b') }
}

/// the specification: least p >= start (1-based) at which needle occurs in hay, else 0   (|hay| <= 3, start >= 1)
fn least_occurrence(start: i32, hay: &[Ch], needle: &[Ch]) -> i64 {
    let mut answer: i64 = 0;
    let mut p = hay.len(); // scan downwards so that the last hit recorded is the least one
    while p >= 1 {
        if (p as i32) >= start && p - 1 + needle.len() <= hay.len() {
            let mut same = true;
            let mut k = 0;
            while k < needle.len() {
                if hay[p - 1 + k].code != needle[k].code {
                    same = false;
                }
                k += 1;
            }
            if same {
                answer = p as i64;
            }
        }
        p -= 1;
    }
    answer
}

/// INSTR(hay, needle) when `start` is None, INSTR(start, hay, needle) otherwise
fn check_instr(start: Option<i32>, hay: &[Ch], needle: &[Ch]) -> i64 {
    let mut m = match start {
        Some(n) => mock_with_boxed_args(vec![arg_i(n), arg_s(hay), arg_s(needle)]),
        None => mock_with_boxed_args(vec![arg_s(hay), arg_s(needle)]),
    };
    let nargs = if start.is_some() { 3 } else { 2 };
    let r = instr::run(&mut m);
    let from = match start {
        Some(n) => n,
        None => 1,
    };
    let mut got = -1;
    if from <= 0 {
        assert!(is_illegal(&r), "INSTR with a non-positive start raises Illegal function call");
        assert!(no_result_written(&m, BuiltInFunction::InStr, nargs), "INSTR with a non-positive start writes no result");
    } else {
        assert!(r.is_ok(), "INSTR with a positive (or no) start succeeds");
        let want = least_occurrence(from, hay, needle);
        let v = int_value(result_of(&m, BuiltInFunction::InStr));
        assert!(v == Some(want), "INSTR([n,]s,t) is the least position >= n (1 without n) where t occurs in s, or else 0");
        got = want;
    }
    std::mem::forget(r);
    std::mem::forget(m);
    got
}

//# harness instr_3args tier=quick label=bounded(|s|=3,|t|=1..2,alphabet_ab;n:INTEGER) props=C17 fn=rusty_basic/src/interpreter/built_ins/instr.rs::run timeout=600
harness_bi!(instr_3args, 8, std_caps, {
    let n = vs::i16() as i32;
    let hay = [ab(), ab(), ab()];
    let two = vs::bool();
    let t0 = ab();
    let got = if two { check_instr(Some(n), &hay, &[t0, ab()]) } else { check_instr(Some(n), &hay, &[t0]) };
    reach!(n == 1 && got == 1);
    reach!(n == 2 && got == 3 && !two);
    reach!(n == 2 && got == 2 && two);
    reach!(n == 1 && got == 0);
    reach!(n == 4 && got == 0);
    reach!(n == 32767);
    reach!(n == 0);
    reach!(n == -32768);
});

//# harness instr_2args tier=quick label=bounded(|s|=3,|t|=1..2,alphabet_ab) props=C17 fn=rusty_basic/src/interpreter/built_ins/instr.rs::run timeout=600
harness_bi!(instr_2args, 8, std_caps, {
    let hay = [ab(), ab(), ab()];
    let two = vs::bool();
    let t0 = ab();
    let got = if two { check_instr(None, &hay, &[t0, ab()]) } else { check_instr(None, &hay, &[t0]) };
    reach!(got == 1);
    reach!(got == 3 && !two);
    reach!(got == 2 && two);
    reach!(got == 0);
});

//# harness instr_empty_haystack tier=quick label=bounded(s=empty,t=a;n:INTEGER) props=C17 fn=rusty_basic/src/interpreter/built_ins/instr.rs::run timeout=600
harness_bi!(instr_empty_haystack, 8, std_caps, {
    let n = vs::i16() as i32;
    let got = check_instr(Some(n), &[], &[ch(b'a')]);
    reach!(n == 1 && got == 0);
    reach!(n == 0);
});

// F44: do_instr slices the haystack at BYTE offsets (`hay.get(i..i+|t|).unwrap()`): a character >= CHR$(128) in the
// haystack makes an offset fall inside a character -> panic (and positions would be byte positions).
//# harness finding_f44_instr_latin1 tier=quick label=bounded(s=a+CHR$(200)+b,t=b) props=C17 fn=rusty_basic/src/interpreter/built_ins/instr.rs::run timeout=600 expect=finding:F44 standalone=1
harness_bi!(finding_f44_instr_latin1, 8, std_caps, {
    let got = check_instr(None, &[ch(b'a'), ch(0xC8), ch(b'b')], &[ch(b'b')]);
    reach!(got == 3);
});
