#!/usr/bin/env python3
"""print, per property, the units serving it and the obligations of the last evidence file (for DESIGN.md tables)"""
import json, os, sys, collections
ROOT = os.path.dirname(os.path.dirname(os.path.abspath(__file__)))
sys.path.insert(0, os.path.join(ROOT, 'lib'))
from rbv import kani as K, verus as V
ku, vu = K.load_kani_units(), V.load_verus_units()
m = json.load(open(os.path.join(ROOT, 'MANIFEST.json')))
for c in m['checks']:
    p = c['property_id']
    try:
        ev = json.load(open(os.path.join(ROOT, c['evidence_file'])))
    except Exception:
        print(p, 'no evidence'); continue
    per = collections.OrderedDict()
    for o in ev['coverage']['obligation_list']:
        u = o['obligation'].split('::')[0]
        d = per.setdefault(u, collections.Counter())
        d[(o['backend'], o['completeness'], o['status'])] += 1
    print('%s: %d/%d obligations, wall %.0fs, solver %.1fs' % (p, ev['coverage']['discharged'], ev['coverage']['obligations'], ev['wall_s'], ev['coverage']['solver_time_s']))
    for u, d in per.items():
        print('   %-22s %s' % (u, ', '.join('%dx %s/%s/%s' % (n, b, l, s) for (b, l, s), n in d.items())))
