//# unit keyword_parser kind=kani_in crate=rusty_parser inject=rusty_parser/src/pc_specific/keyword.rs stubbing=1
//# assume "the token source of KeywordParser is a contract stub (any result a token parser may give: a token of any kind whose text is a case spelling of IF / TO / OR (the word fixed per harness, its letter case symbolic), a soft or a fatal error; the position moved forward by any amount), not the real any_token(): the recognisers behind any_token() are under contract in units token_kernels / eol_token"
//# assume "to_syntax_err (the text 'IF or THEN' of the soft error) and alloc::fmt::format are replaced by abstractions returning an empty String: message texts are not under contract, only the softness of the error; natively (replay) the real functions run"
//! C09 "changing the case of keywords" + C20 (result and position of a filtering parser) — `KeywordParser::parse` /
//! `accept_token` of pc_specific/keyword.rs, the parser behind keyword(), keyword_p(), keyword_of!():
//!   the source yields a Keyword token whose text is ANY case spelling of a wanted keyword -> Ok(that keyword), the input
//!     stays where the source left it;
//!   the source yields any other token (other kind; a keyword that is not wanted) -> soft failure, input back at the start;
//!   the source fails softly -> soft failure, input back at the start;  fatally -> the same fatal error is passed on.
//! The real Keyword::try_from (binary search, case-insensitive comparison) and the real BTreeSet run inside.

/// input known only by its position (KeywordParser is generic in the input type)
struct Pos {
    pos: usize,
}
impl InputTrait for Pos {
    type Output = char;
    fn peek(&self) -> char {
        ' '
    }
    fn read(&mut self) -> char {
        self.pos += 1;
        ' '
    }
    fn get_position(&self) -> usize {
        self.pos
    }
    fn is_eof(&self) -> bool {
        false
    }
    fn set_position(&mut self, position: usize) {
        self.pos = position;
    }
}

const OK: u8 = 0;
const SOFT: u8 = 1;
const FATAL: u8 = 2;

/// a token source known only by its contract: one call, outcome / token / movement chosen by the harness
struct Source {
    outcome: u8,
    kind: u8,
    text: [u8; 2],
    advance: usize,
    calls: usize,
}
impl Parser<Pos> for Source {
    type Output = Token;
    type Error = ParserError;
    fn parse(&mut self, input: &mut Pos) -> Result<Token, ParserError> {
        self.calls += 1;
        input.pos += self.advance;
        if self.outcome == OK {
            let mut s = String::with_capacity(2);
            s.push(self.text[0] as char);
            s.push(self.text[1] as char);
            Ok(Token::new(self.kind, s))
        } else if self.outcome == SOFT {
            Err(ParserError::Miss)
        } else {
            Err(ParserError::Overflow)
        }
    }
    fn set_context(&mut self, _ctx: &()) {}
}

fn no_format(_args: std::fmt::Arguments<'_>) -> String {
    String::new()
}
fn no_syntax_text<'a>(_keywords: impl Iterator<Item = &'a Keyword>) -> String {
    String::new()
}

fn is_spelling(t: &[u8; 2], up: &[u8; 2]) -> bool {
    t[0].to_ascii_uppercase() == up[0] && t[1].to_ascii_uppercase() == up[1]
}

fn keyword_parser_body(wanted_if: bool, wanted_to: bool, which: u8) {
    // the wanted set: {IF}, {TO} or {IF, TO} -- OR is a keyword that is never wanted here
    let mut wanted: Vec<Keyword> = Vec::new();
    if wanted_if {
        wanted.push(Keyword::If);
    }
    if wanted_to {
        wanted.push(Keyword::To);
    }
    let outcome = vs::choice(3);
    let kind = vs::choice(14);
    let up: &[u8; 2] = if which == 0 { b"IF" } else if which == 1 { b"TO" } else { b"OR" };
    let mask = vs::u8();
    let text = [
        if mask & 1 == 1 { up[0] } else { up[0].to_ascii_lowercase() },
        if mask & 2 == 2 { up[1] } else { up[1].to_ascii_lowercase() },
    ];
    let advance = vs::usize();
    vs::assume(advance <= 3);
    let start = 7;
    let mut input = Pos { pos: start };
    let src = Source { outcome, kind, text, advance, calls: 0 };
    let mut p = KeywordParser::new(src, wanted);
    let r = p.parse(&mut input);
    assert!(p.parser.calls == 1, "the token source is asked exactly once");
    let is_kw_token = kind == TokenType::Keyword as u8;
    let accepted = outcome == OK && is_kw_token && ((which == 0 && wanted_if) || (which == 1 && wanted_to));
    match &r {
        Ok(k) => {
            assert!(accepted, "only a Keyword token spelling a wanted keyword is accepted");
            assert!(*k == if which == 0 { Keyword::If } else { Keyword::To }, "the keyword spelled by the token, whatever its letter case");
            assert!(input.pos == start + advance, "the input stays behind the keyword");
        }
        Err(e) => {
            assert!(!accepted, "every case spelling of a wanted keyword is accepted");
            if outcome == FATAL {
                assert!(*e == ParserError::Overflow, "a fatal error of the source is passed on unchanged");
            } else {
                assert!(e.is_soft(), "not the keyword: soft failure");
                assert!(input.pos == start, "a soft failure leaves the input where it started");
            }
        }
    }
    reach!(!(which == 1 && wanted_to) || (accepted && mask & 3 == 0));
    reach!(!(which == 0 && wanted_if) || (accepted && mask & 3 == 1));
    reach!(!(which == 0 && wanted_if) || (accepted && mask & 3 == 2));
    reach!(outcome == OK && !is_kw_token && advance == 2);
    reach!(outcome == OK && is_kw_token && !accepted == (which == 2 || (which == 0 && !wanted_if) || (which == 1 && !wanted_to)));
    reach!(outcome == SOFT && advance == 3);
    reach!(outcome == FATAL);
    std::mem::forget(r);
    std::mem::forget(p);
}

//# harness keyword_parser_wanted tier=quick label=bounded(source-token:IF,any-case,any-kind;wanted:{IF,TO}) props=C09,C20 fn=rusty_parser/src/pc_specific/keyword.rs::KeywordParser::parse timeout=900
harness!(keyword_parser_wanted, 9, stub(crate::tokens::token_type::TokenType::get_index, get_index_is_discriminant), stub(alloc::fmt::format, no_format), stub(crate::pc_specific::keyword::to_syntax_err, no_syntax_text), {
    // the source's token spells IF (any letter case, any token kind); IF and TO are wanted
    keyword_parser_body(true, true, 0);
});

//# harness keyword_parser_wanted_second tier=thorough label=bounded(source-token:TO,any-case,any-kind;wanted:{IF,TO}) props=C09,C20 fn=rusty_parser/src/pc_specific/keyword.rs::KeywordParser::parse timeout=1800
harness!(keyword_parser_wanted_second, 9, stub(crate::tokens::token_type::TokenType::get_index, get_index_is_discriminant), stub(alloc::fmt::format, no_format), stub(crate::pc_specific::keyword::to_syntax_err, no_syntax_text), {
    keyword_parser_body(true, true, 1);
});

//# harness keyword_parser_unwanted tier=thorough label=bounded(source-tokens:IF-OR,any-case,any-kind;wanted:{TO}) props=C09,C20 fn=rusty_parser/src/pc_specific/keyword.rs::KeywordParser::parse timeout=1800
harness!(keyword_parser_unwanted, 9, stub(crate::tokens::token_type::TokenType::get_index, get_index_is_discriminant), stub(alloc::fmt::format, no_format), stub(crate::pc_specific::keyword::to_syntax_err, no_syntax_text), {
    // a keyword that is not wanted (IF), a keyword that is never wanted (OR): never accepted
    keyword_parser_body(false, true, 0);
    keyword_parser_body(false, true, 2);
});

/// contract of TokenType::get_index (proved in unit token_kernels, harness get_index_contract)
fn get_index_is_discriminant(t: &TokenType) -> u8 {
    *t as u8
}
