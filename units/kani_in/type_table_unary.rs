//# unit type_table_unary kind=kani_in crate=rusty_linter inject=rusty_linter/src/converter/expr_rules/unary.rs
//! C12 — static side of unary minus / NOT: the checker accepts the operator exactly on the four numeric built-in
//! types (for which unit type_table shows `Variant::negate` / `unary_not` never give Type mismatch and keep the
//! tag) and rejects strings, fixed-length strings and unresolved types (for which the VM gives Type mismatch).

//# harness unary_applicable tier=quick label=complete props=C12 fn=rusty_linter/src/converter/expr_rules/unary.rs::is_applicable_to_expr_type
harness!(unary_applicable, 2, {
    let k = vs::choice(7);
    let (t, numeric) = match k {
        0 => (ExpressionType::BuiltIn(TypeQualifier::BangSingle), true),
        1 => (ExpressionType::BuiltIn(TypeQualifier::HashDouble), true),
        2 => (ExpressionType::BuiltIn(TypeQualifier::PercentInteger), true),
        3 => (ExpressionType::BuiltIn(TypeQualifier::AmpersandLong), true),
        4 => (ExpressionType::BuiltIn(TypeQualifier::DollarString), false),
        5 => (ExpressionType::FixedLengthString(vs::u16()), false),
        _ => (ExpressionType::Unresolved, false),
    };
    assert!(is_applicable_to_expr_type(&t) == numeric, "unary operators apply exactly to the numeric built-in types");
    reach!(k == 5);
    reach!(numeric);
    std::mem::forget(t);
});
