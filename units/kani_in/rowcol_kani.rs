//# unit rowcol_kani kind=kani_in crate=rusty_parser inject=rusty_parser/src/input/row_col_view.rs
//# assume "texts of at most 5 characters over the alphabet {a, TAB, CR, LF}: a bounded black-box companion of Verus unit rowcol (which proves the same table for every text, but only on the present SHAPE of the function)"
//! C11 / C07 — "every diagnostic names the right place ... counted from 1 in the file as the user sees it under any
//! line-ending convention".  Black-box contract of `create_row_col_view`: one entry per character; entry i holds
//! (1 + number of line ends completed before i, 1 + number of characters since the last completed line end), where a line
//! end is completed by a LF, or by a CR that is not followed by a LF (CR LF counts once, and the LF shares the CR's column
//! position + 0: it stands on the CR's row at the CR's column).  The oracle below is written from the statement with plain
//! index arithmetic on the text; it shares no code with the repository.  Unit rowcol (Verus) proves this for texts of any
//! length on the function as it is written today; a rewrite of the function (iterator loop, look-behind flag) makes that unit
//! lose its anchors (UNDECIDED) — this companion does not depend on the shape and supplies the counterexample.

fn rc_oracle<const N: usize>(t: &[char; N], i: usize) -> (u32, u32) {
    let mut row: u32 = 1;
    let mut col: u32 = 1;
    let mut k = 0;
    while k < i {
        let ends_line = t[k] == '\n' || (t[k] == '\r' && !(k + 1 < N && t[k + 1] == '\n'));
        if ends_line {
            row += 1;
            col = 1;
        } else if t[k] == '\r' {
            // the CR of a CR LF pair: the LF stands at the same column
        } else {
            col += 1;
        }
        k += 1;
    }
    (row, col)
}

fn rc_body<const N: usize>() -> [char; N] {
    let mut t = ['a'; N];
    let mut k = 0;
    while k < N {
        t[k] = match vs::choice(4) {
            0 => 'a',
            1 => '\t',
            2 => '\r',
            _ => '\n',
        };
        k += 1;
    }
    let view = create_row_col_view(&t);
    assert!(view.len() == N, "one table entry per character");
    let mut i = 0;
    while i < N {
        let (row, col) = rc_oracle(&t, i);
        assert!(view[i] == Position::new(row, col), "row = 1 + completed line ends before i, col = 1 + characters since the last one");
        i += 1;
    }
    std::mem::forget(view);
    t
}

//# harness table_len_3 tier=quick label=bounded(|text|<=3,{a,TAB,CR,LF}) props=C11,C07 fn=rusty_parser/src/input/row_col_view.rs::create_row_col_view timeout=600
harness!(table_len_3, 5, {
    let _ = rc_body::<0>();
    let _ = rc_body::<1>();
    let t = rc_body::<3>();
    reach!(t[0] == '\r' && t[1] == '\n' && t[2] == 'a');
    reach!(t[0] == '\r' && t[1] == '\r');
    reach!(t[0] == '\t' && t[1] == 'a');
});

//# harness table_len_5 tier=thorough label=bounded(|text|<=5,{a,TAB,CR,LF}) props=C11,C07 fn=rusty_parser/src/input/row_col_view.rs::create_row_col_view timeout=1200
harness!(table_len_5, 7, {
    let t = rc_body::<5>();
    reach!(t[0] == 'a' && t[1] == '\r' && t[2] == '\n' && t[3] == '\r' && t[4] == 'a');
});
