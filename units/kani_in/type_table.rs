//# unit type_table kind=kani_in crate=rusty_linter inject=rusty_linter/src/core/casting.rs
//# assume "the VM executes a binary operator as in rusty_basic/src/interpreter/handlers/{math,comparison,logical}.rs: + - * MOD call the Variant method on (A, B); / calls rusty_linter::core::qb_divide on (A, B) (the real function, run here as it is); relational operators call A.try_cmp(&B) and store -1/0; AND/OR cast A and B to INTEGER (CastVariant::cast) and then call Variant::and/or.  `vm_binary` below restates that glue (3 lines per handler); the Variant methods, `qb_divide`, `cast`, `cast_binary_op_q`, `bigger_numeric_type` and `can_cast_to` themselves are the real code."
//! C12 / C06 — the operator typing table of the checker against the run-time operators.  Contract (property
//! statement): if the checker accepts an operator application, executing it can never raise Type mismatch nor
//! apply the operator to an operand of the wrong kind; conversely the table rejects nothing that would run:
//!   cast_binary_op_q(l, r, op) == Some(t)  =>  op on ANY valid values of kinds (l, r) is not TypeMismatch, and
//!                                               Ok(v) carries tag t  ("tag preservation": what makes emitting a
//!                                               Cast only when the static types differ safe, C06);
//!   cast_binary_op_q(l, r, op) == None     =>  the VM operator does return TypeMismatch;
//!   q1.can_cast_to(q2)  <=>  cast(v: q1, q2) != TypeMismatch;   unary minus / NOT: numeric kinds keep their tag,
//!   strings are TypeMismatch.
//! The table itself is also compared with the reference rule (+ - *: the wider numeric type, `$ + $ = $`;
//! `/`: floating-point division, SINGLE when both operands are INTEGER or SINGLE, DOUBLE when either is LONG or DOUBLE;
//! relational: INTEGER when both numeric or both strings; AND/OR/MOD: INTEGER when both numeric).
//! All 13 operators x 5 x 5 qualifiers, payloads fully symbolic and valid; strings with length <= 1.
//! Known findings: F5 (`/` re-tagged its result: 7 / 2 was SINGLE 3.5 where the table said INTEGER; repaired: the
//!                 table types `/` as above and the VM/folder divide through `qb_divide`, which converts both operands
//!                 and the quotient to that type),
//!                 F18 (MOD gives TypeMismatch when an operand rounds beyond the LONG range).

use rusty_variant::{Variant, VariantError};

use crate::core::CastVariant;
use rusty_parser::TypeQualifier as Q;

fn rank(q: Q) -> Option<u8> {
    match q {
        Q::PercentInteger => Some(0),
        Q::AmpersandLong => Some(1),
        Q::BangSingle => Some(2),
        Q::HashDouble => Some(3),
        Q::DollarString => None,
    }
}
/// reference: the wider of two numeric types
fn wider(l: Q, r: Q) -> Option<Q> {
    match (rank(l), rank(r)) {
        (Some(a), Some(b)) => Some(if a >= b { l } else { r }),
        _ => None,
    }
}
/// reference typing rule of a binary operator
fn reference(l: Q, r: Q, op: Operator) -> Option<Q> {
    let both_numeric = rank(l).is_some() && rank(r).is_some();
    let both_strings = l == Q::DollarString && r == Q::DollarString;
    match op {
        Operator::Plus => if both_strings { Some(Q::DollarString) } else { wider(l, r) },
        Operator::Minus | Operator::Multiply => wider(l, r),
        Operator::Divide => {
            // floating-point division: SINGLE when both operands are INTEGER or SINGLE, DOUBLE when either is LONG or DOUBLE
            let long_or_double = |q: Q| q == Q::AmpersandLong || q == Q::HashDouble;
            if !both_numeric { None } else if long_or_double(l) || long_or_double(r) { Some(Q::HashDouble) } else { Some(Q::BangSingle) }
        }
        Operator::Less | Operator::LessOrEqual | Operator::Equal | Operator::GreaterOrEqual | Operator::Greater | Operator::NotEqual => {
            if both_numeric || both_strings { Some(Q::PercentInteger) } else { None }
        }
        Operator::And | Operator::Or | Operator::Modulo => if both_numeric { Some(Q::PercentInteger) } else { None },
    }
}
fn any_q() -> Q {
    match vs::choice(5) {
        0 => Q::BangSingle,
        1 => Q::HashDouble,
        2 => Q::DollarString,
        3 => Q::PercentInteger,
        _ => Q::AmpersandLong,
    }
}
fn op_of(k: u8) -> Operator {
    match k {
        0 => Operator::Less,
        1 => Operator::LessOrEqual,
        2 => Operator::Equal,
        3 => Operator::GreaterOrEqual,
        4 => Operator::Greater,
        5 => Operator::NotEqual,
        6 => Operator::Plus,
        7 => Operator::Minus,
        8 => Operator::Multiply,
        9 => Operator::Divide,
        10 => Operator::Modulo,
        11 => Operator::And,
        _ => Operator::Or,
    }
}
fn tag(v: &Variant) -> Option<Q> {
    match v {
        Variant::VSingle(_) => Some(Q::BangSingle),
        Variant::VDouble(_) => Some(Q::HashDouble),
        Variant::VString(_) => Some(Q::DollarString),
        Variant::VInteger(_) => Some(Q::PercentInteger),
        Variant::VLong(_) => Some(Q::AmpersandLong),
        _ => None,
    }
}
fn valid(v: &Variant) -> bool {
    match v {
        Variant::VInteger(i) => (-32768..=32767).contains(i),
        Variant::VLong(l) => (-2147483648..=2147483647).contains(l),
        Variant::VSingle(f) => f.is_finite(),
        Variant::VDouble(d) => d.is_finite(),
        _ => true,
    }
}

/// outcome of a VM step: Ok(tag of the value left in A), type mismatch, or another run-time error
#[derive(Clone, Copy, PartialEq, Eq)]
enum Out {
    Tag(Option<Q>),
    Mismatch,
    OtherError,
}
fn out_v(r: Result<Variant, VariantError>) -> Out {
    let o = match &r {
        Ok(v) => Out::Tag(tag(v)),
        Err(VariantError::TypeMismatch) => Out::Mismatch,
        Err(_) => Out::OtherError,
    };
    std::mem::forget(r);
    o
}
fn out_l(r: Result<Variant, LintError>) -> Out {
    let o = match &r {
        Ok(v) => Out::Tag(tag(v)),
        Err(LintError::TypeMismatch) => Out::Mismatch,
        Err(_) => Out::OtherError,
    };
    std::mem::forget(r);
    o
}
/// the handlers' glue (see the `assume` line of this unit)
fn vm_binary(op: Operator, a: Variant, b: Variant) -> Out {
    match op {
        Operator::Plus => out_v(a.plus(b)),
        Operator::Minus => out_v(a.minus(b)),
        Operator::Multiply => out_v(a.multiply(b)),
        Operator::Divide => out_l(qb_divide(a, b)),
        Operator::Modulo => out_v(a.modulo(b)),
        Operator::And | Operator::Or => {
            let ca = a.cast(Q::PercentInteger);
            let cb = b.cast(Q::PercentInteger);
            match (ca, cb) {
                (Ok(x), Ok(y)) => {
                    // `cast(%)` yields an INTEGER; hand AND/OR fresh INTEGER values with the same payload (keeps CBMC
                    // from exploring the drop glue of a `Variant` whose tag it read through a `Result`)
                    let xi = match &x { Variant::VInteger(i) => Some(*i), _ => None };
                    let yi = match &y { Variant::VInteger(i) => Some(*i), _ => None };
                    std::mem::forget(x);
                    std::mem::forget(y);
                    match (xi, yi) {
                        (Some(i), Some(j)) => out_v(if op == Operator::And { Variant::VInteger(i).and(Variant::VInteger(j)) } else { Variant::VInteger(i).or(Variant::VInteger(j)) }),
                        _ => {
                            assert!(false, "cast to INTEGER must yield an INTEGER");
                            Out::OtherError
                        }
                    }
                }
                (Err(e), other) => { std::mem::forget(other); out_l(Err(e)) }
                (Ok(x), Err(e)) => { std::mem::forget(x); out_l(Err(e)) }
            }
        }
        _ => {
            let r = a.try_cmp(&b);
            let o = match &r {
                Ok(ord) => {
                    let v: Variant = (*ord == std::cmp::Ordering::Less).into(); // -1 / 0 as the handlers store it
                    Out::Tag(tag(&v))
                }
                Err(VariantError::TypeMismatch) => Out::Mismatch,
                Err(_) => Out::OtherError,
            };
            std::mem::forget(a);
            std::mem::forget(b);
            o
        }
    }
}
/// the obligation for one operator application
fn check(l: Q, r: Q, op: Operator, out: Out, skip_tag: bool) {
    match cast_binary_op_q(l, r, op) {
        Some(t) => {
            assert!(out != Out::Mismatch, "accepted by the checker but Type mismatch at run time");
            if let Out::Tag(g) = out {
                if !skip_tag {
                    assert!(g == Some(t), "tag preservation: the run-time value does not have the static result type");
                }
            }
        }
        None => assert!(out == Out::Mismatch, "rejected by the checker although the VM operator accepts these kinds"),
    }
}

// ---------------------------------------------------------------------------------------------
// the table against the reference rule
// ---------------------------------------------------------------------------------------------
//# harness table_matches_reference tier=quick label=complete props=C12 fn=rusty_linter/src/core/casting.rs::cast_binary_op_q
harness!(table_matches_reference, 2, {
    let l = any_q();
    let r = any_q();
    let op = op_of(vs::choice(13));
    assert!(cast_binary_op_q(l, r, op) == reference(l, r, op), "operator typing table differs from the reference rule");
    assert!(bigger_numeric_type(l, r) == wider(l, r), "bigger_numeric_type is not the wider numeric type");
    assert!(bigger_numeric_type(l, r) == bigger_numeric_type(r, l), "bigger_numeric_type is not symmetric");
    reach!(cast_binary_op_q(l, r, op).is_none());
    reach!(cast_binary_op_q(l, r, op) == Some(Q::DollarString));
    reach!(cast_binary_op_q(l, r, op) == Some(Q::HashDouble));
});

//# harness can_cast_to_reference tier=quick label=complete props=C12 fn=rusty_linter/src/core/can_cast_to.rs::CanCastTo<TypeQualifier>::can_cast_to
harness!(can_cast_to_reference, 2, {
    let l = any_q();
    let r = any_q();
    assert!(l.can_cast_to(&r) == ((l == Q::DollarString) == (r == Q::DollarString)), "assignability: numeric <-> numeric, string <-> string only");
    reach!(l.can_cast_to(&r));
    reach!(!l.can_cast_to(&r));
});

// ---------------------------------------------------------------------------------------------
// numeric x numeric: all 13 operators

//# harness binary_integer_integer tier=quick tier.C06=thorough label=complete props=C12,C06 fn=rusty_linter/src/core/casting.rs::cast_binary_op_q timeout=1200
harness!(binary_integer_integer, 1, {
    let a = vs::i32();
    vs::assume(a >= -32768 && a <= 32767);
    let b = vs::i32();
    vs::assume(b >= -32768 && b <= 32767);
    let out = vm_binary(Operator::Less, Variant::VInteger(a), Variant::VInteger(b));
    check(Q::PercentInteger, Q::PercentInteger, Operator::Less, out, false);
    assert!(cast_binary_op_q(Q::PercentInteger, Q::PercentInteger, Operator::Less).is_some(), "numeric operands are accepted for every operator");
    reach!(matches!(out, Out::Tag(_)));
    let out = vm_binary(Operator::LessOrEqual, Variant::VInteger(a), Variant::VInteger(b));
    check(Q::PercentInteger, Q::PercentInteger, Operator::LessOrEqual, out, false);
    assert!(cast_binary_op_q(Q::PercentInteger, Q::PercentInteger, Operator::LessOrEqual).is_some(), "numeric operands are accepted for every operator");
    let out = vm_binary(Operator::Equal, Variant::VInteger(a), Variant::VInteger(b));
    check(Q::PercentInteger, Q::PercentInteger, Operator::Equal, out, false);
    assert!(cast_binary_op_q(Q::PercentInteger, Q::PercentInteger, Operator::Equal).is_some(), "numeric operands are accepted for every operator");
    let out = vm_binary(Operator::GreaterOrEqual, Variant::VInteger(a), Variant::VInteger(b));
    check(Q::PercentInteger, Q::PercentInteger, Operator::GreaterOrEqual, out, false);
    assert!(cast_binary_op_q(Q::PercentInteger, Q::PercentInteger, Operator::GreaterOrEqual).is_some(), "numeric operands are accepted for every operator");
    let out = vm_binary(Operator::Greater, Variant::VInteger(a), Variant::VInteger(b));
    check(Q::PercentInteger, Q::PercentInteger, Operator::Greater, out, false);
    assert!(cast_binary_op_q(Q::PercentInteger, Q::PercentInteger, Operator::Greater).is_some(), "numeric operands are accepted for every operator");
    let out = vm_binary(Operator::NotEqual, Variant::VInteger(a), Variant::VInteger(b));
    check(Q::PercentInteger, Q::PercentInteger, Operator::NotEqual, out, false);
    assert!(cast_binary_op_q(Q::PercentInteger, Q::PercentInteger, Operator::NotEqual).is_some(), "numeric operands are accepted for every operator");
    let out = vm_binary(Operator::Plus, Variant::VInteger(a), Variant::VInteger(b));
    check(Q::PercentInteger, Q::PercentInteger, Operator::Plus, out, false);
    assert!(cast_binary_op_q(Q::PercentInteger, Q::PercentInteger, Operator::Plus).is_some(), "numeric operands are accepted for every operator");
    let out = vm_binary(Operator::Minus, Variant::VInteger(a), Variant::VInteger(b));
    check(Q::PercentInteger, Q::PercentInteger, Operator::Minus, out, false);
    assert!(cast_binary_op_q(Q::PercentInteger, Q::PercentInteger, Operator::Minus).is_some(), "numeric operands are accepted for every operator");
    let out = vm_binary(Operator::Multiply, Variant::VInteger(a), Variant::VInteger(b));
    check(Q::PercentInteger, Q::PercentInteger, Operator::Multiply, out, false);
    assert!(cast_binary_op_q(Q::PercentInteger, Q::PercentInteger, Operator::Multiply).is_some(), "numeric operands are accepted for every operator");
    let out = vm_binary(Operator::Divide, Variant::VInteger(a), Variant::VInteger(b));
    check(Q::PercentInteger, Q::PercentInteger, Operator::Divide, out, KF_F5);
    assert!(cast_binary_op_q(Q::PercentInteger, Q::PercentInteger, Operator::Divide).is_some(), "numeric operands are accepted for every operator");
    reach!(matches!(out, Out::Tag(_)));
    let out = vm_binary(Operator::Modulo, Variant::VInteger(a), Variant::VInteger(b));
    check(Q::PercentInteger, Q::PercentInteger, Operator::Modulo, out, false);
    assert!(cast_binary_op_q(Q::PercentInteger, Q::PercentInteger, Operator::Modulo).is_some(), "numeric operands are accepted for every operator");
    reach!(out == Out::OtherError);
});

//# harness logical_integer_integer tier=quick tier.C06=thorough label=complete props=C12,C06 fn=rusty_linter/src/core/casting.rs::cast_binary_op_q timeout=1200
harness!(logical_integer_integer, 18, {
    let a = vs::i32();
    vs::assume(a >= -32768 && a <= 32767);
    let b = vs::i32();
    vs::assume(b >= -32768 && b <= 32767);
    let out = vm_binary(Operator::And, Variant::VInteger(a), Variant::VInteger(b));
    check(Q::PercentInteger, Q::PercentInteger, Operator::And, out, false);
    assert!(cast_binary_op_q(Q::PercentInteger, Q::PercentInteger, Operator::And).is_some(), "numeric operands are accepted for every operator");
    reach!(matches!(out, Out::Tag(_)));
    let out = vm_binary(Operator::Or, Variant::VInteger(a), Variant::VInteger(b));
    check(Q::PercentInteger, Q::PercentInteger, Operator::Or, out, false);
    assert!(cast_binary_op_q(Q::PercentInteger, Q::PercentInteger, Operator::Or).is_some(), "numeric operands are accepted for every operator");
    reach!(matches!(out, Out::Tag(_)));
});

//# harness finding_f5_divide_integer_integer tier=quick label=complete props=C06,C12 fn=rusty_linter/src/core/casting.rs::cast_binary_op_q expect=finding:F5
harness!(finding_f5_divide_integer_integer, 1, {
    let a = vs::i32();
    vs::assume(a >= -32768 && a <= 32767);
    let b = vs::i32();
    vs::assume(b >= -32768 && b <= 32767);
    let out = vm_binary(Operator::Divide, Variant::VInteger(a), Variant::VInteger(b));
    check(Q::PercentInteger, Q::PercentInteger, Operator::Divide, out, false);
});

//# harness binary_integer_long tier=quick tier.C06=thorough label=complete props=C12,C06 fn=rusty_linter/src/core/casting.rs::cast_binary_op_q timeout=1200
harness!(binary_integer_long, 1, {
    let a = vs::i32();
    vs::assume(a >= -32768 && a <= 32767);
    let b = vs::i64();
    vs::assume(b >= -2147483648 && b <= 2147483647);
    let out = vm_binary(Operator::Less, Variant::VInteger(a), Variant::VLong(b));
    check(Q::PercentInteger, Q::AmpersandLong, Operator::Less, out, false);
    assert!(cast_binary_op_q(Q::PercentInteger, Q::AmpersandLong, Operator::Less).is_some(), "numeric operands are accepted for every operator");
    reach!(matches!(out, Out::Tag(_)));
    let out = vm_binary(Operator::LessOrEqual, Variant::VInteger(a), Variant::VLong(b));
    check(Q::PercentInteger, Q::AmpersandLong, Operator::LessOrEqual, out, false);
    assert!(cast_binary_op_q(Q::PercentInteger, Q::AmpersandLong, Operator::LessOrEqual).is_some(), "numeric operands are accepted for every operator");
    let out = vm_binary(Operator::Equal, Variant::VInteger(a), Variant::VLong(b));
    check(Q::PercentInteger, Q::AmpersandLong, Operator::Equal, out, false);
    assert!(cast_binary_op_q(Q::PercentInteger, Q::AmpersandLong, Operator::Equal).is_some(), "numeric operands are accepted for every operator");
    let out = vm_binary(Operator::GreaterOrEqual, Variant::VInteger(a), Variant::VLong(b));
    check(Q::PercentInteger, Q::AmpersandLong, Operator::GreaterOrEqual, out, false);
    assert!(cast_binary_op_q(Q::PercentInteger, Q::AmpersandLong, Operator::GreaterOrEqual).is_some(), "numeric operands are accepted for every operator");
    let out = vm_binary(Operator::Greater, Variant::VInteger(a), Variant::VLong(b));
    check(Q::PercentInteger, Q::AmpersandLong, Operator::Greater, out, false);
    assert!(cast_binary_op_q(Q::PercentInteger, Q::AmpersandLong, Operator::Greater).is_some(), "numeric operands are accepted for every operator");
    let out = vm_binary(Operator::NotEqual, Variant::VInteger(a), Variant::VLong(b));
    check(Q::PercentInteger, Q::AmpersandLong, Operator::NotEqual, out, false);
    assert!(cast_binary_op_q(Q::PercentInteger, Q::AmpersandLong, Operator::NotEqual).is_some(), "numeric operands are accepted for every operator");
    let out = vm_binary(Operator::Plus, Variant::VInteger(a), Variant::VLong(b));
    check(Q::PercentInteger, Q::AmpersandLong, Operator::Plus, out, false);
    assert!(cast_binary_op_q(Q::PercentInteger, Q::AmpersandLong, Operator::Plus).is_some(), "numeric operands are accepted for every operator");
    let out = vm_binary(Operator::Minus, Variant::VInteger(a), Variant::VLong(b));
    check(Q::PercentInteger, Q::AmpersandLong, Operator::Minus, out, false);
    assert!(cast_binary_op_q(Q::PercentInteger, Q::AmpersandLong, Operator::Minus).is_some(), "numeric operands are accepted for every operator");
    let out = vm_binary(Operator::Multiply, Variant::VInteger(a), Variant::VLong(b));
    check(Q::PercentInteger, Q::AmpersandLong, Operator::Multiply, out, false);
    assert!(cast_binary_op_q(Q::PercentInteger, Q::AmpersandLong, Operator::Multiply).is_some(), "numeric operands are accepted for every operator");
    let out = vm_binary(Operator::Divide, Variant::VInteger(a), Variant::VLong(b));
    check(Q::PercentInteger, Q::AmpersandLong, Operator::Divide, out, KF_F5);
    assert!(cast_binary_op_q(Q::PercentInteger, Q::AmpersandLong, Operator::Divide).is_some(), "numeric operands are accepted for every operator");
    reach!(matches!(out, Out::Tag(_)));
    let out = vm_binary(Operator::Modulo, Variant::VInteger(a), Variant::VLong(b));
    check(Q::PercentInteger, Q::AmpersandLong, Operator::Modulo, out, false);
    assert!(cast_binary_op_q(Q::PercentInteger, Q::AmpersandLong, Operator::Modulo).is_some(), "numeric operands are accepted for every operator");
    reach!(out == Out::OtherError);
});

//# harness logical_integer_long tier=quick tier.C06=thorough label=complete props=C12,C06 fn=rusty_linter/src/core/casting.rs::cast_binary_op_q timeout=1200
harness!(logical_integer_long, 18, {
    let a = vs::i32();
    vs::assume(a >= -32768 && a <= 32767);
    let b = vs::i64();
    vs::assume(b >= -2147483648 && b <= 2147483647);
    let out = vm_binary(Operator::And, Variant::VInteger(a), Variant::VLong(b));
    check(Q::PercentInteger, Q::AmpersandLong, Operator::And, out, false);
    assert!(cast_binary_op_q(Q::PercentInteger, Q::AmpersandLong, Operator::And).is_some(), "numeric operands are accepted for every operator");
    reach!(matches!(out, Out::Tag(_)));
    let out = vm_binary(Operator::Or, Variant::VInteger(a), Variant::VLong(b));
    check(Q::PercentInteger, Q::AmpersandLong, Operator::Or, out, false);
    assert!(cast_binary_op_q(Q::PercentInteger, Q::AmpersandLong, Operator::Or).is_some(), "numeric operands are accepted for every operator");
    reach!(matches!(out, Out::Tag(_)));
});

//# harness finding_f5_divide_integer_long tier=quick label=complete props=C06,C12 fn=rusty_linter/src/core/casting.rs::cast_binary_op_q expect=finding:F5
harness!(finding_f5_divide_integer_long, 1, {
    let a = vs::i32();
    vs::assume(a >= -32768 && a <= 32767);
    let b = vs::i64();
    vs::assume(b >= -2147483648 && b <= 2147483647);
    let out = vm_binary(Operator::Divide, Variant::VInteger(a), Variant::VLong(b));
    check(Q::PercentInteger, Q::AmpersandLong, Operator::Divide, out, false);
});

//# harness binary_integer_single tier=quick tier.C06=thorough label=complete props=C12,C06 fn=rusty_linter/src/core/casting.rs::cast_binary_op_q timeout=1200
harness!(binary_integer_single, 1, {
    let a = vs::i32();
    vs::assume(a >= -32768 && a <= 32767);
    let b = vs::f32();
    vs::assume(b.is_finite());
    let out = vm_binary(Operator::Less, Variant::VInteger(a), Variant::VSingle(b));
    check(Q::PercentInteger, Q::BangSingle, Operator::Less, out, false);
    assert!(cast_binary_op_q(Q::PercentInteger, Q::BangSingle, Operator::Less).is_some(), "numeric operands are accepted for every operator");
    reach!(matches!(out, Out::Tag(_)));
    let out = vm_binary(Operator::LessOrEqual, Variant::VInteger(a), Variant::VSingle(b));
    check(Q::PercentInteger, Q::BangSingle, Operator::LessOrEqual, out, false);
    assert!(cast_binary_op_q(Q::PercentInteger, Q::BangSingle, Operator::LessOrEqual).is_some(), "numeric operands are accepted for every operator");
    let out = vm_binary(Operator::Equal, Variant::VInteger(a), Variant::VSingle(b));
    check(Q::PercentInteger, Q::BangSingle, Operator::Equal, out, false);
    assert!(cast_binary_op_q(Q::PercentInteger, Q::BangSingle, Operator::Equal).is_some(), "numeric operands are accepted for every operator");
    let out = vm_binary(Operator::GreaterOrEqual, Variant::VInteger(a), Variant::VSingle(b));
    check(Q::PercentInteger, Q::BangSingle, Operator::GreaterOrEqual, out, false);
    assert!(cast_binary_op_q(Q::PercentInteger, Q::BangSingle, Operator::GreaterOrEqual).is_some(), "numeric operands are accepted for every operator");
    let out = vm_binary(Operator::Greater, Variant::VInteger(a), Variant::VSingle(b));
    check(Q::PercentInteger, Q::BangSingle, Operator::Greater, out, false);
    assert!(cast_binary_op_q(Q::PercentInteger, Q::BangSingle, Operator::Greater).is_some(), "numeric operands are accepted for every operator");
    let out = vm_binary(Operator::NotEqual, Variant::VInteger(a), Variant::VSingle(b));
    check(Q::PercentInteger, Q::BangSingle, Operator::NotEqual, out, false);
    assert!(cast_binary_op_q(Q::PercentInteger, Q::BangSingle, Operator::NotEqual).is_some(), "numeric operands are accepted for every operator");
    let out = vm_binary(Operator::Plus, Variant::VInteger(a), Variant::VSingle(b));
    check(Q::PercentInteger, Q::BangSingle, Operator::Plus, out, false);
    assert!(cast_binary_op_q(Q::PercentInteger, Q::BangSingle, Operator::Plus).is_some(), "numeric operands are accepted for every operator");
    let out = vm_binary(Operator::Minus, Variant::VInteger(a), Variant::VSingle(b));
    check(Q::PercentInteger, Q::BangSingle, Operator::Minus, out, false);
    assert!(cast_binary_op_q(Q::PercentInteger, Q::BangSingle, Operator::Minus).is_some(), "numeric operands are accepted for every operator");
    let out = vm_binary(Operator::Multiply, Variant::VInteger(a), Variant::VSingle(b));
    check(Q::PercentInteger, Q::BangSingle, Operator::Multiply, out, false);
    assert!(cast_binary_op_q(Q::PercentInteger, Q::BangSingle, Operator::Multiply).is_some(), "numeric operands are accepted for every operator");
    let out = vm_binary(Operator::Divide, Variant::VInteger(a), Variant::VSingle(b));
    check(Q::PercentInteger, Q::BangSingle, Operator::Divide, out, KF_F5);
    assert!(cast_binary_op_q(Q::PercentInteger, Q::BangSingle, Operator::Divide).is_some(), "numeric operands are accepted for every operator");
    reach!(matches!(out, Out::Tag(_)));
    if KF_F18 {
        vs::assume((b as f64).abs() < 2147483647.5);
    }
    let out = vm_binary(Operator::Modulo, Variant::VInteger(a), Variant::VSingle(b));
    check(Q::PercentInteger, Q::BangSingle, Operator::Modulo, out, false);
    assert!(cast_binary_op_q(Q::PercentInteger, Q::BangSingle, Operator::Modulo).is_some(), "numeric operands are accepted for every operator");
    reach!(out == Out::OtherError);
});

//# harness logical_integer_single tier=quick tier.C06=thorough label=complete props=C12,C06 fn=rusty_linter/src/core/casting.rs::cast_binary_op_q timeout=1200
harness!(logical_integer_single, 18, {
    let a = vs::i32();
    vs::assume(a >= -32768 && a <= 32767);
    let b = vs::f32();
    vs::assume(b.is_finite());
    let out = vm_binary(Operator::And, Variant::VInteger(a), Variant::VSingle(b));
    check(Q::PercentInteger, Q::BangSingle, Operator::And, out, false);
    assert!(cast_binary_op_q(Q::PercentInteger, Q::BangSingle, Operator::And).is_some(), "numeric operands are accepted for every operator");
    reach!(matches!(out, Out::Tag(_)));
    let out = vm_binary(Operator::Or, Variant::VInteger(a), Variant::VSingle(b));
    check(Q::PercentInteger, Q::BangSingle, Operator::Or, out, false);
    assert!(cast_binary_op_q(Q::PercentInteger, Q::BangSingle, Operator::Or).is_some(), "numeric operands are accepted for every operator");
    reach!(matches!(out, Out::Tag(_)));
});

//# harness finding_f5_divide_integer_single tier=quick label=complete props=C06,C12 fn=rusty_linter/src/core/casting.rs::cast_binary_op_q expect=finding:F5
harness!(finding_f5_divide_integer_single, 1, {
    let a = vs::i32();
    vs::assume(a >= -32768 && a <= 32767);
    let b = vs::f32();
    vs::assume(b.is_finite());
    let out = vm_binary(Operator::Divide, Variant::VInteger(a), Variant::VSingle(b));
    check(Q::PercentInteger, Q::BangSingle, Operator::Divide, out, false);
});

//# harness binary_integer_double tier=quick tier.C06=thorough label=complete props=C12,C06 fn=rusty_linter/src/core/casting.rs::cast_binary_op_q timeout=1200
harness!(binary_integer_double, 1, {
    let a = vs::i32();
    vs::assume(a >= -32768 && a <= 32767);
    let b = vs::f64();
    vs::assume(b.is_finite());
    let out = vm_binary(Operator::Less, Variant::VInteger(a), Variant::VDouble(b));
    check(Q::PercentInteger, Q::HashDouble, Operator::Less, out, false);
    assert!(cast_binary_op_q(Q::PercentInteger, Q::HashDouble, Operator::Less).is_some(), "numeric operands are accepted for every operator");
    reach!(matches!(out, Out::Tag(_)));
    let out = vm_binary(Operator::LessOrEqual, Variant::VInteger(a), Variant::VDouble(b));
    check(Q::PercentInteger, Q::HashDouble, Operator::LessOrEqual, out, false);
    assert!(cast_binary_op_q(Q::PercentInteger, Q::HashDouble, Operator::LessOrEqual).is_some(), "numeric operands are accepted for every operator");
    let out = vm_binary(Operator::Equal, Variant::VInteger(a), Variant::VDouble(b));
    check(Q::PercentInteger, Q::HashDouble, Operator::Equal, out, false);
    assert!(cast_binary_op_q(Q::PercentInteger, Q::HashDouble, Operator::Equal).is_some(), "numeric operands are accepted for every operator");
    let out = vm_binary(Operator::GreaterOrEqual, Variant::VInteger(a), Variant::VDouble(b));
    check(Q::PercentInteger, Q::HashDouble, Operator::GreaterOrEqual, out, false);
    assert!(cast_binary_op_q(Q::PercentInteger, Q::HashDouble, Operator::GreaterOrEqual).is_some(), "numeric operands are accepted for every operator");
    let out = vm_binary(Operator::Greater, Variant::VInteger(a), Variant::VDouble(b));
    check(Q::PercentInteger, Q::HashDouble, Operator::Greater, out, false);
    assert!(cast_binary_op_q(Q::PercentInteger, Q::HashDouble, Operator::Greater).is_some(), "numeric operands are accepted for every operator");
    let out = vm_binary(Operator::NotEqual, Variant::VInteger(a), Variant::VDouble(b));
    check(Q::PercentInteger, Q::HashDouble, Operator::NotEqual, out, false);
    assert!(cast_binary_op_q(Q::PercentInteger, Q::HashDouble, Operator::NotEqual).is_some(), "numeric operands are accepted for every operator");
    let out = vm_binary(Operator::Plus, Variant::VInteger(a), Variant::VDouble(b));
    check(Q::PercentInteger, Q::HashDouble, Operator::Plus, out, false);
    assert!(cast_binary_op_q(Q::PercentInteger, Q::HashDouble, Operator::Plus).is_some(), "numeric operands are accepted for every operator");
    let out = vm_binary(Operator::Minus, Variant::VInteger(a), Variant::VDouble(b));
    check(Q::PercentInteger, Q::HashDouble, Operator::Minus, out, false);
    assert!(cast_binary_op_q(Q::PercentInteger, Q::HashDouble, Operator::Minus).is_some(), "numeric operands are accepted for every operator");
    let out = vm_binary(Operator::Multiply, Variant::VInteger(a), Variant::VDouble(b));
    check(Q::PercentInteger, Q::HashDouble, Operator::Multiply, out, false);
    assert!(cast_binary_op_q(Q::PercentInteger, Q::HashDouble, Operator::Multiply).is_some(), "numeric operands are accepted for every operator");
    let out = vm_binary(Operator::Divide, Variant::VInteger(a), Variant::VDouble(b));
    check(Q::PercentInteger, Q::HashDouble, Operator::Divide, out, KF_F5);
    assert!(cast_binary_op_q(Q::PercentInteger, Q::HashDouble, Operator::Divide).is_some(), "numeric operands are accepted for every operator");
    reach!(matches!(out, Out::Tag(_)));
    if KF_F18 {
        vs::assume((b as f64).abs() < 2147483647.5);
    }
    let out = vm_binary(Operator::Modulo, Variant::VInteger(a), Variant::VDouble(b));
    check(Q::PercentInteger, Q::HashDouble, Operator::Modulo, out, false);
    assert!(cast_binary_op_q(Q::PercentInteger, Q::HashDouble, Operator::Modulo).is_some(), "numeric operands are accepted for every operator");
    reach!(out == Out::OtherError);
});

//# harness logical_integer_double tier=quick tier.C06=thorough label=complete props=C12,C06 fn=rusty_linter/src/core/casting.rs::cast_binary_op_q timeout=1200
harness!(logical_integer_double, 18, {
    let a = vs::i32();
    vs::assume(a >= -32768 && a <= 32767);
    let b = vs::f64();
    vs::assume(b.is_finite());
    let out = vm_binary(Operator::And, Variant::VInteger(a), Variant::VDouble(b));
    check(Q::PercentInteger, Q::HashDouble, Operator::And, out, false);
    assert!(cast_binary_op_q(Q::PercentInteger, Q::HashDouble, Operator::And).is_some(), "numeric operands are accepted for every operator");
    reach!(matches!(out, Out::Tag(_)));
    let out = vm_binary(Operator::Or, Variant::VInteger(a), Variant::VDouble(b));
    check(Q::PercentInteger, Q::HashDouble, Operator::Or, out, false);
    assert!(cast_binary_op_q(Q::PercentInteger, Q::HashDouble, Operator::Or).is_some(), "numeric operands are accepted for every operator");
    reach!(matches!(out, Out::Tag(_)));
});

//# harness finding_f5_divide_integer_double tier=quick label=complete props=C06,C12 fn=rusty_linter/src/core/casting.rs::cast_binary_op_q expect=finding:F5
harness!(finding_f5_divide_integer_double, 1, {
    let a = vs::i32();
    vs::assume(a >= -32768 && a <= 32767);
    let b = vs::f64();
    vs::assume(b.is_finite());
    let out = vm_binary(Operator::Divide, Variant::VInteger(a), Variant::VDouble(b));
    check(Q::PercentInteger, Q::HashDouble, Operator::Divide, out, false);
});

//# harness binary_long_integer tier=quick tier.C06=thorough label=complete props=C12,C06 fn=rusty_linter/src/core/casting.rs::cast_binary_op_q timeout=1200
harness!(binary_long_integer, 1, {
    let a = vs::i64();
    vs::assume(a >= -2147483648 && a <= 2147483647);
    let b = vs::i32();
    vs::assume(b >= -32768 && b <= 32767);
    let out = vm_binary(Operator::Less, Variant::VLong(a), Variant::VInteger(b));
    check(Q::AmpersandLong, Q::PercentInteger, Operator::Less, out, false);
    assert!(cast_binary_op_q(Q::AmpersandLong, Q::PercentInteger, Operator::Less).is_some(), "numeric operands are accepted for every operator");
    reach!(matches!(out, Out::Tag(_)));
    let out = vm_binary(Operator::LessOrEqual, Variant::VLong(a), Variant::VInteger(b));
    check(Q::AmpersandLong, Q::PercentInteger, Operator::LessOrEqual, out, false);
    assert!(cast_binary_op_q(Q::AmpersandLong, Q::PercentInteger, Operator::LessOrEqual).is_some(), "numeric operands are accepted for every operator");
    let out = vm_binary(Operator::Equal, Variant::VLong(a), Variant::VInteger(b));
    check(Q::AmpersandLong, Q::PercentInteger, Operator::Equal, out, false);
    assert!(cast_binary_op_q(Q::AmpersandLong, Q::PercentInteger, Operator::Equal).is_some(), "numeric operands are accepted for every operator");
    let out = vm_binary(Operator::GreaterOrEqual, Variant::VLong(a), Variant::VInteger(b));
    check(Q::AmpersandLong, Q::PercentInteger, Operator::GreaterOrEqual, out, false);
    assert!(cast_binary_op_q(Q::AmpersandLong, Q::PercentInteger, Operator::GreaterOrEqual).is_some(), "numeric operands are accepted for every operator");
    let out = vm_binary(Operator::Greater, Variant::VLong(a), Variant::VInteger(b));
    check(Q::AmpersandLong, Q::PercentInteger, Operator::Greater, out, false);
    assert!(cast_binary_op_q(Q::AmpersandLong, Q::PercentInteger, Operator::Greater).is_some(), "numeric operands are accepted for every operator");
    let out = vm_binary(Operator::NotEqual, Variant::VLong(a), Variant::VInteger(b));
    check(Q::AmpersandLong, Q::PercentInteger, Operator::NotEqual, out, false);
    assert!(cast_binary_op_q(Q::AmpersandLong, Q::PercentInteger, Operator::NotEqual).is_some(), "numeric operands are accepted for every operator");
    let out = vm_binary(Operator::Plus, Variant::VLong(a), Variant::VInteger(b));
    check(Q::AmpersandLong, Q::PercentInteger, Operator::Plus, out, false);
    assert!(cast_binary_op_q(Q::AmpersandLong, Q::PercentInteger, Operator::Plus).is_some(), "numeric operands are accepted for every operator");
    let out = vm_binary(Operator::Minus, Variant::VLong(a), Variant::VInteger(b));
    check(Q::AmpersandLong, Q::PercentInteger, Operator::Minus, out, false);
    assert!(cast_binary_op_q(Q::AmpersandLong, Q::PercentInteger, Operator::Minus).is_some(), "numeric operands are accepted for every operator");
    let out = vm_binary(Operator::Multiply, Variant::VLong(a), Variant::VInteger(b));
    check(Q::AmpersandLong, Q::PercentInteger, Operator::Multiply, out, false);
    assert!(cast_binary_op_q(Q::AmpersandLong, Q::PercentInteger, Operator::Multiply).is_some(), "numeric operands are accepted for every operator");
    let out = vm_binary(Operator::Divide, Variant::VLong(a), Variant::VInteger(b));
    check(Q::AmpersandLong, Q::PercentInteger, Operator::Divide, out, KF_F5);
    assert!(cast_binary_op_q(Q::AmpersandLong, Q::PercentInteger, Operator::Divide).is_some(), "numeric operands are accepted for every operator");
    reach!(matches!(out, Out::Tag(_)));
    let out = vm_binary(Operator::Modulo, Variant::VLong(a), Variant::VInteger(b));
    check(Q::AmpersandLong, Q::PercentInteger, Operator::Modulo, out, false);
    assert!(cast_binary_op_q(Q::AmpersandLong, Q::PercentInteger, Operator::Modulo).is_some(), "numeric operands are accepted for every operator");
    reach!(out == Out::OtherError);
});

//# harness logical_long_integer tier=quick tier.C06=thorough label=complete props=C12,C06 fn=rusty_linter/src/core/casting.rs::cast_binary_op_q timeout=1200
harness!(logical_long_integer, 18, {
    let a = vs::i64();
    vs::assume(a >= -2147483648 && a <= 2147483647);
    let b = vs::i32();
    vs::assume(b >= -32768 && b <= 32767);
    let out = vm_binary(Operator::And, Variant::VLong(a), Variant::VInteger(b));
    check(Q::AmpersandLong, Q::PercentInteger, Operator::And, out, false);
    assert!(cast_binary_op_q(Q::AmpersandLong, Q::PercentInteger, Operator::And).is_some(), "numeric operands are accepted for every operator");
    reach!(matches!(out, Out::Tag(_)));
    let out = vm_binary(Operator::Or, Variant::VLong(a), Variant::VInteger(b));
    check(Q::AmpersandLong, Q::PercentInteger, Operator::Or, out, false);
    assert!(cast_binary_op_q(Q::AmpersandLong, Q::PercentInteger, Operator::Or).is_some(), "numeric operands are accepted for every operator");
    reach!(matches!(out, Out::Tag(_)));
});

//# harness finding_f5_divide_long_integer tier=quick label=complete props=C06,C12 fn=rusty_linter/src/core/casting.rs::cast_binary_op_q expect=finding:F5
harness!(finding_f5_divide_long_integer, 1, {
    let a = vs::i64();
    vs::assume(a >= -2147483648 && a <= 2147483647);
    let b = vs::i32();
    vs::assume(b >= -32768 && b <= 32767);
    let out = vm_binary(Operator::Divide, Variant::VLong(a), Variant::VInteger(b));
    check(Q::AmpersandLong, Q::PercentInteger, Operator::Divide, out, false);
});

//# harness binary_long_long tier=quick tier.C06=thorough label=complete props=C12,C06 fn=rusty_linter/src/core/casting.rs::cast_binary_op_q timeout=1200
harness!(binary_long_long, 1, {
    let a = vs::i64();
    vs::assume(a >= -2147483648 && a <= 2147483647);
    let b = vs::i64();
    vs::assume(b >= -2147483648 && b <= 2147483647);
    let out = vm_binary(Operator::Less, Variant::VLong(a), Variant::VLong(b));
    check(Q::AmpersandLong, Q::AmpersandLong, Operator::Less, out, false);
    assert!(cast_binary_op_q(Q::AmpersandLong, Q::AmpersandLong, Operator::Less).is_some(), "numeric operands are accepted for every operator");
    reach!(matches!(out, Out::Tag(_)));
    let out = vm_binary(Operator::LessOrEqual, Variant::VLong(a), Variant::VLong(b));
    check(Q::AmpersandLong, Q::AmpersandLong, Operator::LessOrEqual, out, false);
    assert!(cast_binary_op_q(Q::AmpersandLong, Q::AmpersandLong, Operator::LessOrEqual).is_some(), "numeric operands are accepted for every operator");
    let out = vm_binary(Operator::Equal, Variant::VLong(a), Variant::VLong(b));
    check(Q::AmpersandLong, Q::AmpersandLong, Operator::Equal, out, false);
    assert!(cast_binary_op_q(Q::AmpersandLong, Q::AmpersandLong, Operator::Equal).is_some(), "numeric operands are accepted for every operator");
    let out = vm_binary(Operator::GreaterOrEqual, Variant::VLong(a), Variant::VLong(b));
    check(Q::AmpersandLong, Q::AmpersandLong, Operator::GreaterOrEqual, out, false);
    assert!(cast_binary_op_q(Q::AmpersandLong, Q::AmpersandLong, Operator::GreaterOrEqual).is_some(), "numeric operands are accepted for every operator");
    let out = vm_binary(Operator::Greater, Variant::VLong(a), Variant::VLong(b));
    check(Q::AmpersandLong, Q::AmpersandLong, Operator::Greater, out, false);
    assert!(cast_binary_op_q(Q::AmpersandLong, Q::AmpersandLong, Operator::Greater).is_some(), "numeric operands are accepted for every operator");
    let out = vm_binary(Operator::NotEqual, Variant::VLong(a), Variant::VLong(b));
    check(Q::AmpersandLong, Q::AmpersandLong, Operator::NotEqual, out, false);
    assert!(cast_binary_op_q(Q::AmpersandLong, Q::AmpersandLong, Operator::NotEqual).is_some(), "numeric operands are accepted for every operator");
    let out = vm_binary(Operator::Plus, Variant::VLong(a), Variant::VLong(b));
    check(Q::AmpersandLong, Q::AmpersandLong, Operator::Plus, out, false);
    assert!(cast_binary_op_q(Q::AmpersandLong, Q::AmpersandLong, Operator::Plus).is_some(), "numeric operands are accepted for every operator");
    let out = vm_binary(Operator::Minus, Variant::VLong(a), Variant::VLong(b));
    check(Q::AmpersandLong, Q::AmpersandLong, Operator::Minus, out, false);
    assert!(cast_binary_op_q(Q::AmpersandLong, Q::AmpersandLong, Operator::Minus).is_some(), "numeric operands are accepted for every operator");
    let out = vm_binary(Operator::Multiply, Variant::VLong(a), Variant::VLong(b));
    check(Q::AmpersandLong, Q::AmpersandLong, Operator::Multiply, out, false);
    assert!(cast_binary_op_q(Q::AmpersandLong, Q::AmpersandLong, Operator::Multiply).is_some(), "numeric operands are accepted for every operator");
    let out = vm_binary(Operator::Divide, Variant::VLong(a), Variant::VLong(b));
    check(Q::AmpersandLong, Q::AmpersandLong, Operator::Divide, out, KF_F5);
    assert!(cast_binary_op_q(Q::AmpersandLong, Q::AmpersandLong, Operator::Divide).is_some(), "numeric operands are accepted for every operator");
    reach!(matches!(out, Out::Tag(_)));
    let out = vm_binary(Operator::Modulo, Variant::VLong(a), Variant::VLong(b));
    check(Q::AmpersandLong, Q::AmpersandLong, Operator::Modulo, out, false);
    assert!(cast_binary_op_q(Q::AmpersandLong, Q::AmpersandLong, Operator::Modulo).is_some(), "numeric operands are accepted for every operator");
    reach!(out == Out::OtherError);
});

//# harness logical_long_long tier=quick tier.C06=thorough label=complete props=C12,C06 fn=rusty_linter/src/core/casting.rs::cast_binary_op_q timeout=1200
harness!(logical_long_long, 18, {
    let a = vs::i64();
    vs::assume(a >= -2147483648 && a <= 2147483647);
    let b = vs::i64();
    vs::assume(b >= -2147483648 && b <= 2147483647);
    let out = vm_binary(Operator::And, Variant::VLong(a), Variant::VLong(b));
    check(Q::AmpersandLong, Q::AmpersandLong, Operator::And, out, false);
    assert!(cast_binary_op_q(Q::AmpersandLong, Q::AmpersandLong, Operator::And).is_some(), "numeric operands are accepted for every operator");
    reach!(matches!(out, Out::Tag(_)));
    let out = vm_binary(Operator::Or, Variant::VLong(a), Variant::VLong(b));
    check(Q::AmpersandLong, Q::AmpersandLong, Operator::Or, out, false);
    assert!(cast_binary_op_q(Q::AmpersandLong, Q::AmpersandLong, Operator::Or).is_some(), "numeric operands are accepted for every operator");
    reach!(matches!(out, Out::Tag(_)));
});

//# harness finding_f5_divide_long_long tier=quick label=complete props=C06,C12 fn=rusty_linter/src/core/casting.rs::cast_binary_op_q expect=finding:F5
harness!(finding_f5_divide_long_long, 1, {
    let a = vs::i64();
    vs::assume(a >= -2147483648 && a <= 2147483647);
    let b = vs::i64();
    vs::assume(b >= -2147483648 && b <= 2147483647);
    let out = vm_binary(Operator::Divide, Variant::VLong(a), Variant::VLong(b));
    check(Q::AmpersandLong, Q::AmpersandLong, Operator::Divide, out, false);
});

//# harness binary_long_single tier=quick tier.C06=thorough label=complete props=C12,C06 fn=rusty_linter/src/core/casting.rs::cast_binary_op_q timeout=1200
harness!(binary_long_single, 1, {
    let a = vs::i64();
    vs::assume(a >= -2147483648 && a <= 2147483647);
    let b = vs::f32();
    vs::assume(b.is_finite());
    let out = vm_binary(Operator::Less, Variant::VLong(a), Variant::VSingle(b));
    check(Q::AmpersandLong, Q::BangSingle, Operator::Less, out, false);
    assert!(cast_binary_op_q(Q::AmpersandLong, Q::BangSingle, Operator::Less).is_some(), "numeric operands are accepted for every operator");
    reach!(matches!(out, Out::Tag(_)));
    let out = vm_binary(Operator::LessOrEqual, Variant::VLong(a), Variant::VSingle(b));
    check(Q::AmpersandLong, Q::BangSingle, Operator::LessOrEqual, out, false);
    assert!(cast_binary_op_q(Q::AmpersandLong, Q::BangSingle, Operator::LessOrEqual).is_some(), "numeric operands are accepted for every operator");
    let out = vm_binary(Operator::Equal, Variant::VLong(a), Variant::VSingle(b));
    check(Q::AmpersandLong, Q::BangSingle, Operator::Equal, out, false);
    assert!(cast_binary_op_q(Q::AmpersandLong, Q::BangSingle, Operator::Equal).is_some(), "numeric operands are accepted for every operator");
    let out = vm_binary(Operator::GreaterOrEqual, Variant::VLong(a), Variant::VSingle(b));
    check(Q::AmpersandLong, Q::BangSingle, Operator::GreaterOrEqual, out, false);
    assert!(cast_binary_op_q(Q::AmpersandLong, Q::BangSingle, Operator::GreaterOrEqual).is_some(), "numeric operands are accepted for every operator");
    let out = vm_binary(Operator::Greater, Variant::VLong(a), Variant::VSingle(b));
    check(Q::AmpersandLong, Q::BangSingle, Operator::Greater, out, false);
    assert!(cast_binary_op_q(Q::AmpersandLong, Q::BangSingle, Operator::Greater).is_some(), "numeric operands are accepted for every operator");
    let out = vm_binary(Operator::NotEqual, Variant::VLong(a), Variant::VSingle(b));
    check(Q::AmpersandLong, Q::BangSingle, Operator::NotEqual, out, false);
    assert!(cast_binary_op_q(Q::AmpersandLong, Q::BangSingle, Operator::NotEqual).is_some(), "numeric operands are accepted for every operator");
    let out = vm_binary(Operator::Plus, Variant::VLong(a), Variant::VSingle(b));
    check(Q::AmpersandLong, Q::BangSingle, Operator::Plus, out, false);
    assert!(cast_binary_op_q(Q::AmpersandLong, Q::BangSingle, Operator::Plus).is_some(), "numeric operands are accepted for every operator");
    let out = vm_binary(Operator::Minus, Variant::VLong(a), Variant::VSingle(b));
    check(Q::AmpersandLong, Q::BangSingle, Operator::Minus, out, false);
    assert!(cast_binary_op_q(Q::AmpersandLong, Q::BangSingle, Operator::Minus).is_some(), "numeric operands are accepted for every operator");
    let out = vm_binary(Operator::Multiply, Variant::VLong(a), Variant::VSingle(b));
    check(Q::AmpersandLong, Q::BangSingle, Operator::Multiply, out, false);
    assert!(cast_binary_op_q(Q::AmpersandLong, Q::BangSingle, Operator::Multiply).is_some(), "numeric operands are accepted for every operator");
    let out = vm_binary(Operator::Divide, Variant::VLong(a), Variant::VSingle(b));
    check(Q::AmpersandLong, Q::BangSingle, Operator::Divide, out, KF_F5);
    assert!(cast_binary_op_q(Q::AmpersandLong, Q::BangSingle, Operator::Divide).is_some(), "numeric operands are accepted for every operator");
    reach!(matches!(out, Out::Tag(_)));
    if KF_F18 {
        vs::assume((b as f64).abs() < 2147483647.5);
    }
    let out = vm_binary(Operator::Modulo, Variant::VLong(a), Variant::VSingle(b));
    check(Q::AmpersandLong, Q::BangSingle, Operator::Modulo, out, false);
    assert!(cast_binary_op_q(Q::AmpersandLong, Q::BangSingle, Operator::Modulo).is_some(), "numeric operands are accepted for every operator");
    reach!(out == Out::OtherError);
});

//# harness logical_long_single tier=quick tier.C06=thorough label=complete props=C12,C06 fn=rusty_linter/src/core/casting.rs::cast_binary_op_q timeout=1200
harness!(logical_long_single, 18, {
    let a = vs::i64();
    vs::assume(a >= -2147483648 && a <= 2147483647);
    let b = vs::f32();
    vs::assume(b.is_finite());
    let out = vm_binary(Operator::And, Variant::VLong(a), Variant::VSingle(b));
    check(Q::AmpersandLong, Q::BangSingle, Operator::And, out, false);
    assert!(cast_binary_op_q(Q::AmpersandLong, Q::BangSingle, Operator::And).is_some(), "numeric operands are accepted for every operator");
    reach!(matches!(out, Out::Tag(_)));
    let out = vm_binary(Operator::Or, Variant::VLong(a), Variant::VSingle(b));
    check(Q::AmpersandLong, Q::BangSingle, Operator::Or, out, false);
    assert!(cast_binary_op_q(Q::AmpersandLong, Q::BangSingle, Operator::Or).is_some(), "numeric operands are accepted for every operator");
    reach!(matches!(out, Out::Tag(_)));
});

//# harness finding_f5_divide_long_single tier=quick label=complete props=C06,C12 fn=rusty_linter/src/core/casting.rs::cast_binary_op_q expect=finding:F5
harness!(finding_f5_divide_long_single, 1, {
    let a = vs::i64();
    vs::assume(a >= -2147483648 && a <= 2147483647);
    let b = vs::f32();
    vs::assume(b.is_finite());
    let out = vm_binary(Operator::Divide, Variant::VLong(a), Variant::VSingle(b));
    check(Q::AmpersandLong, Q::BangSingle, Operator::Divide, out, false);
});

//# harness binary_long_double tier=quick tier.C06=thorough label=complete props=C12,C06 fn=rusty_linter/src/core/casting.rs::cast_binary_op_q timeout=1200
harness!(binary_long_double, 1, {
    let a = vs::i64();
    vs::assume(a >= -2147483648 && a <= 2147483647);
    let b = vs::f64();
    vs::assume(b.is_finite());
    let out = vm_binary(Operator::Less, Variant::VLong(a), Variant::VDouble(b));
    check(Q::AmpersandLong, Q::HashDouble, Operator::Less, out, false);
    assert!(cast_binary_op_q(Q::AmpersandLong, Q::HashDouble, Operator::Less).is_some(), "numeric operands are accepted for every operator");
    reach!(matches!(out, Out::Tag(_)));
    let out = vm_binary(Operator::LessOrEqual, Variant::VLong(a), Variant::VDouble(b));
    check(Q::AmpersandLong, Q::HashDouble, Operator::LessOrEqual, out, false);
    assert!(cast_binary_op_q(Q::AmpersandLong, Q::HashDouble, Operator::LessOrEqual).is_some(), "numeric operands are accepted for every operator");
    let out = vm_binary(Operator::Equal, Variant::VLong(a), Variant::VDouble(b));
    check(Q::AmpersandLong, Q::HashDouble, Operator::Equal, out, false);
    assert!(cast_binary_op_q(Q::AmpersandLong, Q::HashDouble, Operator::Equal).is_some(), "numeric operands are accepted for every operator");
    let out = vm_binary(Operator::GreaterOrEqual, Variant::VLong(a), Variant::VDouble(b));
    check(Q::AmpersandLong, Q::HashDouble, Operator::GreaterOrEqual, out, false);
    assert!(cast_binary_op_q(Q::AmpersandLong, Q::HashDouble, Operator::GreaterOrEqual).is_some(), "numeric operands are accepted for every operator");
    let out = vm_binary(Operator::Greater, Variant::VLong(a), Variant::VDouble(b));
    check(Q::AmpersandLong, Q::HashDouble, Operator::Greater, out, false);
    assert!(cast_binary_op_q(Q::AmpersandLong, Q::HashDouble, Operator::Greater).is_some(), "numeric operands are accepted for every operator");
    let out = vm_binary(Operator::NotEqual, Variant::VLong(a), Variant::VDouble(b));
    check(Q::AmpersandLong, Q::HashDouble, Operator::NotEqual, out, false);
    assert!(cast_binary_op_q(Q::AmpersandLong, Q::HashDouble, Operator::NotEqual).is_some(), "numeric operands are accepted for every operator");
    let out = vm_binary(Operator::Plus, Variant::VLong(a), Variant::VDouble(b));
    check(Q::AmpersandLong, Q::HashDouble, Operator::Plus, out, false);
    assert!(cast_binary_op_q(Q::AmpersandLong, Q::HashDouble, Operator::Plus).is_some(), "numeric operands are accepted for every operator");
    let out = vm_binary(Operator::Minus, Variant::VLong(a), Variant::VDouble(b));
    check(Q::AmpersandLong, Q::HashDouble, Operator::Minus, out, false);
    assert!(cast_binary_op_q(Q::AmpersandLong, Q::HashDouble, Operator::Minus).is_some(), "numeric operands are accepted for every operator");
    let out = vm_binary(Operator::Multiply, Variant::VLong(a), Variant::VDouble(b));
    check(Q::AmpersandLong, Q::HashDouble, Operator::Multiply, out, false);
    assert!(cast_binary_op_q(Q::AmpersandLong, Q::HashDouble, Operator::Multiply).is_some(), "numeric operands are accepted for every operator");
    let out = vm_binary(Operator::Divide, Variant::VLong(a), Variant::VDouble(b));
    check(Q::AmpersandLong, Q::HashDouble, Operator::Divide, out, KF_F5);
    assert!(cast_binary_op_q(Q::AmpersandLong, Q::HashDouble, Operator::Divide).is_some(), "numeric operands are accepted for every operator");
    reach!(matches!(out, Out::Tag(_)));
    if KF_F18 {
        vs::assume((b as f64).abs() < 2147483647.5);
    }
    let out = vm_binary(Operator::Modulo, Variant::VLong(a), Variant::VDouble(b));
    check(Q::AmpersandLong, Q::HashDouble, Operator::Modulo, out, false);
    assert!(cast_binary_op_q(Q::AmpersandLong, Q::HashDouble, Operator::Modulo).is_some(), "numeric operands are accepted for every operator");
    reach!(out == Out::OtherError);
});

//# harness logical_long_double tier=quick tier.C06=thorough label=complete props=C12,C06 fn=rusty_linter/src/core/casting.rs::cast_binary_op_q timeout=1200
harness!(logical_long_double, 18, {
    let a = vs::i64();
    vs::assume(a >= -2147483648 && a <= 2147483647);
    let b = vs::f64();
    vs::assume(b.is_finite());
    let out = vm_binary(Operator::And, Variant::VLong(a), Variant::VDouble(b));
    check(Q::AmpersandLong, Q::HashDouble, Operator::And, out, false);
    assert!(cast_binary_op_q(Q::AmpersandLong, Q::HashDouble, Operator::And).is_some(), "numeric operands are accepted for every operator");
    reach!(matches!(out, Out::Tag(_)));
    let out = vm_binary(Operator::Or, Variant::VLong(a), Variant::VDouble(b));
    check(Q::AmpersandLong, Q::HashDouble, Operator::Or, out, false);
    assert!(cast_binary_op_q(Q::AmpersandLong, Q::HashDouble, Operator::Or).is_some(), "numeric operands are accepted for every operator");
    reach!(matches!(out, Out::Tag(_)));
});

//# harness finding_f5_divide_long_double tier=quick label=complete props=C06,C12 fn=rusty_linter/src/core/casting.rs::cast_binary_op_q expect=finding:F5
harness!(finding_f5_divide_long_double, 1, {
    let a = vs::i64();
    vs::assume(a >= -2147483648 && a <= 2147483647);
    let b = vs::f64();
    vs::assume(b.is_finite());
    let out = vm_binary(Operator::Divide, Variant::VLong(a), Variant::VDouble(b));
    check(Q::AmpersandLong, Q::HashDouble, Operator::Divide, out, false);
});

//# harness binary_single_integer tier=quick tier.C06=thorough label=complete props=C12,C06 fn=rusty_linter/src/core/casting.rs::cast_binary_op_q timeout=1200
harness!(binary_single_integer, 1, {
    let a = vs::f32();
    vs::assume(a.is_finite());
    let b = vs::i32();
    vs::assume(b >= -32768 && b <= 32767);
    let out = vm_binary(Operator::Less, Variant::VSingle(a), Variant::VInteger(b));
    check(Q::BangSingle, Q::PercentInteger, Operator::Less, out, false);
    assert!(cast_binary_op_q(Q::BangSingle, Q::PercentInteger, Operator::Less).is_some(), "numeric operands are accepted for every operator");
    reach!(matches!(out, Out::Tag(_)));
    let out = vm_binary(Operator::LessOrEqual, Variant::VSingle(a), Variant::VInteger(b));
    check(Q::BangSingle, Q::PercentInteger, Operator::LessOrEqual, out, false);
    assert!(cast_binary_op_q(Q::BangSingle, Q::PercentInteger, Operator::LessOrEqual).is_some(), "numeric operands are accepted for every operator");
    let out = vm_binary(Operator::Equal, Variant::VSingle(a), Variant::VInteger(b));
    check(Q::BangSingle, Q::PercentInteger, Operator::Equal, out, false);
    assert!(cast_binary_op_q(Q::BangSingle, Q::PercentInteger, Operator::Equal).is_some(), "numeric operands are accepted for every operator");
    let out = vm_binary(Operator::GreaterOrEqual, Variant::VSingle(a), Variant::VInteger(b));
    check(Q::BangSingle, Q::PercentInteger, Operator::GreaterOrEqual, out, false);
    assert!(cast_binary_op_q(Q::BangSingle, Q::PercentInteger, Operator::GreaterOrEqual).is_some(), "numeric operands are accepted for every operator");
    let out = vm_binary(Operator::Greater, Variant::VSingle(a), Variant::VInteger(b));
    check(Q::BangSingle, Q::PercentInteger, Operator::Greater, out, false);
    assert!(cast_binary_op_q(Q::BangSingle, Q::PercentInteger, Operator::Greater).is_some(), "numeric operands are accepted for every operator");
    let out = vm_binary(Operator::NotEqual, Variant::VSingle(a), Variant::VInteger(b));
    check(Q::BangSingle, Q::PercentInteger, Operator::NotEqual, out, false);
    assert!(cast_binary_op_q(Q::BangSingle, Q::PercentInteger, Operator::NotEqual).is_some(), "numeric operands are accepted for every operator");
    let out = vm_binary(Operator::Plus, Variant::VSingle(a), Variant::VInteger(b));
    check(Q::BangSingle, Q::PercentInteger, Operator::Plus, out, false);
    assert!(cast_binary_op_q(Q::BangSingle, Q::PercentInteger, Operator::Plus).is_some(), "numeric operands are accepted for every operator");
    let out = vm_binary(Operator::Minus, Variant::VSingle(a), Variant::VInteger(b));
    check(Q::BangSingle, Q::PercentInteger, Operator::Minus, out, false);
    assert!(cast_binary_op_q(Q::BangSingle, Q::PercentInteger, Operator::Minus).is_some(), "numeric operands are accepted for every operator");
    let out = vm_binary(Operator::Multiply, Variant::VSingle(a), Variant::VInteger(b));
    check(Q::BangSingle, Q::PercentInteger, Operator::Multiply, out, false);
    assert!(cast_binary_op_q(Q::BangSingle, Q::PercentInteger, Operator::Multiply).is_some(), "numeric operands are accepted for every operator");
    let out = vm_binary(Operator::Divide, Variant::VSingle(a), Variant::VInteger(b));
    check(Q::BangSingle, Q::PercentInteger, Operator::Divide, out, KF_F5);
    assert!(cast_binary_op_q(Q::BangSingle, Q::PercentInteger, Operator::Divide).is_some(), "numeric operands are accepted for every operator");
    reach!(matches!(out, Out::Tag(_)));
    if KF_F18 {
        vs::assume((a as f64).abs() < 2147483647.5);
    }
    let out = vm_binary(Operator::Modulo, Variant::VSingle(a), Variant::VInteger(b));
    check(Q::BangSingle, Q::PercentInteger, Operator::Modulo, out, false);
    assert!(cast_binary_op_q(Q::BangSingle, Q::PercentInteger, Operator::Modulo).is_some(), "numeric operands are accepted for every operator");
    reach!(out == Out::OtherError);
});

//# harness logical_single_integer tier=quick tier.C06=thorough label=complete props=C12,C06 fn=rusty_linter/src/core/casting.rs::cast_binary_op_q timeout=1200
harness!(logical_single_integer, 18, {
    let a = vs::f32();
    vs::assume(a.is_finite());
    let b = vs::i32();
    vs::assume(b >= -32768 && b <= 32767);
    let out = vm_binary(Operator::And, Variant::VSingle(a), Variant::VInteger(b));
    check(Q::BangSingle, Q::PercentInteger, Operator::And, out, false);
    assert!(cast_binary_op_q(Q::BangSingle, Q::PercentInteger, Operator::And).is_some(), "numeric operands are accepted for every operator");
    reach!(matches!(out, Out::Tag(_)));
    let out = vm_binary(Operator::Or, Variant::VSingle(a), Variant::VInteger(b));
    check(Q::BangSingle, Q::PercentInteger, Operator::Or, out, false);
    assert!(cast_binary_op_q(Q::BangSingle, Q::PercentInteger, Operator::Or).is_some(), "numeric operands are accepted for every operator");
    reach!(matches!(out, Out::Tag(_)));
});

//# harness finding_f5_divide_single_integer tier=quick label=complete props=C06,C12 fn=rusty_linter/src/core/casting.rs::cast_binary_op_q expect=finding:F5
harness!(finding_f5_divide_single_integer, 1, {
    let a = vs::f32();
    vs::assume(a.is_finite());
    let b = vs::i32();
    vs::assume(b >= -32768 && b <= 32767);
    let out = vm_binary(Operator::Divide, Variant::VSingle(a), Variant::VInteger(b));
    check(Q::BangSingle, Q::PercentInteger, Operator::Divide, out, false);
});

//# harness binary_single_long tier=quick tier.C06=thorough label=complete props=C12,C06 fn=rusty_linter/src/core/casting.rs::cast_binary_op_q timeout=1200
harness!(binary_single_long, 1, {
    let a = vs::f32();
    vs::assume(a.is_finite());
    let b = vs::i64();
    vs::assume(b >= -2147483648 && b <= 2147483647);
    let out = vm_binary(Operator::Less, Variant::VSingle(a), Variant::VLong(b));
    check(Q::BangSingle, Q::AmpersandLong, Operator::Less, out, false);
    assert!(cast_binary_op_q(Q::BangSingle, Q::AmpersandLong, Operator::Less).is_some(), "numeric operands are accepted for every operator");
    reach!(matches!(out, Out::Tag(_)));
    let out = vm_binary(Operator::LessOrEqual, Variant::VSingle(a), Variant::VLong(b));
    check(Q::BangSingle, Q::AmpersandLong, Operator::LessOrEqual, out, false);
    assert!(cast_binary_op_q(Q::BangSingle, Q::AmpersandLong, Operator::LessOrEqual).is_some(), "numeric operands are accepted for every operator");
    let out = vm_binary(Operator::Equal, Variant::VSingle(a), Variant::VLong(b));
    check(Q::BangSingle, Q::AmpersandLong, Operator::Equal, out, false);
    assert!(cast_binary_op_q(Q::BangSingle, Q::AmpersandLong, Operator::Equal).is_some(), "numeric operands are accepted for every operator");
    let out = vm_binary(Operator::GreaterOrEqual, Variant::VSingle(a), Variant::VLong(b));
    check(Q::BangSingle, Q::AmpersandLong, Operator::GreaterOrEqual, out, false);
    assert!(cast_binary_op_q(Q::BangSingle, Q::AmpersandLong, Operator::GreaterOrEqual).is_some(), "numeric operands are accepted for every operator");
    let out = vm_binary(Operator::Greater, Variant::VSingle(a), Variant::VLong(b));
    check(Q::BangSingle, Q::AmpersandLong, Operator::Greater, out, false);
    assert!(cast_binary_op_q(Q::BangSingle, Q::AmpersandLong, Operator::Greater).is_some(), "numeric operands are accepted for every operator");
    let out = vm_binary(Operator::NotEqual, Variant::VSingle(a), Variant::VLong(b));
    check(Q::BangSingle, Q::AmpersandLong, Operator::NotEqual, out, false);
    assert!(cast_binary_op_q(Q::BangSingle, Q::AmpersandLong, Operator::NotEqual).is_some(), "numeric operands are accepted for every operator");
    let out = vm_binary(Operator::Plus, Variant::VSingle(a), Variant::VLong(b));
    check(Q::BangSingle, Q::AmpersandLong, Operator::Plus, out, false);
    assert!(cast_binary_op_q(Q::BangSingle, Q::AmpersandLong, Operator::Plus).is_some(), "numeric operands are accepted for every operator");
    let out = vm_binary(Operator::Minus, Variant::VSingle(a), Variant::VLong(b));
    check(Q::BangSingle, Q::AmpersandLong, Operator::Minus, out, false);
    assert!(cast_binary_op_q(Q::BangSingle, Q::AmpersandLong, Operator::Minus).is_some(), "numeric operands are accepted for every operator");
    let out = vm_binary(Operator::Multiply, Variant::VSingle(a), Variant::VLong(b));
    check(Q::BangSingle, Q::AmpersandLong, Operator::Multiply, out, false);
    assert!(cast_binary_op_q(Q::BangSingle, Q::AmpersandLong, Operator::Multiply).is_some(), "numeric operands are accepted for every operator");
    let out = vm_binary(Operator::Divide, Variant::VSingle(a), Variant::VLong(b));
    check(Q::BangSingle, Q::AmpersandLong, Operator::Divide, out, KF_F5);
    assert!(cast_binary_op_q(Q::BangSingle, Q::AmpersandLong, Operator::Divide).is_some(), "numeric operands are accepted for every operator");
    reach!(matches!(out, Out::Tag(_)));
    if KF_F18 {
        vs::assume((a as f64).abs() < 2147483647.5);
    }
    let out = vm_binary(Operator::Modulo, Variant::VSingle(a), Variant::VLong(b));
    check(Q::BangSingle, Q::AmpersandLong, Operator::Modulo, out, false);
    assert!(cast_binary_op_q(Q::BangSingle, Q::AmpersandLong, Operator::Modulo).is_some(), "numeric operands are accepted for every operator");
    reach!(out == Out::OtherError);
});

//# harness logical_single_long tier=quick tier.C06=thorough label=complete props=C12,C06 fn=rusty_linter/src/core/casting.rs::cast_binary_op_q timeout=1200
harness!(logical_single_long, 18, {
    let a = vs::f32();
    vs::assume(a.is_finite());
    let b = vs::i64();
    vs::assume(b >= -2147483648 && b <= 2147483647);
    let out = vm_binary(Operator::And, Variant::VSingle(a), Variant::VLong(b));
    check(Q::BangSingle, Q::AmpersandLong, Operator::And, out, false);
    assert!(cast_binary_op_q(Q::BangSingle, Q::AmpersandLong, Operator::And).is_some(), "numeric operands are accepted for every operator");
    reach!(matches!(out, Out::Tag(_)));
    let out = vm_binary(Operator::Or, Variant::VSingle(a), Variant::VLong(b));
    check(Q::BangSingle, Q::AmpersandLong, Operator::Or, out, false);
    assert!(cast_binary_op_q(Q::BangSingle, Q::AmpersandLong, Operator::Or).is_some(), "numeric operands are accepted for every operator");
    reach!(matches!(out, Out::Tag(_)));
});

//# harness finding_f5_divide_single_long tier=quick label=complete props=C06,C12 fn=rusty_linter/src/core/casting.rs::cast_binary_op_q expect=finding:F5
harness!(finding_f5_divide_single_long, 1, {
    let a = vs::f32();
    vs::assume(a.is_finite());
    let b = vs::i64();
    vs::assume(b >= -2147483648 && b <= 2147483647);
    let out = vm_binary(Operator::Divide, Variant::VSingle(a), Variant::VLong(b));
    check(Q::BangSingle, Q::AmpersandLong, Operator::Divide, out, false);
});

//# harness binary_single_single tier=quick tier.C06=thorough label=complete props=C12,C06 fn=rusty_linter/src/core/casting.rs::cast_binary_op_q timeout=1200
harness!(binary_single_single, 1, {
    let a = vs::f32();
    vs::assume(a.is_finite());
    let b = vs::f32();
    vs::assume(b.is_finite());
    let out = vm_binary(Operator::Less, Variant::VSingle(a), Variant::VSingle(b));
    check(Q::BangSingle, Q::BangSingle, Operator::Less, out, false);
    assert!(cast_binary_op_q(Q::BangSingle, Q::BangSingle, Operator::Less).is_some(), "numeric operands are accepted for every operator");
    reach!(matches!(out, Out::Tag(_)));
    let out = vm_binary(Operator::LessOrEqual, Variant::VSingle(a), Variant::VSingle(b));
    check(Q::BangSingle, Q::BangSingle, Operator::LessOrEqual, out, false);
    assert!(cast_binary_op_q(Q::BangSingle, Q::BangSingle, Operator::LessOrEqual).is_some(), "numeric operands are accepted for every operator");
    let out = vm_binary(Operator::Equal, Variant::VSingle(a), Variant::VSingle(b));
    check(Q::BangSingle, Q::BangSingle, Operator::Equal, out, false);
    assert!(cast_binary_op_q(Q::BangSingle, Q::BangSingle, Operator::Equal).is_some(), "numeric operands are accepted for every operator");
    let out = vm_binary(Operator::GreaterOrEqual, Variant::VSingle(a), Variant::VSingle(b));
    check(Q::BangSingle, Q::BangSingle, Operator::GreaterOrEqual, out, false);
    assert!(cast_binary_op_q(Q::BangSingle, Q::BangSingle, Operator::GreaterOrEqual).is_some(), "numeric operands are accepted for every operator");
    let out = vm_binary(Operator::Greater, Variant::VSingle(a), Variant::VSingle(b));
    check(Q::BangSingle, Q::BangSingle, Operator::Greater, out, false);
    assert!(cast_binary_op_q(Q::BangSingle, Q::BangSingle, Operator::Greater).is_some(), "numeric operands are accepted for every operator");
    let out = vm_binary(Operator::NotEqual, Variant::VSingle(a), Variant::VSingle(b));
    check(Q::BangSingle, Q::BangSingle, Operator::NotEqual, out, false);
    assert!(cast_binary_op_q(Q::BangSingle, Q::BangSingle, Operator::NotEqual).is_some(), "numeric operands are accepted for every operator");
    let out = vm_binary(Operator::Plus, Variant::VSingle(a), Variant::VSingle(b));
    check(Q::BangSingle, Q::BangSingle, Operator::Plus, out, false);
    assert!(cast_binary_op_q(Q::BangSingle, Q::BangSingle, Operator::Plus).is_some(), "numeric operands are accepted for every operator");
    let out = vm_binary(Operator::Minus, Variant::VSingle(a), Variant::VSingle(b));
    check(Q::BangSingle, Q::BangSingle, Operator::Minus, out, false);
    assert!(cast_binary_op_q(Q::BangSingle, Q::BangSingle, Operator::Minus).is_some(), "numeric operands are accepted for every operator");
    let out = vm_binary(Operator::Multiply, Variant::VSingle(a), Variant::VSingle(b));
    check(Q::BangSingle, Q::BangSingle, Operator::Multiply, out, false);
    assert!(cast_binary_op_q(Q::BangSingle, Q::BangSingle, Operator::Multiply).is_some(), "numeric operands are accepted for every operator");
    if KF_F26 {
        vs::assume((a as f64).abs() <= 3.0e33);
    }
    let out = vm_binary(Operator::Divide, Variant::VSingle(a), Variant::VSingle(b));
    check(Q::BangSingle, Q::BangSingle, Operator::Divide, out, KF_F5);
    assert!(cast_binary_op_q(Q::BangSingle, Q::BangSingle, Operator::Divide).is_some(), "numeric operands are accepted for every operator");
    reach!(matches!(out, Out::Tag(_)));
    if KF_F18 {
        vs::assume((a as f64).abs() < 2147483647.5 && (b as f64).abs() < 2147483647.5);
    }
    let out = vm_binary(Operator::Modulo, Variant::VSingle(a), Variant::VSingle(b));
    check(Q::BangSingle, Q::BangSingle, Operator::Modulo, out, false);
    assert!(cast_binary_op_q(Q::BangSingle, Q::BangSingle, Operator::Modulo).is_some(), "numeric operands are accepted for every operator");
    reach!(out == Out::OtherError);
});

//# harness logical_single_single tier=quick tier.C06=thorough label=complete props=C12,C06 fn=rusty_linter/src/core/casting.rs::cast_binary_op_q timeout=1200
harness!(logical_single_single, 18, {
    let a = vs::f32();
    vs::assume(a.is_finite());
    let b = vs::f32();
    vs::assume(b.is_finite());
    let out = vm_binary(Operator::And, Variant::VSingle(a), Variant::VSingle(b));
    check(Q::BangSingle, Q::BangSingle, Operator::And, out, false);
    assert!(cast_binary_op_q(Q::BangSingle, Q::BangSingle, Operator::And).is_some(), "numeric operands are accepted for every operator");
    reach!(matches!(out, Out::Tag(_)));
    let out = vm_binary(Operator::Or, Variant::VSingle(a), Variant::VSingle(b));
    check(Q::BangSingle, Q::BangSingle, Operator::Or, out, false);
    assert!(cast_binary_op_q(Q::BangSingle, Q::BangSingle, Operator::Or).is_some(), "numeric operands are accepted for every operator");
    reach!(matches!(out, Out::Tag(_)));
});

//# harness finding_f5_divide_single_single tier=quick label=complete props=C06,C12 fn=rusty_linter/src/core/casting.rs::cast_binary_op_q expect=finding:F5
harness!(finding_f5_divide_single_single, 1, {
    let a = vs::f32();
    vs::assume(a.is_finite());
    let b = vs::f32();
    vs::assume(b.is_finite());
    let out = vm_binary(Operator::Divide, Variant::VSingle(a), Variant::VSingle(b));
    check(Q::BangSingle, Q::BangSingle, Operator::Divide, out, false);
});

//# harness binary_single_double tier=quick tier.C06=thorough label=complete props=C12,C06 fn=rusty_linter/src/core/casting.rs::cast_binary_op_q timeout=1200
harness!(binary_single_double, 1, {
    let a = vs::f32();
    vs::assume(a.is_finite());
    let b = vs::f64();
    vs::assume(b.is_finite());
    let out = vm_binary(Operator::Less, Variant::VSingle(a), Variant::VDouble(b));
    check(Q::BangSingle, Q::HashDouble, Operator::Less, out, false);
    assert!(cast_binary_op_q(Q::BangSingle, Q::HashDouble, Operator::Less).is_some(), "numeric operands are accepted for every operator");
    reach!(matches!(out, Out::Tag(_)));
    let out = vm_binary(Operator::LessOrEqual, Variant::VSingle(a), Variant::VDouble(b));
    check(Q::BangSingle, Q::HashDouble, Operator::LessOrEqual, out, false);
    assert!(cast_binary_op_q(Q::BangSingle, Q::HashDouble, Operator::LessOrEqual).is_some(), "numeric operands are accepted for every operator");
    let out = vm_binary(Operator::Equal, Variant::VSingle(a), Variant::VDouble(b));
    check(Q::BangSingle, Q::HashDouble, Operator::Equal, out, false);
    assert!(cast_binary_op_q(Q::BangSingle, Q::HashDouble, Operator::Equal).is_some(), "numeric operands are accepted for every operator");
    let out = vm_binary(Operator::GreaterOrEqual, Variant::VSingle(a), Variant::VDouble(b));
    check(Q::BangSingle, Q::HashDouble, Operator::GreaterOrEqual, out, false);
    assert!(cast_binary_op_q(Q::BangSingle, Q::HashDouble, Operator::GreaterOrEqual).is_some(), "numeric operands are accepted for every operator");
    let out = vm_binary(Operator::Greater, Variant::VSingle(a), Variant::VDouble(b));
    check(Q::BangSingle, Q::HashDouble, Operator::Greater, out, false);
    assert!(cast_binary_op_q(Q::BangSingle, Q::HashDouble, Operator::Greater).is_some(), "numeric operands are accepted for every operator");
    let out = vm_binary(Operator::NotEqual, Variant::VSingle(a), Variant::VDouble(b));
    check(Q::BangSingle, Q::HashDouble, Operator::NotEqual, out, false);
    assert!(cast_binary_op_q(Q::BangSingle, Q::HashDouble, Operator::NotEqual).is_some(), "numeric operands are accepted for every operator");
    let out = vm_binary(Operator::Plus, Variant::VSingle(a), Variant::VDouble(b));
    check(Q::BangSingle, Q::HashDouble, Operator::Plus, out, false);
    assert!(cast_binary_op_q(Q::BangSingle, Q::HashDouble, Operator::Plus).is_some(), "numeric operands are accepted for every operator");
    let out = vm_binary(Operator::Minus, Variant::VSingle(a), Variant::VDouble(b));
    check(Q::BangSingle, Q::HashDouble, Operator::Minus, out, false);
    assert!(cast_binary_op_q(Q::BangSingle, Q::HashDouble, Operator::Minus).is_some(), "numeric operands are accepted for every operator");
    let out = vm_binary(Operator::Multiply, Variant::VSingle(a), Variant::VDouble(b));
    check(Q::BangSingle, Q::HashDouble, Operator::Multiply, out, false);
    assert!(cast_binary_op_q(Q::BangSingle, Q::HashDouble, Operator::Multiply).is_some(), "numeric operands are accepted for every operator");
    if KF_F26 {
        vs::assume((a as f64).abs() <= 1.0e303);
    }
    let out = vm_binary(Operator::Divide, Variant::VSingle(a), Variant::VDouble(b));
    check(Q::BangSingle, Q::HashDouble, Operator::Divide, out, KF_F5);
    assert!(cast_binary_op_q(Q::BangSingle, Q::HashDouble, Operator::Divide).is_some(), "numeric operands are accepted for every operator");
    reach!(matches!(out, Out::Tag(_)));
    if KF_F18 {
        vs::assume((a as f64).abs() < 2147483647.5 && (b as f64).abs() < 2147483647.5);
    }
    let out = vm_binary(Operator::Modulo, Variant::VSingle(a), Variant::VDouble(b));
    check(Q::BangSingle, Q::HashDouble, Operator::Modulo, out, false);
    assert!(cast_binary_op_q(Q::BangSingle, Q::HashDouble, Operator::Modulo).is_some(), "numeric operands are accepted for every operator");
    reach!(out == Out::OtherError);
});

//# harness logical_single_double tier=quick tier.C06=thorough label=complete props=C12,C06 fn=rusty_linter/src/core/casting.rs::cast_binary_op_q timeout=1200
harness!(logical_single_double, 18, {
    let a = vs::f32();
    vs::assume(a.is_finite());
    let b = vs::f64();
    vs::assume(b.is_finite());
    let out = vm_binary(Operator::And, Variant::VSingle(a), Variant::VDouble(b));
    check(Q::BangSingle, Q::HashDouble, Operator::And, out, false);
    assert!(cast_binary_op_q(Q::BangSingle, Q::HashDouble, Operator::And).is_some(), "numeric operands are accepted for every operator");
    reach!(matches!(out, Out::Tag(_)));
    let out = vm_binary(Operator::Or, Variant::VSingle(a), Variant::VDouble(b));
    check(Q::BangSingle, Q::HashDouble, Operator::Or, out, false);
    assert!(cast_binary_op_q(Q::BangSingle, Q::HashDouble, Operator::Or).is_some(), "numeric operands are accepted for every operator");
    reach!(matches!(out, Out::Tag(_)));
});

//# harness finding_f5_divide_single_double tier=quick label=complete props=C06,C12 fn=rusty_linter/src/core/casting.rs::cast_binary_op_q expect=finding:F5
harness!(finding_f5_divide_single_double, 1, {
    let a = vs::f32();
    vs::assume(a.is_finite());
    let b = vs::f64();
    vs::assume(b.is_finite());
    let out = vm_binary(Operator::Divide, Variant::VSingle(a), Variant::VDouble(b));
    check(Q::BangSingle, Q::HashDouble, Operator::Divide, out, false);
});

//# harness binary_double_integer tier=quick tier.C06=thorough label=complete props=C12,C06 fn=rusty_linter/src/core/casting.rs::cast_binary_op_q timeout=1200
harness!(binary_double_integer, 1, {
    let a = vs::f64();
    vs::assume(a.is_finite());
    let b = vs::i32();
    vs::assume(b >= -32768 && b <= 32767);
    let out = vm_binary(Operator::Less, Variant::VDouble(a), Variant::VInteger(b));
    check(Q::HashDouble, Q::PercentInteger, Operator::Less, out, false);
    assert!(cast_binary_op_q(Q::HashDouble, Q::PercentInteger, Operator::Less).is_some(), "numeric operands are accepted for every operator");
    reach!(matches!(out, Out::Tag(_)));
    let out = vm_binary(Operator::LessOrEqual, Variant::VDouble(a), Variant::VInteger(b));
    check(Q::HashDouble, Q::PercentInteger, Operator::LessOrEqual, out, false);
    assert!(cast_binary_op_q(Q::HashDouble, Q::PercentInteger, Operator::LessOrEqual).is_some(), "numeric operands are accepted for every operator");
    let out = vm_binary(Operator::Equal, Variant::VDouble(a), Variant::VInteger(b));
    check(Q::HashDouble, Q::PercentInteger, Operator::Equal, out, false);
    assert!(cast_binary_op_q(Q::HashDouble, Q::PercentInteger, Operator::Equal).is_some(), "numeric operands are accepted for every operator");
    let out = vm_binary(Operator::GreaterOrEqual, Variant::VDouble(a), Variant::VInteger(b));
    check(Q::HashDouble, Q::PercentInteger, Operator::GreaterOrEqual, out, false);
    assert!(cast_binary_op_q(Q::HashDouble, Q::PercentInteger, Operator::GreaterOrEqual).is_some(), "numeric operands are accepted for every operator");
    let out = vm_binary(Operator::Greater, Variant::VDouble(a), Variant::VInteger(b));
    check(Q::HashDouble, Q::PercentInteger, Operator::Greater, out, false);
    assert!(cast_binary_op_q(Q::HashDouble, Q::PercentInteger, Operator::Greater).is_some(), "numeric operands are accepted for every operator");
    let out = vm_binary(Operator::NotEqual, Variant::VDouble(a), Variant::VInteger(b));
    check(Q::HashDouble, Q::PercentInteger, Operator::NotEqual, out, false);
    assert!(cast_binary_op_q(Q::HashDouble, Q::PercentInteger, Operator::NotEqual).is_some(), "numeric operands are accepted for every operator");
    let out = vm_binary(Operator::Plus, Variant::VDouble(a), Variant::VInteger(b));
    check(Q::HashDouble, Q::PercentInteger, Operator::Plus, out, false);
    assert!(cast_binary_op_q(Q::HashDouble, Q::PercentInteger, Operator::Plus).is_some(), "numeric operands are accepted for every operator");
    let out = vm_binary(Operator::Minus, Variant::VDouble(a), Variant::VInteger(b));
    check(Q::HashDouble, Q::PercentInteger, Operator::Minus, out, false);
    assert!(cast_binary_op_q(Q::HashDouble, Q::PercentInteger, Operator::Minus).is_some(), "numeric operands are accepted for every operator");
    let out = vm_binary(Operator::Multiply, Variant::VDouble(a), Variant::VInteger(b));
    check(Q::HashDouble, Q::PercentInteger, Operator::Multiply, out, false);
    assert!(cast_binary_op_q(Q::HashDouble, Q::PercentInteger, Operator::Multiply).is_some(), "numeric operands are accepted for every operator");
    let out = vm_binary(Operator::Divide, Variant::VDouble(a), Variant::VInteger(b));
    check(Q::HashDouble, Q::PercentInteger, Operator::Divide, out, KF_F5);
    assert!(cast_binary_op_q(Q::HashDouble, Q::PercentInteger, Operator::Divide).is_some(), "numeric operands are accepted for every operator");
    reach!(matches!(out, Out::Tag(_)));
    if KF_F18 {
        vs::assume((a as f64).abs() < 2147483647.5);
    }
    let out = vm_binary(Operator::Modulo, Variant::VDouble(a), Variant::VInteger(b));
    check(Q::HashDouble, Q::PercentInteger, Operator::Modulo, out, false);
    assert!(cast_binary_op_q(Q::HashDouble, Q::PercentInteger, Operator::Modulo).is_some(), "numeric operands are accepted for every operator");
    reach!(out == Out::OtherError);
});

//# harness logical_double_integer tier=quick tier.C06=thorough label=complete props=C12,C06 fn=rusty_linter/src/core/casting.rs::cast_binary_op_q timeout=1200
harness!(logical_double_integer, 18, {
    let a = vs::f64();
    vs::assume(a.is_finite());
    let b = vs::i32();
    vs::assume(b >= -32768 && b <= 32767);
    let out = vm_binary(Operator::And, Variant::VDouble(a), Variant::VInteger(b));
    check(Q::HashDouble, Q::PercentInteger, Operator::And, out, false);
    assert!(cast_binary_op_q(Q::HashDouble, Q::PercentInteger, Operator::And).is_some(), "numeric operands are accepted for every operator");
    reach!(matches!(out, Out::Tag(_)));
    let out = vm_binary(Operator::Or, Variant::VDouble(a), Variant::VInteger(b));
    check(Q::HashDouble, Q::PercentInteger, Operator::Or, out, false);
    assert!(cast_binary_op_q(Q::HashDouble, Q::PercentInteger, Operator::Or).is_some(), "numeric operands are accepted for every operator");
    reach!(matches!(out, Out::Tag(_)));
});

//# harness finding_f5_divide_double_integer tier=quick label=complete props=C06,C12 fn=rusty_linter/src/core/casting.rs::cast_binary_op_q expect=finding:F5
harness!(finding_f5_divide_double_integer, 1, {
    let a = vs::f64();
    vs::assume(a.is_finite());
    let b = vs::i32();
    vs::assume(b >= -32768 && b <= 32767);
    let out = vm_binary(Operator::Divide, Variant::VDouble(a), Variant::VInteger(b));
    check(Q::HashDouble, Q::PercentInteger, Operator::Divide, out, false);
});

//# harness binary_double_long tier=quick tier.C06=thorough label=complete props=C12,C06 fn=rusty_linter/src/core/casting.rs::cast_binary_op_q timeout=1200
harness!(binary_double_long, 1, {
    let a = vs::f64();
    vs::assume(a.is_finite());
    let b = vs::i64();
    vs::assume(b >= -2147483648 && b <= 2147483647);
    let out = vm_binary(Operator::Less, Variant::VDouble(a), Variant::VLong(b));
    check(Q::HashDouble, Q::AmpersandLong, Operator::Less, out, false);
    assert!(cast_binary_op_q(Q::HashDouble, Q::AmpersandLong, Operator::Less).is_some(), "numeric operands are accepted for every operator");
    reach!(matches!(out, Out::Tag(_)));
    let out = vm_binary(Operator::LessOrEqual, Variant::VDouble(a), Variant::VLong(b));
    check(Q::HashDouble, Q::AmpersandLong, Operator::LessOrEqual, out, false);
    assert!(cast_binary_op_q(Q::HashDouble, Q::AmpersandLong, Operator::LessOrEqual).is_some(), "numeric operands are accepted for every operator");
    let out = vm_binary(Operator::Equal, Variant::VDouble(a), Variant::VLong(b));
    check(Q::HashDouble, Q::AmpersandLong, Operator::Equal, out, false);
    assert!(cast_binary_op_q(Q::HashDouble, Q::AmpersandLong, Operator::Equal).is_some(), "numeric operands are accepted for every operator");
    let out = vm_binary(Operator::GreaterOrEqual, Variant::VDouble(a), Variant::VLong(b));
    check(Q::HashDouble, Q::AmpersandLong, Operator::GreaterOrEqual, out, false);
    assert!(cast_binary_op_q(Q::HashDouble, Q::AmpersandLong, Operator::GreaterOrEqual).is_some(), "numeric operands are accepted for every operator");
    let out = vm_binary(Operator::Greater, Variant::VDouble(a), Variant::VLong(b));
    check(Q::HashDouble, Q::AmpersandLong, Operator::Greater, out, false);
    assert!(cast_binary_op_q(Q::HashDouble, Q::AmpersandLong, Operator::Greater).is_some(), "numeric operands are accepted for every operator");
    let out = vm_binary(Operator::NotEqual, Variant::VDouble(a), Variant::VLong(b));
    check(Q::HashDouble, Q::AmpersandLong, Operator::NotEqual, out, false);
    assert!(cast_binary_op_q(Q::HashDouble, Q::AmpersandLong, Operator::NotEqual).is_some(), "numeric operands are accepted for every operator");
    let out = vm_binary(Operator::Plus, Variant::VDouble(a), Variant::VLong(b));
    check(Q::HashDouble, Q::AmpersandLong, Operator::Plus, out, false);
    assert!(cast_binary_op_q(Q::HashDouble, Q::AmpersandLong, Operator::Plus).is_some(), "numeric operands are accepted for every operator");
    let out = vm_binary(Operator::Minus, Variant::VDouble(a), Variant::VLong(b));
    check(Q::HashDouble, Q::AmpersandLong, Operator::Minus, out, false);
    assert!(cast_binary_op_q(Q::HashDouble, Q::AmpersandLong, Operator::Minus).is_some(), "numeric operands are accepted for every operator");
    let out = vm_binary(Operator::Multiply, Variant::VDouble(a), Variant::VLong(b));
    check(Q::HashDouble, Q::AmpersandLong, Operator::Multiply, out, false);
    assert!(cast_binary_op_q(Q::HashDouble, Q::AmpersandLong, Operator::Multiply).is_some(), "numeric operands are accepted for every operator");
    let out = vm_binary(Operator::Divide, Variant::VDouble(a), Variant::VLong(b));
    check(Q::HashDouble, Q::AmpersandLong, Operator::Divide, out, KF_F5);
    assert!(cast_binary_op_q(Q::HashDouble, Q::AmpersandLong, Operator::Divide).is_some(), "numeric operands are accepted for every operator");
    reach!(matches!(out, Out::Tag(_)));
    if KF_F18 {
        vs::assume((a as f64).abs() < 2147483647.5);
    }
    let out = vm_binary(Operator::Modulo, Variant::VDouble(a), Variant::VLong(b));
    check(Q::HashDouble, Q::AmpersandLong, Operator::Modulo, out, false);
    assert!(cast_binary_op_q(Q::HashDouble, Q::AmpersandLong, Operator::Modulo).is_some(), "numeric operands are accepted for every operator");
    reach!(out == Out::OtherError);
});

//# harness logical_double_long tier=quick tier.C06=thorough label=complete props=C12,C06 fn=rusty_linter/src/core/casting.rs::cast_binary_op_q timeout=1200
harness!(logical_double_long, 18, {
    let a = vs::f64();
    vs::assume(a.is_finite());
    let b = vs::i64();
    vs::assume(b >= -2147483648 && b <= 2147483647);
    let out = vm_binary(Operator::And, Variant::VDouble(a), Variant::VLong(b));
    check(Q::HashDouble, Q::AmpersandLong, Operator::And, out, false);
    assert!(cast_binary_op_q(Q::HashDouble, Q::AmpersandLong, Operator::And).is_some(), "numeric operands are accepted for every operator");
    reach!(matches!(out, Out::Tag(_)));
    let out = vm_binary(Operator::Or, Variant::VDouble(a), Variant::VLong(b));
    check(Q::HashDouble, Q::AmpersandLong, Operator::Or, out, false);
    assert!(cast_binary_op_q(Q::HashDouble, Q::AmpersandLong, Operator::Or).is_some(), "numeric operands are accepted for every operator");
    reach!(matches!(out, Out::Tag(_)));
});

//# harness finding_f5_divide_double_long tier=quick label=complete props=C06,C12 fn=rusty_linter/src/core/casting.rs::cast_binary_op_q expect=finding:F5
harness!(finding_f5_divide_double_long, 1, {
    let a = vs::f64();
    vs::assume(a.is_finite());
    let b = vs::i64();
    vs::assume(b >= -2147483648 && b <= 2147483647);
    let out = vm_binary(Operator::Divide, Variant::VDouble(a), Variant::VLong(b));
    check(Q::HashDouble, Q::AmpersandLong, Operator::Divide, out, false);
});

//# harness binary_double_single tier=quick tier.C06=thorough label=complete props=C12,C06 fn=rusty_linter/src/core/casting.rs::cast_binary_op_q timeout=1200
harness!(binary_double_single, 1, {
    let a = vs::f64();
    vs::assume(a.is_finite());
    let b = vs::f32();
    vs::assume(b.is_finite());
    let out = vm_binary(Operator::Less, Variant::VDouble(a), Variant::VSingle(b));
    check(Q::HashDouble, Q::BangSingle, Operator::Less, out, false);
    assert!(cast_binary_op_q(Q::HashDouble, Q::BangSingle, Operator::Less).is_some(), "numeric operands are accepted for every operator");
    reach!(matches!(out, Out::Tag(_)));
    let out = vm_binary(Operator::LessOrEqual, Variant::VDouble(a), Variant::VSingle(b));
    check(Q::HashDouble, Q::BangSingle, Operator::LessOrEqual, out, false);
    assert!(cast_binary_op_q(Q::HashDouble, Q::BangSingle, Operator::LessOrEqual).is_some(), "numeric operands are accepted for every operator");
    let out = vm_binary(Operator::Equal, Variant::VDouble(a), Variant::VSingle(b));
    check(Q::HashDouble, Q::BangSingle, Operator::Equal, out, false);
    assert!(cast_binary_op_q(Q::HashDouble, Q::BangSingle, Operator::Equal).is_some(), "numeric operands are accepted for every operator");
    let out = vm_binary(Operator::GreaterOrEqual, Variant::VDouble(a), Variant::VSingle(b));
    check(Q::HashDouble, Q::BangSingle, Operator::GreaterOrEqual, out, false);
    assert!(cast_binary_op_q(Q::HashDouble, Q::BangSingle, Operator::GreaterOrEqual).is_some(), "numeric operands are accepted for every operator");
    let out = vm_binary(Operator::Greater, Variant::VDouble(a), Variant::VSingle(b));
    check(Q::HashDouble, Q::BangSingle, Operator::Greater, out, false);
    assert!(cast_binary_op_q(Q::HashDouble, Q::BangSingle, Operator::Greater).is_some(), "numeric operands are accepted for every operator");
    let out = vm_binary(Operator::NotEqual, Variant::VDouble(a), Variant::VSingle(b));
    check(Q::HashDouble, Q::BangSingle, Operator::NotEqual, out, false);
    assert!(cast_binary_op_q(Q::HashDouble, Q::BangSingle, Operator::NotEqual).is_some(), "numeric operands are accepted for every operator");
    let out = vm_binary(Operator::Plus, Variant::VDouble(a), Variant::VSingle(b));
    check(Q::HashDouble, Q::BangSingle, Operator::Plus, out, false);
    assert!(cast_binary_op_q(Q::HashDouble, Q::BangSingle, Operator::Plus).is_some(), "numeric operands are accepted for every operator");
    let out = vm_binary(Operator::Minus, Variant::VDouble(a), Variant::VSingle(b));
    check(Q::HashDouble, Q::BangSingle, Operator::Minus, out, false);
    assert!(cast_binary_op_q(Q::HashDouble, Q::BangSingle, Operator::Minus).is_some(), "numeric operands are accepted for every operator");
    let out = vm_binary(Operator::Multiply, Variant::VDouble(a), Variant::VSingle(b));
    check(Q::HashDouble, Q::BangSingle, Operator::Multiply, out, false);
    assert!(cast_binary_op_q(Q::HashDouble, Q::BangSingle, Operator::Multiply).is_some(), "numeric operands are accepted for every operator");
    if KF_F26 {
        vs::assume((a as f64).abs() <= 1.0e303);
    }
    let out = vm_binary(Operator::Divide, Variant::VDouble(a), Variant::VSingle(b));
    check(Q::HashDouble, Q::BangSingle, Operator::Divide, out, KF_F5);
    assert!(cast_binary_op_q(Q::HashDouble, Q::BangSingle, Operator::Divide).is_some(), "numeric operands are accepted for every operator");
    reach!(matches!(out, Out::Tag(_)));
    if KF_F18 {
        vs::assume((a as f64).abs() < 2147483647.5 && (b as f64).abs() < 2147483647.5);
    }
    let out = vm_binary(Operator::Modulo, Variant::VDouble(a), Variant::VSingle(b));
    check(Q::HashDouble, Q::BangSingle, Operator::Modulo, out, false);
    assert!(cast_binary_op_q(Q::HashDouble, Q::BangSingle, Operator::Modulo).is_some(), "numeric operands are accepted for every operator");
    reach!(out == Out::OtherError);
});

//# harness logical_double_single tier=quick tier.C06=thorough label=complete props=C12,C06 fn=rusty_linter/src/core/casting.rs::cast_binary_op_q timeout=1200
harness!(logical_double_single, 18, {
    let a = vs::f64();
    vs::assume(a.is_finite());
    let b = vs::f32();
    vs::assume(b.is_finite());
    let out = vm_binary(Operator::And, Variant::VDouble(a), Variant::VSingle(b));
    check(Q::HashDouble, Q::BangSingle, Operator::And, out, false);
    assert!(cast_binary_op_q(Q::HashDouble, Q::BangSingle, Operator::And).is_some(), "numeric operands are accepted for every operator");
    reach!(matches!(out, Out::Tag(_)));
    let out = vm_binary(Operator::Or, Variant::VDouble(a), Variant::VSingle(b));
    check(Q::HashDouble, Q::BangSingle, Operator::Or, out, false);
    assert!(cast_binary_op_q(Q::HashDouble, Q::BangSingle, Operator::Or).is_some(), "numeric operands are accepted for every operator");
    reach!(matches!(out, Out::Tag(_)));
});

//# harness finding_f5_divide_double_single tier=quick label=complete props=C06,C12 fn=rusty_linter/src/core/casting.rs::cast_binary_op_q expect=finding:F5
harness!(finding_f5_divide_double_single, 1, {
    let a = vs::f64();
    vs::assume(a.is_finite());
    let b = vs::f32();
    vs::assume(b.is_finite());
    let out = vm_binary(Operator::Divide, Variant::VDouble(a), Variant::VSingle(b));
    check(Q::HashDouble, Q::BangSingle, Operator::Divide, out, false);
});

//# harness binary_double_double tier=quick tier.C06=thorough label=complete props=C12,C06 fn=rusty_linter/src/core/casting.rs::cast_binary_op_q timeout=1200
harness!(binary_double_double, 1, {
    let a = vs::f64();
    vs::assume(a.is_finite());
    let b = vs::f64();
    vs::assume(b.is_finite());
    let out = vm_binary(Operator::Less, Variant::VDouble(a), Variant::VDouble(b));
    check(Q::HashDouble, Q::HashDouble, Operator::Less, out, false);
    assert!(cast_binary_op_q(Q::HashDouble, Q::HashDouble, Operator::Less).is_some(), "numeric operands are accepted for every operator");
    reach!(matches!(out, Out::Tag(_)));
    let out = vm_binary(Operator::LessOrEqual, Variant::VDouble(a), Variant::VDouble(b));
    check(Q::HashDouble, Q::HashDouble, Operator::LessOrEqual, out, false);
    assert!(cast_binary_op_q(Q::HashDouble, Q::HashDouble, Operator::LessOrEqual).is_some(), "numeric operands are accepted for every operator");
    let out = vm_binary(Operator::Equal, Variant::VDouble(a), Variant::VDouble(b));
    check(Q::HashDouble, Q::HashDouble, Operator::Equal, out, false);
    assert!(cast_binary_op_q(Q::HashDouble, Q::HashDouble, Operator::Equal).is_some(), "numeric operands are accepted for every operator");
    let out = vm_binary(Operator::GreaterOrEqual, Variant::VDouble(a), Variant::VDouble(b));
    check(Q::HashDouble, Q::HashDouble, Operator::GreaterOrEqual, out, false);
    assert!(cast_binary_op_q(Q::HashDouble, Q::HashDouble, Operator::GreaterOrEqual).is_some(), "numeric operands are accepted for every operator");
    let out = vm_binary(Operator::Greater, Variant::VDouble(a), Variant::VDouble(b));
    check(Q::HashDouble, Q::HashDouble, Operator::Greater, out, false);
    assert!(cast_binary_op_q(Q::HashDouble, Q::HashDouble, Operator::Greater).is_some(), "numeric operands are accepted for every operator");
    let out = vm_binary(Operator::NotEqual, Variant::VDouble(a), Variant::VDouble(b));
    check(Q::HashDouble, Q::HashDouble, Operator::NotEqual, out, false);
    assert!(cast_binary_op_q(Q::HashDouble, Q::HashDouble, Operator::NotEqual).is_some(), "numeric operands are accepted for every operator");
    let out = vm_binary(Operator::Plus, Variant::VDouble(a), Variant::VDouble(b));
    check(Q::HashDouble, Q::HashDouble, Operator::Plus, out, false);
    assert!(cast_binary_op_q(Q::HashDouble, Q::HashDouble, Operator::Plus).is_some(), "numeric operands are accepted for every operator");
    let out = vm_binary(Operator::Minus, Variant::VDouble(a), Variant::VDouble(b));
    check(Q::HashDouble, Q::HashDouble, Operator::Minus, out, false);
    assert!(cast_binary_op_q(Q::HashDouble, Q::HashDouble, Operator::Minus).is_some(), "numeric operands are accepted for every operator");
    let out = vm_binary(Operator::Multiply, Variant::VDouble(a), Variant::VDouble(b));
    check(Q::HashDouble, Q::HashDouble, Operator::Multiply, out, false);
    assert!(cast_binary_op_q(Q::HashDouble, Q::HashDouble, Operator::Multiply).is_some(), "numeric operands are accepted for every operator");
    if KF_F26 {
        vs::assume((a as f64).abs() <= 1.0e303);
    }
    let out = vm_binary(Operator::Divide, Variant::VDouble(a), Variant::VDouble(b));
    check(Q::HashDouble, Q::HashDouble, Operator::Divide, out, KF_F5);
    assert!(cast_binary_op_q(Q::HashDouble, Q::HashDouble, Operator::Divide).is_some(), "numeric operands are accepted for every operator");
    reach!(matches!(out, Out::Tag(_)));
    if KF_F18 {
        vs::assume((a as f64).abs() < 2147483647.5 && (b as f64).abs() < 2147483647.5);
    }
    let out = vm_binary(Operator::Modulo, Variant::VDouble(a), Variant::VDouble(b));
    check(Q::HashDouble, Q::HashDouble, Operator::Modulo, out, false);
    assert!(cast_binary_op_q(Q::HashDouble, Q::HashDouble, Operator::Modulo).is_some(), "numeric operands are accepted for every operator");
    reach!(out == Out::OtherError);
});

//# harness logical_double_double tier=quick tier.C06=thorough label=complete props=C12,C06 fn=rusty_linter/src/core/casting.rs::cast_binary_op_q timeout=1200
harness!(logical_double_double, 18, {
    let a = vs::f64();
    vs::assume(a.is_finite());
    let b = vs::f64();
    vs::assume(b.is_finite());
    let out = vm_binary(Operator::And, Variant::VDouble(a), Variant::VDouble(b));
    check(Q::HashDouble, Q::HashDouble, Operator::And, out, false);
    assert!(cast_binary_op_q(Q::HashDouble, Q::HashDouble, Operator::And).is_some(), "numeric operands are accepted for every operator");
    reach!(matches!(out, Out::Tag(_)));
    let out = vm_binary(Operator::Or, Variant::VDouble(a), Variant::VDouble(b));
    check(Q::HashDouble, Q::HashDouble, Operator::Or, out, false);
    assert!(cast_binary_op_q(Q::HashDouble, Q::HashDouble, Operator::Or).is_some(), "numeric operands are accepted for every operator");
    reach!(matches!(out, Out::Tag(_)));
});

//# harness finding_f5_divide_double_double tier=quick label=complete props=C06,C12 fn=rusty_linter/src/core/casting.rs::cast_binary_op_q expect=finding:F5
harness!(finding_f5_divide_double_double, 1, {
    let a = vs::f64();
    vs::assume(a.is_finite());
    let b = vs::f64();
    vs::assume(b.is_finite());
    let out = vm_binary(Operator::Divide, Variant::VDouble(a), Variant::VDouble(b));
    check(Q::HashDouble, Q::HashDouble, Operator::Divide, out, false);
});

//# harness finding_f18_modulo_double_integer tier=quick label=complete props=C12 fn=rusty_linter/src/core/casting.rs::cast_binary_op_q expect=finding:F18
harness!(finding_f18_modulo_double_integer, 1, {
    let a = vs::f64();
    vs::assume(a.is_finite());
    let b = vs::i32();
    vs::assume(b >= -32768 && b <= 32767);
    vs::assume((a as f64).abs() >= 2147483647.5);
    let out = vm_binary(Operator::Modulo, Variant::VDouble(a), Variant::VInteger(b));
    check(Q::HashDouble, Q::PercentInteger, Operator::Modulo, out, false);
});

//# harness finding_f18_modulo_integer_single tier=quick label=complete props=C12 fn=rusty_linter/src/core/casting.rs::cast_binary_op_q expect=finding:F18
harness!(finding_f18_modulo_integer_single, 1, {
    let a = vs::i32();
    vs::assume(a >= -32768 && a <= 32767);
    let b = vs::f32();
    vs::assume(b.is_finite());
    vs::assume((b as f64).abs() >= 2147483647.5);
    let out = vm_binary(Operator::Modulo, Variant::VInteger(a), Variant::VSingle(b));
    check(Q::PercentInteger, Q::BangSingle, Operator::Modulo, out, false);
});

// ---------------------------------------------------------------------------------------------
// strings (payload length <= 1; the outcome does not depend on the content).  Unwind bound 2: no loop of the
// operators themselves iterates for these operands, and the recursive drop glue of `Variant` is not entered
// (unwinding assertions on).
// ---------------------------------------------------------------------------------------------
fn s0() -> Variant {
    Variant::VString(String::new())
}
fn s1() -> Variant {
    Variant::VString(String::from("a"))
}

// NOT decided here (tool limit): + - * MOD AND OR with a string operand at run time.  Those `Variant` methods take
// their operands by value and drop the string inside; CBMC then explores the recursive drop glue of `Variant`
// (arrays, HashMap of record fields) and needs > 30 GB.  The static side of these rows is covered by
// `table_matches_reference`; the run-time side is covered for the by-reference comparison and for `/`.

//# harness relational_string_numeric tier=thorough label=bounded(len<=1) props=C12 fn=rusty_linter/src/core/casting.rs::cast_binary_op_q timeout=900 attempt=1
harness!(relational_string_numeric, 2, {
    let op = op_of(vs::choice(6)); // the six relational operators
    let s = if vs::bool() { s0() } else { s1() };
    let k = vs::choice(4);
    let (n, q) = match k {
        0 => (Variant::VInteger(vs::i32()), Q::PercentInteger),
        1 => (Variant::VLong(vs::i64()), Q::AmpersandLong),
        2 => (Variant::VSingle(vs::f32()), Q::BangSingle),
        _ => (Variant::VDouble(vs::f64()), Q::HashDouble),
    };
    let string_left = vs::bool();
    if string_left {
        let out = vm_binary(op, s, n);
        check(Q::DollarString, q, op, out, false);
        assert!(out == Out::Mismatch, "a string never compares with a number");
    } else {
        let out = vm_binary(op, n, s);
        check(q, Q::DollarString, op, out, false);
        assert!(out == Out::Mismatch, "a number never compares with a string");
    }
    reach!(string_left && k == 3);
    reach!(!string_left && k == 0);
});

//# harness relational_string_string tier=thorough label=bounded(len<=1) props=C12,C06 fn=rusty_linter/src/core/casting.rs::cast_binary_op_q timeout=900 attempt=1
harness!(relational_string_string, 2, {
    let op = op_of(vs::choice(6));
    let a = if vs::bool() { s0() } else { s1() };
    let b = if vs::bool() { s0() } else { s1() };
    let out = vm_binary(op, a, b);
    check(Q::DollarString, Q::DollarString, op, out, false);
    assert!(out == Out::Tag(Some(Q::PercentInteger)), "comparing two strings yields an INTEGER truth value");
    reach!(op == Operator::NotEqual);
});

//# harness divide_string_operand tier=thorough label=bounded(len<=1) props=C12 fn=rusty_linter/src/core/casting.rs::cast_binary_op_q timeout=900 attempt=1
harness!(divide_string_operand, 2, {
    let o1 = vm_binary(Operator::Divide, s1(), Variant::VInteger(vs::i32()));
    check(Q::DollarString, Q::PercentInteger, Operator::Divide, o1, false);
    let o2 = vm_binary(Operator::Divide, Variant::VDouble(vs::f64()), s0());
    check(Q::HashDouble, Q::DollarString, Operator::Divide, o2, false);
    let o3 = vm_binary(Operator::Divide, s0(), Variant::VSingle(vs::f32()));
    check(Q::DollarString, Q::BangSingle, Operator::Divide, o3, false);
    let o4 = vm_binary(Operator::Divide, Variant::VLong(vs::i64()), s1());
    check(Q::AmpersandLong, Q::DollarString, Operator::Divide, o4, false);
    assert!(o1 == Out::Mismatch && o2 == Out::Mismatch && o3 == Out::Mismatch && o4 == Out::Mismatch, "a string cannot be divided");
});


// ---------------------------------------------------------------------------------------------
// assignability: q1.can_cast_to(q2) <=> cast(v: q1, q2) is not TypeMismatch (and the result carries tag q2)
// ---------------------------------------------------------------------------------------------

//# harness castable_integer tier=quick label=complete props=C12,C06 fn=rusty_linter/src/core/can_cast_to.rs::CanCastTo<TypeQualifier>::can_cast_to
harness!(castable_integer, 2, {
    let a = vs::i32();
    vs::assume(a >= -32768 && a <= 32767);
    let q2 = any_q();
    let out = out_l(Variant::VInteger(a).cast(q2));
    assert!(Q::PercentInteger.can_cast_to(&q2) == (out != Out::Mismatch), "can_cast_to disagrees with the run-time conversion");
    if let Out::Tag(g) = out {
        assert!(g == Some(q2), "a converted value carries the target type");
    }
    reach!(out == Out::Mismatch);
    reach!(matches!(out, Out::Tag(_)));
});

//# harness castable_long tier=quick label=complete props=C12,C06 fn=rusty_linter/src/core/can_cast_to.rs::CanCastTo<TypeQualifier>::can_cast_to
harness!(castable_long, 2, {
    let a = vs::i64();
    vs::assume(a >= -2147483648 && a <= 2147483647);
    let q2 = any_q();
    let out = out_l(Variant::VLong(a).cast(q2));
    assert!(Q::AmpersandLong.can_cast_to(&q2) == (out != Out::Mismatch), "can_cast_to disagrees with the run-time conversion");
    if let Out::Tag(g) = out {
        assert!(g == Some(q2), "a converted value carries the target type");
    }
    reach!(out == Out::Mismatch);
    reach!(matches!(out, Out::Tag(_)));
});

//# harness castable_single tier=quick label=complete props=C12,C06 fn=rusty_linter/src/core/can_cast_to.rs::CanCastTo<TypeQualifier>::can_cast_to
harness!(castable_single, 2, {
    let a = vs::f32();
    vs::assume(a.is_finite());
    let q2 = any_q();
    let out = out_l(Variant::VSingle(a).cast(q2));
    assert!(Q::BangSingle.can_cast_to(&q2) == (out != Out::Mismatch), "can_cast_to disagrees with the run-time conversion");
    if let Out::Tag(g) = out {
        assert!(g == Some(q2), "a converted value carries the target type");
    }
    reach!(out == Out::Mismatch);
    reach!(matches!(out, Out::Tag(_)));
});

//# harness castable_double tier=quick label=complete props=C12,C06 fn=rusty_linter/src/core/can_cast_to.rs::CanCastTo<TypeQualifier>::can_cast_to
harness!(castable_double, 2, {
    let a = vs::f64();
    vs::assume(a.is_finite());
    let q2 = any_q();
    let out = out_l(Variant::VDouble(a).cast(q2));
    assert!(Q::HashDouble.can_cast_to(&q2) == (out != Out::Mismatch), "can_cast_to disagrees with the run-time conversion");
    if let Out::Tag(g) = out {
        assert!(g == Some(q2), "a converted value carries the target type");
    }
    reach!(out == Out::Mismatch);
    reach!(matches!(out, Out::Tag(_)));
});

//# harness castable_string tier=thorough label=bounded(len<=1) props=C12 fn=rusty_linter/src/core/can_cast_to.rs::CanCastTo<TypeQualifier>::can_cast_to timeout=900 attempt=1
harness!(castable_string, 2, {
    let q2 = any_q();
    let s = if vs::bool() { s0() } else { s1() };
    let out = out_l(s.cast(q2));
    assert!(Q::DollarString.can_cast_to(&q2) == (out != Out::Mismatch), "can_cast_to disagrees with the run-time conversion");
    if let Out::Tag(g) = out {
        assert!(g == Some(Q::DollarString) && q2 == Q::DollarString, "only string -> string succeeds");
    }
    reach!(out == Out::Mismatch);
    reach!(matches!(out, Out::Tag(_)));
});

// ---------------------------------------------------------------------------------------------
// unary minus / NOT: the static type of `-x` / `NOT x` is the type of x (converter/expr_rules/unary.rs accepts
// exactly the four numeric types: unit type_table_unary)
// ---------------------------------------------------------------------------------------------

//# harness unary_integer tier=quick label=complete props=C12,C06 fn=rusty_variant/src/variant.rs::Variant::negate
harness!(unary_integer, 2, {
    let a = vs::i32();
    vs::assume(a >= -32768 && a <= 32767);
    let neg = vs::bool();
    let v = Variant::VInteger(a);
    let out = out_v(if neg { v.negate() } else { v.unary_not() });
    assert!(out != Out::Mismatch, "unary operator on a number gives Type mismatch");
    if let Out::Tag(g) = out {
        assert!(g == Some(Q::PercentInteger), "tag preservation: unary operators keep the operand type");
    }
    reach!(neg && matches!(out, Out::Tag(_)));
    reach!(!neg && matches!(out, Out::Tag(_)));
});

//# harness unary_long tier=quick label=complete props=C12,C06 fn=rusty_variant/src/variant.rs::Variant::negate
harness!(unary_long, 2, {
    let a = vs::i64();
    vs::assume(a >= -2147483648 && a <= 2147483647);
    let neg = vs::bool();
    let v = Variant::VLong(a);
    let out = out_v(if neg { v.negate() } else { v.unary_not() });
    assert!(out != Out::Mismatch, "unary operator on a number gives Type mismatch");
    if let Out::Tag(g) = out {
        assert!(g == Some(Q::AmpersandLong), "tag preservation: unary operators keep the operand type");
    }
    reach!(neg && matches!(out, Out::Tag(_)));
    reach!(!neg && matches!(out, Out::Tag(_)));
});

//# harness unary_single tier=quick label=complete props=C12,C06 fn=rusty_variant/src/variant.rs::Variant::negate
harness!(unary_single, 2, {
    let a = vs::f32();
    vs::assume(a.is_finite());
    let neg = vs::bool();
    let v = Variant::VSingle(a);
    let out = out_v(if neg { v.negate() } else { v.unary_not() });
    assert!(out != Out::Mismatch, "unary operator on a number gives Type mismatch");
    if let Out::Tag(g) = out {
        assert!(g == Some(Q::BangSingle), "tag preservation: unary operators keep the operand type");
    }
    reach!(neg && matches!(out, Out::Tag(_)));
    reach!(!neg && matches!(out, Out::Tag(_)));
});

//# harness unary_double tier=quick label=complete props=C12,C06 fn=rusty_variant/src/variant.rs::Variant::negate
harness!(unary_double, 2, {
    let a = vs::f64();
    vs::assume(a.is_finite());
    let neg = vs::bool();
    let v = Variant::VDouble(a);
    let out = out_v(if neg { v.negate() } else { v.unary_not() });
    assert!(out != Out::Mismatch, "unary operator on a number gives Type mismatch");
    if let Out::Tag(g) = out {
        assert!(g == Some(Q::HashDouble), "tag preservation: unary operators keep the operand type");
    }
    reach!(neg && matches!(out, Out::Tag(_)));
    reach!(!neg && matches!(out, Out::Tag(_)));
});

//# harness unary_string tier=thorough label=bounded(len<=1) props=C12 fn=rusty_variant/src/variant.rs::Variant::negate timeout=900 attempt=1
harness!(unary_string, 2, {
    let neg = vs::bool();
    let s = if vs::bool() { s0() } else { s1() };
    let out = out_v(if neg { s.negate() } else { s.unary_not() });
    assert!(out == Out::Mismatch, "unary operator on a string must be Type mismatch");
    reach!(neg);
    reach!(!neg);
});
