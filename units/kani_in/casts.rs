//# unit casts kind=kani_in crate=rusty_linter inject=rusty_linter/src/core/qb_casting.rs
//! C06 / C04 — numeric conversions.  Contract (property statement): storing a value of another numeric type
//! converts it, rounding to nearest for whole-number targets; a conversion result that does not fit raises
//! Overflow instead of being stored, wrapped or crashing; whatever is stored is a value of the target type
//! (whole number in range, finite single/double).
//!   whole-number target:  Ok(n) => n in the target's range and |x - n| <= 0.5 (either rounding of an exact tie is
//!                         accepted);  Err(Overflow) => x >= MAX + 0.5 or x <= MIN - 0.5;  NaN/inf never Ok;
//!                         no other outcome for finite x;
//!   SINGLE target:        Ok(r) => r finite and no other single is closer to x;  Err(Overflow) => |x| rounds beyond
//!                         the largest finite single (|x| >= 2^128 - 2^103);
//!   DOUBLE target:        Ok(r) => r = x exactly (every valid source value is a double); never an error;
//!   CastVariant::cast:    the result carries the target's tag and satisfies the type invariant; `$` accepts
//!                         exactly strings (others: TypeMismatch); pass-through arms (`VInteger -> %`) under
//!                         `requires valid(v)`.
//! Scalar impls: full f32 / f64 / i32 / i64 domains (bit-precise).  Loop-free: complete.

use rusty_parser::TypeQualifier as Q;

const IMIN: f64 = -32768.0;
const IMAX: f64 = 32767.0;
const LMIN: f64 = -2147483648.0;
const LMAX: f64 = 2147483647.0;

/// 2^128 - 2^103: the least magnitude that rounds (to nearest, ties to even) beyond f32::MAX
fn single_limit() -> f64 {
    f64::from_bits(0x47EF_FFFF_F000_0000)
}

fn valid(v: &Variant) -> bool {
    match v {
        Variant::VInteger(i) => (-32768..=32767).contains(i),
        Variant::VLong(l) => (-2147483648..=2147483647).contains(l),
        Variant::VSingle(f) => f.is_finite(),
        Variant::VDouble(d) => d.is_finite(),
        _ => true,
    }
}

fn next_up(f: f32) -> f32 {
    let b = f.to_bits();
    if f == 0.0 { f32::from_bits(1) } else if f > 0.0 { f32::from_bits(b + 1) } else { f32::from_bits(b - 1) }
}
fn next_down(f: f32) -> f32 {
    let b = f.to_bits();
    if f == 0.0 { -f32::from_bits(1) } else if f > 0.0 { f32::from_bits(b - 1) } else { f32::from_bits(b + 1) }
}

/// `r` is finite and no single is closer to the (finite) exact value `x`.  Differences of doubles are rounded
/// monotonically, so `<=` between them never rejects a true nearest value.
fn nearest_single(x: f64, r: f32) -> bool {
    if !r.is_finite() || !(x.abs() < single_limit()) {
        return false;
    }
    let d = (x - r as f64).abs();
    d <= (x - next_up(r) as f64).abs() && d <= (x - next_down(r) as f64).abs()
}

/// whole-number result `n` for exact value `x` into lo..=hi
fn whole_ok(x: f64, n: f64, lo: f64, hi: f64) {
    assert!(n >= lo && n <= hi, "converted value outside the target's range");
    assert!((x - n).abs() <= 0.5, "converted value is not x rounded to nearest");
}
/// an error for finite x into lo..=hi must be Overflow, and only when the rounded value does not fit
fn whole_err(x: f64, e: &LintError, lo: f64, hi: f64) {
    if x.is_finite() {
        assert!(matches!(e, LintError::Overflow), "a finite value that does not fit must give Overflow");
        assert!(x >= hi + 0.5 || x <= lo - 0.5, "Overflow although the rounded value fits");
    } else {
        assert!(matches!(e, LintError::Overflow | LintError::NotFiniteNumber), "NaN/inf into a whole number: wrong error");
    }
}

/// postcondition of `cast(v, q)` for a valid numeric source with exact value x
fn cast_post(x: f64, q: Q, r: &Result<Variant, LintError>) {
    match r {
        Ok(Variant::VInteger(n)) => {
            assert!(q == Q::PercentInteger, "tag differs from the target type");
            whole_ok(x, *n as f64, IMIN, IMAX);
        }
        Ok(Variant::VLong(n)) => {
            assert!(q == Q::AmpersandLong, "tag differs from the target type");
            assert!(*n >= -2147483648 && *n <= 2147483647, "converted value outside the LONG range");
            whole_ok(x, *n as f64, LMIN, LMAX);
        }
        Ok(Variant::VSingle(f)) => {
            assert!(q == Q::BangSingle, "tag differs from the target type");
            assert!(nearest_single(x, *f), "SINGLE result is not finite or not the nearest single");
        }
        Ok(Variant::VDouble(d)) => {
            assert!(q == Q::HashDouble, "tag differs from the target type");
            assert!(*d == x, "DOUBLE result differs from the exact value");
        }
        Ok(_) => assert!(false, "numeric source converted to a non-numeric value"),
        Err(e) => match q {
            Q::PercentInteger => whole_err(x, e, IMIN, IMAX),
            Q::AmpersandLong => whole_err(x, e, LMIN, LMAX),
            Q::BangSingle => {
                assert!(matches!(e, LintError::Overflow), "only Overflow may reject a numeric value");
                assert!(x.abs() >= single_limit(), "Overflow although the value rounds to a finite single");
            }
            Q::HashDouble => assert!(false, "conversion to DOUBLE cannot fail"),
            Q::DollarString => assert!(matches!(e, LintError::TypeMismatch), "numeric -> string must be TypeMismatch"),
        },
    }
    if q == Q::DollarString {
        assert!(r.is_err(), "numeric value accepted as a string");
    }
}

// ---------------------------------------------------------------------------------------------
// the 12 scalar impls, full machine domains
// ---------------------------------------------------------------------------------------------

//# harness f32_to_f64 tier=quick label=complete props=C06 fn=rusty_linter/src/core/qb_casting.rs::QBNumberCast<f64>forf32::try_cast
harness!(f32_to_f64, 2, {
    let x = vs::f32();
    let r: Result<f64, LintError> = x.try_cast();
    match &r {
        Ok(d) => {
            if x.is_nan() {
                assert!(d.is_nan());
            } else {
                // d is a single-representable double equal to x: the conversion is exact
                assert!((*d as f32).to_bits() == x.to_bits() && (*d as f32) as f64 == *d, "SINGLE -> DOUBLE is not exact");
                assert!(d.is_finite() == x.is_finite());
            }
        }
        Err(_) => assert!(false, "SINGLE -> DOUBLE cannot fail"),
    }
    reach!(x == 1.5);
    std::mem::forget(r);
});

//# harness f32_to_i32 tier=quick label=complete props=C06 fn=rusty_linter/src/core/qb_casting.rs::QBNumberCast<i32>forf32::try_cast
harness!(f32_to_i32, 2, {
    let x = vs::f32();
    let r: Result<i32, LintError> = x.try_cast();
    match &r {
        Ok(n) => {
            assert!(x.is_finite(), "NaN/inf converted to an INTEGER");
            whole_ok(x as f64, *n as f64, IMIN, IMAX);
        }
        Err(e) => whole_err(x as f64, e, IMIN, IMAX),
    }
    reach!(matches!(r, Ok(-32768)));
    reach!(matches!(r, Err(LintError::Overflow)));
    reach!(!x.is_finite());
    std::mem::forget(r);
});

//# harness f32_to_i64 tier=quick label=complete props=C06 fn=rusty_linter/src/core/qb_casting.rs::QBNumberCast<i64>forf32::try_cast
harness!(f32_to_i64, 2, {
    let x = vs::f32();
    if KF_F13 {
        vs::assume(x != 2147483648.0); // known finding F13
    }
    let r: Result<i64, LintError> = x.try_cast();
    match &r {
        Ok(n) => {
            assert!(x.is_finite(), "NaN/inf converted to a LONG");
            assert!(*n >= -2147483648 && *n <= 2147483647, "converted value outside the LONG range");
            whole_ok(x as f64, *n as f64, LMIN, LMAX);
        }
        Err(e) => whole_err(x as f64, e, LMIN, LMAX),
    }
    reach!(matches!(r, Ok(-2147483648)));
    reach!(matches!(r, Err(LintError::Overflow)));
    std::mem::forget(r);
});

//# harness finding_f13_f32_to_i64 tier=quick label=complete props=C06 fn=rusty_linter/src/core/qb_casting.rs::QBNumberCast<i64>forf32::try_cast expect=finding:F13
harness!(finding_f13_f32_to_i64, 2, {
    let x: f32 = 2147483648.0;
    let r: Result<i64, LintError> = x.try_cast();
    match &r {
        Ok(n) => whole_ok(x as f64, *n as f64, LMIN, LMAX),
        Err(e) => whole_err(x as f64, e, LMIN, LMAX),
    }
    std::mem::forget(r);
});

//# harness f64_to_f32 tier=quick label=complete props=C06 fn=rusty_linter/src/core/qb_casting.rs::QBNumberCast<f32>forf64::try_cast
harness!(f64_to_f32, 2, {
    let x = vs::f64();
    vs::assume(x.is_finite());
    if KF_F15 {
        vs::assume(x.abs() < single_limit()); // known finding F15
    }
    let r: Result<f32, LintError> = x.try_cast();
    match &r {
        Ok(f) => assert!(nearest_single(x, *f), "SINGLE result is not finite or not the nearest single"),
        Err(e) => {
            assert!(matches!(e, LintError::Overflow), "only Overflow may reject a finite double");
            assert!(x.abs() >= single_limit(), "Overflow although the value rounds to a finite single");
        }
    }
    reach!(matches!(r, Ok(f) if f == 0.1_f32));
    reach!(matches!(r, Ok(f) if f == f32::MAX));
    std::mem::forget(r);
});

//# harness finding_f15_f64_to_f32 tier=quick label=complete props=C06 fn=rusty_linter/src/core/qb_casting.rs::QBNumberCast<f32>forf64::try_cast expect=finding:F15
harness!(finding_f15_f64_to_f32, 2, {
    let x = vs::f64();
    vs::assume(x.is_finite() && x.abs() >= single_limit());
    let r: Result<f32, LintError> = x.try_cast();
    assert!(matches!(r, Err(LintError::Overflow)), "a double beyond the SINGLE range must give Overflow, not be stored");
    std::mem::forget(r);
});

//# harness f64_to_i32 tier=quick label=complete props=C06 fn=rusty_linter/src/core/qb_casting.rs::QBNumberCast<i32>forf64::try_cast
harness!(f64_to_i32, 2, {
    let x = vs::f64();
    let r: Result<i32, LintError> = x.try_cast();
    match &r {
        Ok(n) => {
            assert!(x.is_finite(), "NaN/inf converted to an INTEGER");
            whole_ok(x, *n as f64, IMIN, IMAX);
        }
        Err(e) => whole_err(x, e, IMIN, IMAX),
    }
    reach!(matches!(r, Ok(32767)));
    reach!(matches!(r, Err(LintError::Overflow)));
    reach!(x.is_nan());
    std::mem::forget(r);
});

//# harness f64_to_i64 tier=quick label=complete props=C06 fn=rusty_linter/src/core/qb_casting.rs::QBNumberCast<i64>forf64::try_cast
harness!(f64_to_i64, 2, {
    let x = vs::f64();
    let r: Result<i64, LintError> = x.try_cast();
    match &r {
        Ok(n) => {
            assert!(x.is_finite(), "NaN/inf converted to a LONG");
            assert!(*n >= -2147483648 && *n <= 2147483647, "converted value outside the LONG range");
            whole_ok(x, *n as f64, LMIN, LMAX);
        }
        Err(e) => whole_err(x, e, LMIN, LMAX),
    }
    reach!(matches!(r, Ok(2147483647)));
    reach!(matches!(r, Err(LintError::Overflow)));
    std::mem::forget(r);
});

//# harness i32_to_f32 tier=quick label=complete props=C06 fn=rusty_linter/src/core/qb_casting.rs::QBNumberCast<f32>fori32::try_cast
harness!(i32_to_f32, 2, {
    let x = vs::i32();
    let r: Result<f32, LintError> = x.try_cast();
    match &r {
        Ok(f) => {
            assert!(nearest_single(x as f64, *f), "SINGLE result is not the nearest single");
            if x > -16777216 && x < 16777216 {
                assert!(*f as f64 == x as f64, "whole numbers below 2^24 convert exactly");
            }
        }
        Err(_) => assert!(false, "a 32-bit whole number always fits a SINGLE"),
    }
    reach!(x == i32::MAX);
    std::mem::forget(r);
});

//# harness i32_to_f64 tier=quick label=complete props=C06 fn=rusty_linter/src/core/qb_casting.rs::QBNumberCast<f64>fori32::try_cast
harness!(i32_to_f64, 2, {
    let x = vs::i32();
    let r: Result<f64, LintError> = x.try_cast();
    match &r {
        Ok(d) => assert!(d.is_finite() && d.trunc() == *d && *d as i64 == x as i64, "whole number -> DOUBLE is not exact"),
        Err(_) => assert!(false, "whole number -> DOUBLE cannot fail"),
    }
    reach!(x == i32::MIN);
    std::mem::forget(r);
});

//# harness i32_to_i64 tier=quick label=complete props=C06 fn=rusty_linter/src/core/qb_casting.rs::QBNumberCast<i64>fori32::try_cast
harness!(i32_to_i64, 2, {
    let x = vs::i32();
    let r: Result<i64, LintError> = x.try_cast();
    assert!(matches!(r, Ok(n) if n - (x as i64) == 0 && n >= -2147483648 && n <= 2147483647), "32-bit whole number -> LONG is not the identity");
    reach!(x == i32::MIN);
    std::mem::forget(r);
});

//# harness i64_to_f32 tier=quick label=complete props=C06 fn=rusty_linter/src/core/qb_casting.rs::QBNumberCast<f32>fori64::try_cast
harness!(i64_to_f32, 2, {
    let x = vs::i64();
    let r: Result<f32, LintError> = x.try_cast();
    match &r {
        Ok(f) => {
            assert!(f.is_finite(), "SINGLE result not finite");
            if x >= -9007199254740992 && x <= 9007199254740992 {
                // |x| <= 2^53: x is a double, compare there
                assert!(nearest_single(x as f64, *f), "SINGLE result is not the nearest single");
            } else {
                // beyond 2^53 every single is a whole number: compare in 128-bit integers
                let d = ((x as i128) - (*f as i128)).abs();
                assert!(d <= ((x as i128) - (next_up(*f) as i128)).abs() && d <= ((x as i128) - (next_down(*f) as i128)).abs(),
                        "SINGLE result is not the nearest single");
            }
        }
        Err(_) => assert!(false, "a 64-bit whole number always fits a SINGLE"),
    }
    reach!(x == i64::MAX);
    reach!(x == 16777217);
    std::mem::forget(r);
});

//# harness i64_to_f64 tier=quick label=complete props=C06 fn=rusty_linter/src/core/qb_casting.rs::QBNumberCast<f64>fori64::try_cast
harness!(i64_to_f64, 2, {
    let x = vs::i64();
    let r: Result<f64, LintError> = x.try_cast();
    match &r {
        Ok(d) => {
            assert!(d.is_finite() && d.trunc() == *d, "DOUBLE result is not a finite whole number");
            if x >= -9007199254740992 && x <= 9007199254740992 {
                assert!(*d as i64 == x, "whole numbers up to 2^53 (every LONG) convert exactly");
            } else {
                // nearest double: compare with both neighbours in 128-bit integers
                let b = d.to_bits();
                let (up, down) = if *d > 0.0 { (f64::from_bits(b + 1), f64::from_bits(b - 1)) } else { (f64::from_bits(b - 1), f64::from_bits(b + 1)) };
                let e = ((x as i128) - (*d as i128)).abs();
                assert!(e <= ((x as i128) - (up as i128)).abs() && e <= ((x as i128) - (down as i128)).abs(), "DOUBLE result is not the nearest double");
            }
        }
        Err(_) => assert!(false, "whole number -> DOUBLE cannot fail"),
    }
    reach!(x == i64::MIN);
    reach!(x == 2147483647);
    std::mem::forget(r);
});

//# harness i64_to_i32 tier=quick label=complete props=C06 fn=rusty_linter/src/core/qb_casting.rs::QBNumberCast<i32>fori64::try_cast
harness!(i64_to_i32, 2, {
    let x = vs::i64();
    let r: Result<i32, LintError> = x.try_cast();
    let fits = x >= -32768 && x <= 32767;
    match &r {
        Ok(n) => assert!(fits && *n as i64 == x, "LONG -> INTEGER changed the value or accepted one out of range"),
        Err(e) => assert!(!fits && matches!(e, LintError::Overflow), "LONG -> INTEGER must fail exactly with Overflow when out of range"),
    }
    reach!(matches!(r, Ok(-32768)));
    reach!(matches!(r, Err(_)));
    std::mem::forget(r);
});

// ---------------------------------------------------------------------------------------------
// CastVariant::cast : source kind x target qualifier
// ---------------------------------------------------------------------------------------------

//# harness cast_single_to_single tier=quick label=complete props=C06,C04 fn=rusty_linter/src/core/qb_casting.rs::CastVariant::cast
harness!(cast_single_to_single, 2, {
    let v = Variant::VSingle(vs::f32());
    vs::assume(valid(&v)); // requires: the source satisfies the type invariant
    let x: f64 = match &v { Variant::VSingle(f) => { let f = *f; f as f64 } _ => 0.0 };
    let v0 = v.clone();
    let r = v.cast(Q::BangSingle);
    cast_post(x, Q::BangSingle, &r);
    // pass-through arm: the very same value (under the type invariant)
    assert!(matches!((&v0, &r), (Variant::VSingle(a), Ok(Variant::VSingle(b))) if a.to_bits() == b.to_bits()), "same-type conversion changed the value");
    reach!(r.is_ok());
    std::mem::forget(r);
    std::mem::forget(v0);
});

//# harness cast_single_to_double tier=quick label=complete props=C06,C04 fn=rusty_linter/src/core/qb_casting.rs::CastVariant::cast
harness!(cast_single_to_double, 2, {
    let v = Variant::VSingle(vs::f32());
    vs::assume(valid(&v)); // requires: the source satisfies the type invariant
    let x: f64 = match &v { Variant::VSingle(f) => { let f = *f; f as f64 } _ => 0.0 };
    let v0 = v.clone();
    let r = v.cast(Q::HashDouble);
    cast_post(x, Q::HashDouble, &r);
    reach!(r.is_ok());
    std::mem::forget(r);
    std::mem::forget(v0);
});

//# harness cast_single_to_integer tier=quick label=complete props=C06,C04 fn=rusty_linter/src/core/qb_casting.rs::CastVariant::cast
harness!(cast_single_to_integer, 2, {
    let v = Variant::VSingle(vs::f32());
    vs::assume(valid(&v)); // requires: the source satisfies the type invariant
    let x: f64 = match &v { Variant::VSingle(f) => { let f = *f; f as f64 } _ => 0.0 };
    let v0 = v.clone();
    let r = v.cast(Q::PercentInteger);
    cast_post(x, Q::PercentInteger, &r);
    reach!(r.is_ok());
    reach!(matches!(r, Err(LintError::Overflow)));
    std::mem::forget(r);
    std::mem::forget(v0);
});

//# harness cast_single_to_long tier=quick label=complete props=C06,C04 fn=rusty_linter/src/core/qb_casting.rs::CastVariant::cast
harness!(cast_single_to_long, 2, {
    let v = Variant::VSingle(vs::f32());
    vs::assume(valid(&v)); // requires: the source satisfies the type invariant
    let x: f64 = match &v { Variant::VSingle(f) => { let f = *f; f as f64 } _ => 0.0 };
    if KF_F13 {
        vs::assume(x != 2147483648.0); // known finding F13
    }
    let v0 = v.clone();
    let r = v.cast(Q::AmpersandLong);
    cast_post(x, Q::AmpersandLong, &r);
    reach!(r.is_ok());
    reach!(matches!(r, Err(LintError::Overflow)));
    std::mem::forget(r);
    std::mem::forget(v0);
});

//# harness cast_single_to_string tier=quick label=complete props=C06,C04 fn=rusty_linter/src/core/qb_casting.rs::CastVariant::cast
harness!(cast_single_to_string, 2, {
    let v = Variant::VSingle(vs::f32());
    vs::assume(valid(&v)); // requires: the source satisfies the type invariant
    let x: f64 = match &v { Variant::VSingle(f) => { let f = *f; f as f64 } _ => 0.0 };
    let v0 = v.clone();
    let r = v.cast(Q::DollarString);
    cast_post(x, Q::DollarString, &r);
    reach!(r.is_err());
    std::mem::forget(r);
    std::mem::forget(v0);
});

//# harness cast_double_to_single tier=quick label=complete props=C06,C04 fn=rusty_linter/src/core/qb_casting.rs::CastVariant::cast
harness!(cast_double_to_single, 2, {
    let v = Variant::VDouble(vs::f64());
    vs::assume(valid(&v)); // requires: the source satisfies the type invariant
    let x: f64 = match &v { Variant::VDouble(f) => { let f = *f; f } _ => 0.0 };
    if KF_F15 {
        vs::assume(x.abs() < single_limit()); // known finding F15
    }
    let v0 = v.clone();
    let r = v.cast(Q::BangSingle);
    cast_post(x, Q::BangSingle, &r);
    reach!(r.is_ok());
    std::mem::forget(r);
    std::mem::forget(v0);
});

//# harness cast_double_to_double tier=quick label=complete props=C06,C04 fn=rusty_linter/src/core/qb_casting.rs::CastVariant::cast
harness!(cast_double_to_double, 2, {
    let v = Variant::VDouble(vs::f64());
    vs::assume(valid(&v)); // requires: the source satisfies the type invariant
    let x: f64 = match &v { Variant::VDouble(f) => { let f = *f; f } _ => 0.0 };
    let v0 = v.clone();
    let r = v.cast(Q::HashDouble);
    cast_post(x, Q::HashDouble, &r);
    // pass-through arm: the very same value (under the type invariant)
    assert!(matches!((&v0, &r), (Variant::VDouble(a), Ok(Variant::VDouble(b))) if a.to_bits() == b.to_bits()), "same-type conversion changed the value");
    reach!(r.is_ok());
    std::mem::forget(r);
    std::mem::forget(v0);
});

//# harness cast_double_to_integer tier=quick label=complete props=C06,C04 fn=rusty_linter/src/core/qb_casting.rs::CastVariant::cast
harness!(cast_double_to_integer, 2, {
    let v = Variant::VDouble(vs::f64());
    vs::assume(valid(&v)); // requires: the source satisfies the type invariant
    let x: f64 = match &v { Variant::VDouble(f) => { let f = *f; f } _ => 0.0 };
    let v0 = v.clone();
    let r = v.cast(Q::PercentInteger);
    cast_post(x, Q::PercentInteger, &r);
    reach!(r.is_ok());
    reach!(matches!(r, Err(LintError::Overflow)));
    std::mem::forget(r);
    std::mem::forget(v0);
});

//# harness cast_double_to_long tier=quick label=complete props=C06,C04 fn=rusty_linter/src/core/qb_casting.rs::CastVariant::cast
harness!(cast_double_to_long, 2, {
    let v = Variant::VDouble(vs::f64());
    vs::assume(valid(&v)); // requires: the source satisfies the type invariant
    let x: f64 = match &v { Variant::VDouble(f) => { let f = *f; f } _ => 0.0 };
    let v0 = v.clone();
    let r = v.cast(Q::AmpersandLong);
    cast_post(x, Q::AmpersandLong, &r);
    reach!(r.is_ok());
    reach!(matches!(r, Err(LintError::Overflow)));
    std::mem::forget(r);
    std::mem::forget(v0);
});

//# harness cast_double_to_string tier=quick label=complete props=C06,C04 fn=rusty_linter/src/core/qb_casting.rs::CastVariant::cast
harness!(cast_double_to_string, 2, {
    let v = Variant::VDouble(vs::f64());
    vs::assume(valid(&v)); // requires: the source satisfies the type invariant
    let x: f64 = match &v { Variant::VDouble(f) => { let f = *f; f } _ => 0.0 };
    let v0 = v.clone();
    let r = v.cast(Q::DollarString);
    cast_post(x, Q::DollarString, &r);
    reach!(r.is_err());
    std::mem::forget(r);
    std::mem::forget(v0);
});

//# harness cast_integer_to_single tier=quick label=complete props=C06,C04 fn=rusty_linter/src/core/qb_casting.rs::CastVariant::cast
harness!(cast_integer_to_single, 2, {
    let v = Variant::VInteger(vs::i32());
    vs::assume(valid(&v)); // requires: the source satisfies the type invariant
    let x: f64 = match &v { Variant::VInteger(f) => { let f = *f; f as f64 } _ => 0.0 };
    let v0 = v.clone();
    let r = v.cast(Q::BangSingle);
    cast_post(x, Q::BangSingle, &r);
    reach!(r.is_ok());
    std::mem::forget(r);
    std::mem::forget(v0);
});

//# harness cast_integer_to_double tier=quick label=complete props=C06,C04 fn=rusty_linter/src/core/qb_casting.rs::CastVariant::cast
harness!(cast_integer_to_double, 2, {
    let v = Variant::VInteger(vs::i32());
    vs::assume(valid(&v)); // requires: the source satisfies the type invariant
    let x: f64 = match &v { Variant::VInteger(f) => { let f = *f; f as f64 } _ => 0.0 };
    let v0 = v.clone();
    let r = v.cast(Q::HashDouble);
    cast_post(x, Q::HashDouble, &r);
    reach!(r.is_ok());
    std::mem::forget(r);
    std::mem::forget(v0);
});

//# harness cast_integer_to_integer tier=quick label=complete props=C06,C04 fn=rusty_linter/src/core/qb_casting.rs::CastVariant::cast
harness!(cast_integer_to_integer, 2, {
    let v = Variant::VInteger(vs::i32());
    vs::assume(valid(&v)); // requires: the source satisfies the type invariant
    let x: f64 = match &v { Variant::VInteger(f) => { let f = *f; f as f64 } _ => 0.0 };
    let v0 = v.clone();
    let r = v.cast(Q::PercentInteger);
    cast_post(x, Q::PercentInteger, &r);
    // pass-through arm: the very same value (under the type invariant)
    assert!(matches!((&v0, &r), (Variant::VInteger(a), Ok(Variant::VInteger(b))) if a == b), "same-type conversion changed the value");
    reach!(r.is_ok());
    std::mem::forget(r);
    std::mem::forget(v0);
});

//# harness cast_integer_to_long tier=quick label=complete props=C06,C04 fn=rusty_linter/src/core/qb_casting.rs::CastVariant::cast
harness!(cast_integer_to_long, 2, {
    let v = Variant::VInteger(vs::i32());
    vs::assume(valid(&v)); // requires: the source satisfies the type invariant
    let x: f64 = match &v { Variant::VInteger(f) => { let f = *f; f as f64 } _ => 0.0 };
    let v0 = v.clone();
    let r = v.cast(Q::AmpersandLong);
    cast_post(x, Q::AmpersandLong, &r);
    reach!(r.is_ok());
    std::mem::forget(r);
    std::mem::forget(v0);
});

//# harness cast_integer_to_string tier=quick label=complete props=C06,C04 fn=rusty_linter/src/core/qb_casting.rs::CastVariant::cast
harness!(cast_integer_to_string, 2, {
    let v = Variant::VInteger(vs::i32());
    vs::assume(valid(&v)); // requires: the source satisfies the type invariant
    let x: f64 = match &v { Variant::VInteger(f) => { let f = *f; f as f64 } _ => 0.0 };
    let v0 = v.clone();
    let r = v.cast(Q::DollarString);
    cast_post(x, Q::DollarString, &r);
    reach!(r.is_err());
    std::mem::forget(r);
    std::mem::forget(v0);
});

//# harness cast_long_to_single tier=quick label=complete props=C06,C04 fn=rusty_linter/src/core/qb_casting.rs::CastVariant::cast
harness!(cast_long_to_single, 2, {
    let v = Variant::VLong(vs::i64());
    vs::assume(valid(&v)); // requires: the source satisfies the type invariant
    let x: f64 = match &v { Variant::VLong(f) => { let f = *f; f as f64 } _ => 0.0 };
    let v0 = v.clone();
    let r = v.cast(Q::BangSingle);
    cast_post(x, Q::BangSingle, &r);
    reach!(r.is_ok());
    std::mem::forget(r);
    std::mem::forget(v0);
});

//# harness cast_long_to_double tier=quick label=complete props=C06,C04 fn=rusty_linter/src/core/qb_casting.rs::CastVariant::cast
harness!(cast_long_to_double, 2, {
    let v = Variant::VLong(vs::i64());
    vs::assume(valid(&v)); // requires: the source satisfies the type invariant
    let x: f64 = match &v { Variant::VLong(f) => { let f = *f; f as f64 } _ => 0.0 };
    let v0 = v.clone();
    let r = v.cast(Q::HashDouble);
    cast_post(x, Q::HashDouble, &r);
    reach!(r.is_ok());
    std::mem::forget(r);
    std::mem::forget(v0);
});

//# harness cast_long_to_integer tier=quick label=complete props=C06,C04 fn=rusty_linter/src/core/qb_casting.rs::CastVariant::cast
harness!(cast_long_to_integer, 2, {
    let v = Variant::VLong(vs::i64());
    vs::assume(valid(&v)); // requires: the source satisfies the type invariant
    let x: f64 = match &v { Variant::VLong(f) => { let f = *f; f as f64 } _ => 0.0 };
    let v0 = v.clone();
    let r = v.cast(Q::PercentInteger);
    cast_post(x, Q::PercentInteger, &r);
    reach!(r.is_ok());
    reach!(matches!(r, Err(LintError::Overflow)));
    std::mem::forget(r);
    std::mem::forget(v0);
});

//# harness cast_long_to_long tier=quick label=complete props=C06,C04 fn=rusty_linter/src/core/qb_casting.rs::CastVariant::cast
harness!(cast_long_to_long, 2, {
    let v = Variant::VLong(vs::i64());
    vs::assume(valid(&v)); // requires: the source satisfies the type invariant
    let x: f64 = match &v { Variant::VLong(f) => { let f = *f; f as f64 } _ => 0.0 };
    let v0 = v.clone();
    let r = v.cast(Q::AmpersandLong);
    cast_post(x, Q::AmpersandLong, &r);
    // pass-through arm: the very same value (under the type invariant)
    assert!(matches!((&v0, &r), (Variant::VLong(a), Ok(Variant::VLong(b))) if a == b), "same-type conversion changed the value");
    reach!(r.is_ok());
    std::mem::forget(r);
    std::mem::forget(v0);
});

//# harness cast_long_to_string tier=quick label=complete props=C06,C04 fn=rusty_linter/src/core/qb_casting.rs::CastVariant::cast
harness!(cast_long_to_string, 2, {
    let v = Variant::VLong(vs::i64());
    vs::assume(valid(&v)); // requires: the source satisfies the type invariant
    let x: f64 = match &v { Variant::VLong(f) => { let f = *f; f as f64 } _ => 0.0 };
    let v0 = v.clone();
    let r = v.cast(Q::DollarString);
    cast_post(x, Q::DollarString, &r);
    reach!(r.is_err());
    std::mem::forget(r);
    std::mem::forget(v0);
});

//# harness finding_f13_cast_single_to_long tier=quick label=complete props=C06 fn=rusty_linter/src/core/qb_casting.rs::CastVariant::cast expect=finding:F13
harness!(finding_f13_cast_single_to_long, 2, {
    let r = Variant::VSingle(2147483648.0).cast(Q::AmpersandLong);
    cast_post(2147483648.0, Q::AmpersandLong, &r);
    std::mem::forget(r);
});

//# harness finding_f15_cast_double_to_single tier=quick label=complete props=C06 fn=rusty_linter/src/core/qb_casting.rs::CastVariant::cast expect=finding:F15
harness!(finding_f15_cast_double_to_single, 2, {
    let x = vs::f64();
    vs::assume(x.is_finite() && x.abs() >= single_limit());
    let r = Variant::VDouble(x).cast(Q::BangSingle);
    cast_post(x, Q::BangSingle, &r);
    std::mem::forget(r);
});

// strings: `$` accepts exactly strings and returns them unchanged; every numeric target rejects them
//# harness cast_string_to_numeric tier=quick label=bounded(len<=1) props=C06,C12 fn=rusty_linter/src/core/qb_casting.rs::CastVariant::cast timeout=900
harness!(cast_string_to_numeric, 2, {
    let k = vs::choice(4);
    let q = match k {
        0 => Q::BangSingle,
        1 => Q::HashDouble,
        2 => Q::PercentInteger,
        _ => Q::AmpersandLong,
    };
    let v = std::mem::ManuallyDrop::new(Variant::VString(String::new()));
    // the by-reference conversions `cast` is made of, then `cast` itself (which consumes the string)
    let r1: Result<f32, LintError> = v.try_cast();
    let r2: Result<f64, LintError> = v.try_cast();
    let r3: Result<i32, LintError> = v.try_cast();
    let r4: Result<i64, LintError> = v.try_cast();
    assert!(matches!(r1, Err(LintError::TypeMismatch)) && matches!(r2, Err(LintError::TypeMismatch))
        && matches!(r3, Err(LintError::TypeMismatch)) && matches!(r4, Err(LintError::TypeMismatch)), "string -> numeric must be TypeMismatch");
    let r = std::mem::ManuallyDrop::into_inner(v).cast(q);
    assert!(matches!(r, Err(LintError::TypeMismatch)), "string -> numeric must be TypeMismatch");
    reach!(k == 3);
    std::mem::forget(r);
    std::mem::forget(r1);
    std::mem::forget(r2);
    std::mem::forget(r3);
    std::mem::forget(r4);
});

//# harness cast_string_to_string tier=quick label=bounded(len<=1) props=C06,C12 fn=rusty_linter/src/core/qb_casting.rs::CastVariant::cast timeout=900
harness!(cast_string_to_string, 2, {
    let r = Variant::VString(String::from("7")).cast(Q::DollarString);
    let same = matches!(&r, Ok(Variant::VString(s)) if s.len() == 1 && s.as_bytes()[0] == b'7');
    assert!(same, "string -> string must be the identity");
    let r0 = Variant::VString(String::new()).cast(Q::DollarString);
    assert!(matches!(&r0, Ok(Variant::VString(s)) if s.is_empty()), "string -> string must be the identity");
    std::mem::forget(r);
    std::mem::forget(r0);
});

// truth value of a numeric value (conditions): zero is false, everything else true
//# harness truth_value tier=quick label=complete props=C01,C06 fn=rusty_linter/src/core/qb_casting.rs::QBNumberCast<bool>forVariant::try_cast
harness!(truth_value, 2, {
    let k = vs::choice(4);
    let (v, zero) = match k {
        0 => { let f = vs::f32(); vs::assume(f.is_finite()); (Variant::VSingle(f), f == 0.0) }
        1 => { let f = vs::f64(); vs::assume(f.is_finite()); (Variant::VDouble(f), f == 0.0) }
        2 => { let f = vs::i32(); (Variant::VInteger(f), f == 0) }
        _ => { let f = vs::i64(); (Variant::VLong(f), f == 0) }
    };
    let r: Result<bool, LintError> = v.try_cast();
    assert!(matches!(r, Ok(b) if b == !zero), "truth value of a number is `<> 0`");
    reach!(zero && k == 1);
    std::mem::forget(r);
    std::mem::forget(v);
});
