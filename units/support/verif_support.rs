// verif_support.rs — shared by every Kani harness module (textually included by the driver).
// `vs::*` hands out harness inputs: under Kani each call is one `kani::any()`; natively (replay,
// `--cfg rbverif_replay`) the values come from a replay file, one integer per call in call order,
// so the same harness body runs on the counterexample against the real code.
#[allow(dead_code, unused_imports)]
pub mod vs {
    #[cfg(not(kani))]
    thread_local! {
        static VALS: std::cell::RefCell<(Vec<u128>, usize)> = std::cell::RefCell::new((Vec::new(), 0));
    }
    #[cfg(not(kani))]
    pub struct ReplayAssumeFailed;
    #[cfg(not(kani))]
    fn next() -> u128 {
        VALS.with(|v| {
            let mut v = v.borrow_mut();
            let i = v.1;
            v.1 += 1;
            if i < v.0.len() { v.0[i] } else { 0 }
        })
    }
    macro_rules! src_fn {
        ($name:ident, $t:ty, $conv:expr) => {
            pub fn $name() -> $t {
                #[cfg(kani)]
                {
                    kani::any()
                }
                #[cfg(not(kani))]
                {
                    let f: fn(u128) -> $t = $conv;
                    f(next())
                }
            }
        };
    }
    src_fn!(bool, bool, |v| (v & 1) == 1);
    src_fn!(u8, u8, |v| v as u8);
    src_fn!(i8, i8, |v| v as u8 as i8);
    src_fn!(u16, u16, |v| v as u16);
    src_fn!(i16, i16, |v| v as u16 as i16);
    src_fn!(u32, u32, |v| v as u32);
    src_fn!(i32, i32, |v| v as u32 as i32);
    src_fn!(u64, u64, |v| v as u64);
    src_fn!(i64, i64, |v| v as u64 as i64);
    src_fn!(usize, usize, |v| v as u64 as usize);
    src_fn!(f32, f32, |v| f32::from_bits(v as u32));
    src_fn!(f64, f64, |v| f64::from_bits(v as u64));

    /// a value in 0..n (n >= 1)
    pub fn choice(n: u8) -> u8 {
        let v = u8();
        assume(v < n);
        v
    }
    /// an ASCII char
    pub fn ascii() -> char {
        let v = u8();
        assume(v < 128);
        v as char
    }
    pub fn assume(c: bool) {
        #[cfg(kani)]
        kani::assume(c);
        #[cfg(not(kani))]
        if !c {
            std::panic::panic_any(ReplayAssumeFailed);
        }
    }
    #[cfg(not(kani))]
    pub fn replay_main(table: &[(&str, fn())]) {
        let path = std::env::var("RBVERIF_REPLAY").expect("RBVERIF_REPLAY not set");
        let text = std::fs::read_to_string(&path).expect("cannot read replay input file");
        let mut lines = text.lines();
        let name = lines.next().expect("empty replay file").trim().to_string();
        let vals: Vec<u128> = lines
            .filter(|l| !l.trim().is_empty())
            .map(|l| l.trim().parse::<u128>().expect("bad value"))
            .collect();
        let f = match table.iter().find(|(n, _)| *n == name) {
            Some(x) => x.1,
            None => {
                println!("RBVERIF_REPLAY_RESULT no-such-harness harness={}", name);
                return;
            }
        };
        VALS.with(|v| *v.borrow_mut() = (vals, 0));
        let r = std::panic::catch_unwind(std::panic::AssertUnwindSafe(|| f()));
        match r {
            Ok(()) => println!("RBVERIF_REPLAY_RESULT pass harness={}", name),
            Err(e) => {
                if e.downcast_ref::<ReplayAssumeFailed>().is_some() {
                    println!("RBVERIF_REPLAY_RESULT assume-failed harness={}", name);
                } else {
                    let msg = if let Some(s) = e.downcast_ref::<&str>() {
                        s.to_string()
                    } else if let Some(s) = e.downcast_ref::<String>() {
                        s.clone()
                    } else {
                        "<non-string panic>".to_string()
                    };
                    println!("RBVERIF_REPLAY_RESULT fail harness={} panic={:?}", name, msg);
                }
            }
        }
    }
}

/// harness!(name, unwind, { ... });  — one named obligation (a `#[kani::proof]` under Kani,
/// a plain function natively so that the replay entry can call it).
#[allow(unused_macros)]
macro_rules! harness {
    ($name:ident, $unwind:expr, $body:block) => {
        #[cfg_attr(kani, kani::proof)]
        #[cfg_attr(kani, kani::unwind($unwind))]
        #[allow(unused_variables, unused_mut, dead_code)]
        pub fn $name() $body
    };
    // harness!(name, unwind, stub(path::of::callee, abstraction), { ... }): modular obligation -- under Kani the
    // callee is replaced by the given abstraction (needs `stubbing=1` in the unit header, i.e. `-Z stubbing`);
    // natively (replay) the real callee runs.
    // Several stub(..) clauses may be given.
    ($name:ident, $unwind:expr, $(stub($orig:path, $abs:path)),+ , $body:block) => {
        #[cfg_attr(kani, kani::proof)]
        #[cfg_attr(kani, kani::unwind($unwind))]
        $(#[cfg_attr(kani, kani::stub($orig, $abs))])+
        #[allow(unused_variables, unused_mut, dead_code)]
        pub fn $name() $body
    };
}

/// reach!(cond): reachability witness (vacuity guard) — a Kani cover property per call site.
#[allow(unused_macros)]
macro_rules! reach {
    ($c:expr) => {
        #[cfg(kani)]
        kani::cover!($c);
    };
}

/// harness_cvc5!(name, unwind, { ... });  — the same, but CBMC hands the formula to the SMT solver cvc5
/// (word-level floating point / division) instead of bit-blasting it for the SAT solver.  Use for obligations
/// that compare two IEEE multiplications / divisions or integer remainders (minutes with SAT, seconds with SMT).
#[allow(unused_macros)]
macro_rules! harness_cvc5 {
    ($name:ident, $unwind:expr, $body:block) => {
        #[cfg_attr(kani, kani::proof)]
        #[cfg_attr(kani, kani::unwind($unwind))]
        #[cfg_attr(kani, kani::solver(cvc5))]
        #[allow(unused_variables, unused_mut, dead_code)]
        pub fn $name() $body
    };
}
