// mock_interpreter_boxed.rs (variant of mock_interpreter.rs used by unit builtin_strings: arguments and result are BOXED, see the note on lost string bytes below)
// mock_interpreter.rs -- shared by the Kani units that put a built-in SUB/FUNCTION wrapper (`built_ins::*::run<S: InterpreterTrait>`)
// under contract (`//# support mock_interpreter.rs`, crate rusty_basic only, `stubbing=1`).
//
// `MockI` implements InterpreterTrait around a REAL `Context`; everything a built-in function wrapper does not touch is
// `unimplemented!()` (reaching it fails the obligation).  Under Kani the two places where a wrapper meets the variable
// store are replaced by CONTRACT STUBS (modular verification: the callee is replaced by what other units prove of it):
//   * `Variables::get(index)`               -> "the index-th argument of the call"          (ARGS; context_blocks + indexed_map:
//                                              positional parameters keep their index)
//   * `Context::set_built_in_function_result(f, v)` -> "the result slot of f holds v"      (RES, RES_F)
//   * `RandomState::new`                    -> a fixed hasher state (Kani cannot model getrandom; no hash is computed
//                                              on the stubbed paths)
// because CBMC does not get through the real `HashMap` inserts (> 15 min for one argument).  Natively (replay of a
// counterexample, `--cfg rbverif_replay`) no stub is applied: `mock_with_args` pushes the arguments through the real
// `begin_collecting_arguments / push_unnamed_by_val / stop_collecting_arguments` and `result_of` reads the real variable, so a
// reported input is a failing input of the whole real wrapper.
// Every harness using it must list the three stubs:  stub(std::hash::RandomState::new, fixed_random_state),
//   stub(crate::interpreter::variables::Variables::get, stub_variables_get),
//   stub(crate::interpreter::context::Context::set_built_in_function_result, stub_set_result)
use crate::interpreter::context::Context;
use crate::interpreter::interpreter_trait::InterpreterTrait;
use crate::interpreter::data_segment::DataSegment;
use crate::interpreter::default_stdlib::DefaultStdlib;
use crate::interpreter::io::FileManager;
use crate::interpreter::read_input::ReadInputSource;
use crate::interpreter::registers::{RegisterStack, Registers};
use crate::interpreter::screen::Screen;
use crate::interpreter::write_printer::WritePrinter;
use rusty_variant::Variant;
use crate::interpreter::variables::Variables;
use rusty_parser::{BareName, TypeQualifier};

fn fixed_random_state() -> std::hash::RandomState { unsafe { std::mem::transmute::<(u64, u64), std::hash::RandomState>((0u64, 0u64)) } }

pub struct MockI {
    pub ctx: Context,
}

impl InterpreterTrait for MockI {
    type TStdlib = DefaultStdlib;
    type TStdIn = ReadInputSource<std::io::Stdin>;
    type TStdOut = WritePrinter<std::io::Stdout>;
    type TLpt1 = WritePrinter<std::io::Stdout>;
    fn stdlib(&self) -> &Self::TStdlib { unimplemented!() }
    fn stdlib_mut(&mut self) -> &mut Self::TStdlib { unimplemented!() }
    fn file_manager(&mut self) -> &mut FileManager { unimplemented!() }
    fn stdin(&mut self) -> &mut Self::TStdIn { unimplemented!() }
    fn stdout(&mut self) -> &mut Self::TStdOut { unimplemented!() }
    fn lpt1(&mut self) -> &mut Self::TLpt1 { unimplemented!() }
    fn screen(&self) -> &dyn Screen { unimplemented!() }
    fn screen_mut(&mut self) -> &mut dyn Screen { unimplemented!() }
    fn context(&self) -> &Context { &self.ctx }
    fn context_mut(&mut self) -> &mut Context { &mut self.ctx }
    fn registers(&self) -> &Registers { unimplemented!() }
    fn registers_mut(&mut self) -> &mut Registers { unimplemented!() }
    fn register_stack(&mut self) -> &mut RegisterStack { unimplemented!() }
    fn by_ref_stack(&mut self) -> &mut std::collections::VecDeque<Variant> { unimplemented!() }
    fn take_function_result(&mut self) -> Option<Variant> { unimplemented!() }
    fn set_function_result(&mut self, _v: Variant) { unimplemented!() }
    fn var_path_stack(&mut self) -> &mut std::collections::VecDeque<crate::instruction_generator::Path> { unimplemented!() }
    fn data_segment(&mut self) -> &mut DataSegment { unimplemented!() }
    fn get_def_seg(&self) -> Option<usize> { unimplemented!() }
    fn set_def_seg(&mut self, _def_seg: Option<usize>) { unimplemented!() }
    fn get_last_error_code(&self) -> Option<i32> { unimplemented!() }
    fn interpret(&mut self, _r: crate::instruction_generator::InstructionGeneratorResult) -> Result<(), crate::RuntimeErrorPos> { unimplemented!() }
}


// ---- contract stubs (Kani only): the i-th argument of the running built-in / the slot its result is written to ----
// Every Variant lives in a Box of its own.  Learnt the hard way (CBMC 6 / Kani 0.68): a `Variant::VString` that is read back
// from a `Vec<Variant>` with two or more elements, or from a local / a tuple field, has LOST THE CONTENT of its heap buffer
// (length and capacity survive, the bytes come back nondeterministic -- a spurious failure, never a spurious pass, because the
// oracle compares with the intended content); a Variant moved into `Box::new(..)` keeps it.  So: arguments are handed over as
// `Vec<Box<Variant>>` (`mock_with_boxed_args(vec![arg(Variant::VString(s)), arg(Variant::VInteger(n))])`), the result slot is
// an `Option<Box<Variant>>` next to the function it was written for.  `mock_with_args(vec![..])` (plain Variants) is kept for
// numeric arguments.
static mut ARGS: Vec<Box<Variant>> = Vec::new();
static mut RES: Option<Box<Variant>> = None;
static mut RES_F: Option<BuiltInFunction> = None;

#[allow(static_mut_refs)]
fn stub_variables_get<'a>(_s: &'a Variables, index: usize) -> Option<&'a Variant> {
    unsafe {
        match ARGS.get(index) {
            Some(b) => Some(&**b),
            None => None,
        }
    }
}

// RES_F remembers the function: `result_of(&m, g)` is None for every g other than the f that was written, so a wrapper
// that writes the slot of another function fails its obligation under Kani too, not only natively.
#[allow(static_mut_refs)]
fn stub_set_result<V>(_c: &mut Context, _f: BuiltInFunction, value: V)
where
    Variant: From<V>,
{
    unsafe {
        // the old values are forgotten, not dropped: Variant drop glue is expensive in CBMC
        std::mem::forget(std::mem::replace(&mut RES, Some(Box::new(Variant::from(value)))));
        RES_F = Some(_f);
    }
}

/// one argument of the call, in a Box of its own (see above)
#[allow(dead_code)]
fn arg(v: Variant) -> Box<Variant> {
    Box::new(v)
}

#[allow(static_mut_refs, dead_code)]
fn mock_with_boxed_args(args: Vec<Box<Variant>>) -> MockI {
    #[allow(unused_mut)]
    let mut ctx = Context::new();
    #[cfg(kani)]
    unsafe {
        // a harness may drive several wrappers one after the other: each call starts with an empty result slot
        std::mem::forget(std::mem::replace(&mut ARGS, args));
        std::mem::forget(std::mem::replace(&mut RES, None));
        RES_F = None;
    }
    #[cfg(not(kani))]
    {
        ctx.begin_collecting_arguments();
        for a in args { ctx.arguments_mut().push_unnamed_by_val(*a); }
        ctx.stop_collecting_arguments();
    }
    MockI { ctx }
}

#[allow(dead_code)]
fn mock_with_args(args: Vec<Variant>) -> MockI {
    let mut boxed: Vec<Box<Variant>> = Vec::with_capacity(4);
    for a in args { boxed.push(Box::new(a)); }
    mock_with_boxed_args(boxed)
}

#[allow(static_mut_refs)]
fn result_of<'a>(_m: &'a MockI, _f: BuiltInFunction) -> Option<&'a Variant> {
    #[cfg(kani)]
    unsafe {
        return match (RES.as_ref(), RES_F) {
            (Some(b), Some(g)) if g == _f => Some(&**b),
            _ => None,
        };
    }
    #[cfg(not(kani))]
    {
        let q = TypeQualifier::from(&_f);
        let b = BareName::from(_f);
        return _m.ctx.variables().get_built_in(&b, q);
    }
}

/// "the call left no result behind" (the error clauses): under Kani no result slot at all was written; natively (replay)
/// the frame still holds exactly its `nargs` arguments and the slot of `f` is empty
#[allow(static_mut_refs, dead_code)]
fn no_result_written(_m: &MockI, _f: BuiltInFunction, _nargs: usize) -> bool {
    #[cfg(kani)]
    unsafe {
        return RES.is_none() && RES_F.is_none();
    }
    #[cfg(not(kani))]
    {
        return result_of(_m, _f).is_none() && _m.ctx.variables().len() == _nargs;
    }
}


// ---- capacity abstraction of std's growable buffers (Kani only, opt-in: `harness_bi!(name, unwind, std_caps, { .. })`) ----
// (shared with worker wb's copy of this file: same three stubs, same macro arm)
// `String::push` / `collect::<String>()` / `to_owned()` grow or allocate their buffer with a size computed from the length:
// with a symbolic count or a symbolic character (a code 128..255 takes two bytes) that is an allocation of SYMBOLIC size, and
// CBMC's formula explodes (RIGHT$ on one concrete 3-character string with a symbolic count: 29 million variables, out of
// memory).  The three stubs below replace the ALLOCATION POLICY by one that satisfies the documented contract of the std
// function and keeps every size concrete; contents are never touched:
//   String::new()              -> an empty string (std: capacity unspecified; here 32 bytes are reserved at once)
//   String::reserve(n)         -> std: afterwards capacity >= len + n, content unchanged; here: ASSERTS that the capacity
//                                 already suffices (a harness that needs more than 32 bytes fails, it does not pass silently)
//   Vec::with_capacity(n)      -> std: an empty vector with capacity >= n; here: asserts n <= 32 and reserves 32 elements
// The behaviour of safe code does not depend on the capacity; natively (replay) the real std runs.
fn stub_string_new() -> String { String::with_capacity(32) }
fn stub_string_reserve(s: &mut String, additional: usize) {
    assert!(s.capacity() - s.len() >= additional, "capacity abstraction: the 32 bytes reserved by String::new() suffice");
}
fn stub_vec_with_capacity<T>(n: usize) -> Vec<T> {
    assert!(n <= 32, "capacity abstraction: Vec::with_capacity is asked for at most 32 elements");
    let mut v: Vec<T> = Vec::new();
    v.reserve_exact(32);
    v
}

/// harness_bi!(name, unwind, { ... }): a harness! with the three contract stubs of this file applied.
#[allow(unused_macros)]
macro_rules! harness_bi {
    ($name:ident, $unwind:expr, $body:block) => {
        harness!($name, $unwind,
            stub(std::hash::RandomState::new, fixed_random_state),
            stub(crate::interpreter::variables::Variables::get, stub_variables_get),
            stub(crate::interpreter::context::Context::set_built_in_function_result, stub_set_result),
            $body);
    };
    // the same plus the capacity abstraction of String / Vec (see above)
    ($name:ident, $unwind:expr, std_caps, $body:block) => {
        harness!($name, $unwind,
            stub(std::hash::RandomState::new, fixed_random_state),
            stub(crate::interpreter::variables::Variables::get, stub_variables_get),
            stub(crate::interpreter::context::Context::set_built_in_function_result, stub_set_result),
            stub(std::string::String::new, stub_string_new),
            stub(std::string::String::reserve, stub_string_reserve),
            stub(std::vec::Vec::with_capacity, stub_vec_with_capacity),
            $body);
    };
}
