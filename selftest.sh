#!/bin/bash
# Development-time self-test: every seeded property-breaking change under seeded/<id>/ is applied to a scratch
# copy of /repo (never to /repo itself) and the checks named in its meta.json must report a VIOLATION;
# evidence/ and replays/ of /verif are not touched.  usage: ./selftest.sh [seed-id ...]
cd "$(dirname "$0")"
ids=${@:-$(ls seeded)}
tmp=$(mktemp -d /var/tmp/rbverif-selftest.XXXXXX)
trap 'rm -rf "$tmp"' EXIT
fail=0
results=seeded/RESULTS.txt
[ $# -eq 0 ] && : > $results
for id in $ids; do
  [ -f seeded/$id/meta.json ] || continue
  props=$(python3 -c "import json;print(' '.join(json.load(open('seeded/$id/meta.json'))['detected_by_checks']))")
  rm -rf $tmp/repo; rsync -a --exclude /target --exclude .git /repo/ $tmp/repo/
  if ! (cd $tmp/repo && patch -p1 -s < "$OLDPWD/seeded/$id/patch.diff"); then echo "SELFTEST $id: patch does not apply"; fail=1; continue; fi
  for p in $props; do
    RBVERIF_REPO=$tmp/repo RBVERIF_EVIDENCE_DIR=$tmp/ev RBVERIF_REPLAY_DIR=$tmp/replays RBVERIF_SCRATCH=$tmp/scratch ./check $p --tier quick > $tmp/out.log 2>&1; rc=$?
    if [ $rc -eq 1 ] && grep -q "^VIOLATION property=$p" $tmp/out.log; then
      line="SELFTEST $id: caught by $p: $(grep -A1 '^VIOLATION' $tmp/out.log | grep 'failed obligation' | head -2 | tr '\n' ' ')"; echo "$line"; echo "$line" >> $results
    else
      line="SELFTEST $id: NOT caught by $p (exit $rc)"; echo "$line"; echo "$line" >> $results; fail=1
    fi
  done
done
exit $fail
